// C17 harness: path post-processing (PathSimplifier, PathGeometric densification, PathHybridization).
//
// The translation units under test, src/ompl/geometric/src/PathSimplifier.cpp, PathGeometric.cpp and PathHybridization.cpp, are
// compiled INTO this harness (from the tree under test, -I<repo>/src) so that they are instrumented by
// ASan/UBSan (and, in the `pathops_chk` build, by -D_GLIBCXX_ASSERTIONS = bounds-checked operator[]); the
// executable's definitions interpose the ones in libompl.so.  No hook in /repo: `private` is opened for this
// translation unit, and the simplifier's private `rng_` is seen through the token-level proxy `vp::RecRng`,
// which either forwards to the real RNG (randomised ops) or returns scripted draws (lock-step ops
// `reduce`/`pshort`): uniformInt(lo,hi) = lo + raw % (hi-lo+1), uniformReal(lo,hi) = (hi-lo)*u + lo.
//
// protocol (header `pathops`), doubles as u64 bit patterns, a state = its leaf values:
//   env <space> boxes <pdim> <k> (<lo>*pdim <hi>*pdim)*k res <fraction> [oneway <ylo> <yhi>]   -> ok w=<leaf count>
//       (oneway: a direction-sensitive motion validator — inside the band ylo <= y <= yhi no motion may go in +x direction)
//   path <n> <state>*n                                                          -> ok chk=<0/1>
//   goals <m> <state>*m                                                         -> ok
//   collapse <maxSteps> <maxEmpty> | rope <delta> <eqTol> | subdivide | interp | interpn <count>
//   repair <attempts> <k> <state>*k      (checkAndRepair, raw samples scripted; r = 2*originalValid + result; appends ` iv <m> (<state> <0/1>)*m`)
//   bsplines <maxSteps> <minChange> | bgoal <obj> <attempts> <rangeRatio> <snap> <k> <u>*k
//   perturbs <obj> <stepSize> <maxSteps> <maxEmpty> <snap> <kh> <h>*kh <ks> <state>*ks     (whole routines, scripted draws)
//   reduce <maxSteps> <maxEmpty> <rangeRatio> <k> <raw>*k
//   pshort <maxSteps> <maxEmpty> <rangeRatio> <snap> <k> <u>*k
//   ropeo <obj> <delta> <eqTol>                                                  (ropeShortcutPath under an objective; deterministic)
//   pshorto <obj> <maxSteps> <maxEmpty> <rangeRatio> <snap> <k> <u>*k           (partialShortcutPath under an objective, scripted draws)
//   rnd <seed> <obj> (reduce ms me rr | pshort ms me rr snap | collapse ms me | rope delta tol | bspline steps minChange
//                     | perturb step ms me snap | bettergoal evalK attempts rr snap | simplify evalK atLeastOnce | simplifymax)
//   hybrid <obj> <gaps> <np> (<n> <state>*n)*np
// every routine op answers one line:
//   r <ret> out <k> <state>*k cm <m> (<a> <b> <ans>)*m len <before> <after> cost <before> <after> chk <0/1> [vsc <k> <n>*k] [ptc <fired 0/1>]
// (`cm` = every checkMotion(a,b) call made during the routine with its answer, in call order;
//  `chk` = PathGeometric::check() of the result, not recorded in `cm`.)
#include "common/planning.h"
#include <ompl/base/DiscreteMotionValidator.h>
#include <ompl/base/objectives/MaximizeMinClearanceObjective.h>
#include <ompl/base/objectives/StateCostIntegralObjective.h>
#include <ompl/base/objectives/MechanicalWorkOptimizationObjective.h>
#include <sstream>
#include <ompl/geometric/PathHybridization.h>
#define private public
#define protected public
#include <ompl/geometric/PathSimplifier.h>
#undef private
#undef protected

namespace vp
{
    struct DrawScript
    {
        bool scripted = false;
        std::vector<unsigned long long> raws;
        std::vector<double> us;
        std::vector<double> hs;   // scripted halfNormalReal draws: a + (b - a) * h
        size_t ri = 0, ui = 0, hi = 0;
    };
    static DrawScript g_draws;

    struct RecRng
    {
        ompl::RNG &r;
        int uniformInt(int lo, int hi)
        {
            if (!g_draws.scripted)
                return r.uniformInt(lo, hi);
            unsigned long long raw = g_draws.ri < g_draws.raws.size() ? g_draws.raws[g_draws.ri] : 0ULL;
            ++g_draws.ri;
            return lo + (int)(raw % (unsigned long long)(hi - lo + 1));
        }
        double uniformReal(double lo, double hi)
        {
            if (!g_draws.scripted)
                return r.uniformReal(lo, hi);
            double u = g_draws.ui < g_draws.us.size() ? g_draws.us[g_draws.ui] : 0.0;
            ++g_draws.ui;
            return (hi - lo) * u + lo;
        }
        double halfNormalReal(double a, double b, double f)
        {
            if (!g_draws.scripted)
                return r.halfNormalReal(a, b, f);
            double h = g_draws.hi < g_draws.hs.size() ? g_draws.hs[g_draws.hi] : 0.0;
            ++g_draws.hi;
            return a + (b - a) * h;
        }
    };
}  // namespace vp

// ---- the code under test, compiled here (see the header comment)
#define rng_ (vp::RecRng{rng_})
#include "ompl/geometric/src/PathSimplifier.cpp"
#undef rng_
#include "ompl/geometric/src/PathGeometric.cpp"
#include "ompl/geometric/src/PathHybridization.cpp"

namespace og = ompl::geometric;
namespace ob = ompl::base;

static bool g_inCm = false;   // inside a checkMotion call

// ------------------------------------------------------------------ recording motion validator
struct CmRec
{
    std::string a, b;
    bool ans;
};

class RecMV : public ob::MotionValidator
{
public:
    RecMV(const ob::SpaceInformationPtr &si) : ob::MotionValidator(si), inner_(si), sp_(si->getStateSpace())
    {
    }
    // optional ONE-WAY zone (direction-sensitive validity): inside the band ylo <= y <= yhi motions may not go in +x direction
    bool oneway = false;
    double ylo = 0, yhi = 0;
    bool wrongWay(const ob::State *s1, const ob::State *s2) const
    {
        if (!oneway)
            return false;
        std::vector<double> a, b;
        sp_->copyToReals(a, s1);
        sp_->copyToReals(b, s2);
        return b[0] > a[0] && std::min(a[1], b[1]) <= yhi && std::max(a[1], b[1]) >= ylo;
    }
    // deterministic non-termination guard: a routine that asks more than `budget` motions is stopped by an exception
    mutable unsigned long asked = 0;
    unsigned long budget = ~0UL;   // set to 150000 for ropeShortcutPath under a non-additive objective only (known livelock, F173)
    bool checkMotion(const ob::State *s1, const ob::State *s2) const override
    {
        if (++asked > budget)
            throw std::runtime_error("checkMotion budget exceeded");
        g_inCm = true;
        bool r = !wrongWay(s1, s2) && inner_.checkMotion(s1, s2);
        g_inCm = false;
        if (rec)
            log.push_back({vp::showState(sp_, s1), vp::showState(sp_, s2), r});
        return r;
    }
    bool checkMotion(const ob::State *s1, const ob::State *s2, std::pair<ob::State *, double> &lv) const override
    {
        g_inCm = true;
        bool r = !wrongWay(s1, s2) && inner_.checkMotion(s1, s2, lv);
        g_inCm = false;
        if (rec)
            log.push_back({vp::showState(sp_, s1), vp::showState(sp_, s2), r});
        return r;
    }
    mutable std::vector<CmRec> log;
    mutable bool rec = false;

private:
    ob::DiscreteMotionValidator inner_;
    ob::StateSpacePtr sp_;
};

// isValid calls made by the routine itself (not from inside checkMotion) are recorded for the model's `valid` oracle
struct IvRec
{
    std::string s;
    bool ans;
};
static std::vector<IvRec> g_iv;
static bool g_ivRec = false;

class TopValidity : public vp::RecordingValidityChecker
{
public:
    TopValidity(const ob::SpaceInformationPtr &si, vp::Env env) : vp::RecordingValidityChecker(si, std::move(env), false)
    {
    }
    bool isValid(const ob::State *st) const override
    {
        bool v = vp::RecordingValidityChecker::isValid(st);
        if (g_ivRec && !g_inCm)
            g_iv.push_back({vp::showState(si_->getStateSpace(), st), v});
        return v;
    }
};

// a simple smooth cost field for StateCostIntegralObjective: 1 + (first real)^2
class FieldObjective : public ob::StateCostIntegralObjective
{
public:
    FieldObjective(const ob::SpaceInformationPtr &si) : ob::StateCostIntegralObjective(si, false)
    {
    }
    ob::Cost stateCost(const ob::State *s) const override
    {
        std::vector<double> r;
        si_->getStateSpace()->copyToReals(r, s);
        return ob::Cost(1.0 + r[0] * r[0]);
    }
};

// scripted raw state sampler (for checkAndRepair's UniformValidStateSampler): every sample* call yields the next scripted
// state, the default state once the script is exhausted
struct SampleScript
{
    std::vector<ob::State *> states;
    ob::State *dflt = nullptr;
    size_t i = 0;
};

class ScriptedSampler : public ob::StateSampler
{
public:
    ScriptedSampler(const ob::StateSpace *sp, std::shared_ptr<SampleScript> sc) : ob::StateSampler(sp), sc_(std::move(sc))
    {
    }
    void sampleUniform(ob::State *s) override
    {
        next(s);
    }
    void sampleUniformNear(ob::State *s, const ob::State *, double) override
    {
        next(s);
    }
    void sampleGaussian(ob::State *s, const ob::State *, double) override
    {
        next(s);
    }

private:
    void next(ob::State *s)
    {
        space_->copyState(s, sc_->i < sc_->states.size() ? sc_->states[sc_->i] : sc_->dflt);
        ++sc_->i;
    }
    std::shared_ptr<SampleScript> sc_;
};

// strongly non-uniform cost fields (NOT proportional to length along a segment): `toll` = a vertical corridor 3 < x < 4.5
// costing 25 (1 elsewhere) plus a horizontal band 6 < y < 7 costing 12; `step` = 1 for x < 5, 12 for x >= 5; `checker` = 1 or 9 by
// the parity of floor(x) + floor(y).  `interp` switches on the objective's own motion-cost interpolation.
class TollObjective : public ob::StateCostIntegralObjective
{
public:
    TollObjective(const ob::SpaceInformationPtr &si, int kind, bool interp) : ob::StateCostIntegralObjective(si, interp), kind_(kind)
    {
    }
    ob::Cost stateCost(const ob::State *s) const override
    {
        std::vector<double> r;
        si_->getStateSpace()->copyToReals(r, s);
        double x = r[0], y = r.size() > 1 ? r[1] : 0.0;
        if (kind_ == 0)
            return ob::Cost(1.0 + ((x > 3.0 && x < 4.5) ? 24.0 : 0.0) + ((y > 6.0 && y < 7.0) ? 11.0 : 0.0));
        if (kind_ == 1)
            return ob::Cost(x < 5.0 ? 1.0 : 12.0);
        if (!(x == x) || !(y == y) || std::fabs(x) > 1e9 || std::fabs(y) > 1e9)
            return ob::Cost(1.0);   // NaN / huge candidate states (stepSize / 0): keep the cast defined
        return ob::Cost((((long)std::floor(x) + (long)std::floor(y)) & 1) ? 9.0 : 1.0);
    }

private:
    int kind_;
};

// ASYMMETRIC objective: mechanical work over the height field h = second real (y), path-length weight 0.05:
// motionCost(a, b) = max(h(b) - h(a), 0) + 0.05 * distance(a, b)  (climbing costs, descending is free)
class WorkObjective : public ob::MechanicalWorkOptimizationObjective
{
public:
    WorkObjective(const ob::SpaceInformationPtr &si) : ob::MechanicalWorkOptimizationObjective(si, 0.05)
    {
    }
    ob::Cost stateCost(const ob::State *s) const override
    {
        std::vector<double> r;
        si_->getStateSpace()->copyToReals(r, s);
        return ob::Cost(r.size() > 1 ? r[1] : 0.0);
    }
};

// EXACTLY ADDITIVE objectives that are not path length (a geometrically shorter chord can be costlier):
//  `lin`  = StateCostIntegralObjective over the LINEAR field c = 0.25 + x (the end-point trapezoid rule is exact for a linear field, so
//           motionCost(a, s) + motionCost(s, b) = motionCost(a, b) for every interpolated s, up to rounding);
//  `wreg` = length weighted by an expensive region: motionCost(a, b) = distance(a, b) * (1 + 4 * fraction of the motion whose (x, y) lies in the
//           box [3.5, 6.5]^2), the fraction in closed form (Liang-Barsky clipping) — additive along a motion, up to rounding.
class LinObjective : public ob::StateCostIntegralObjective
{
public:
    LinObjective(const ob::SpaceInformationPtr &si) : ob::StateCostIntegralObjective(si, false)
    {
    }
    ob::Cost stateCost(const ob::State *s) const override
    {
        std::vector<double> r;
        si_->getStateSpace()->copyToReals(r, s);
        return ob::Cost(0.25 + r[0]);
    }
};

static double wregFraction(double ax, double ay, double bx, double by)
{
    double t0 = 0.0, t1 = 1.0;
    const double a[2] = {ax, ay}, d[2] = {bx - ax, by - ay};
    for (int k = 0; k < 2; ++k)
    {
        if (d[k] == 0.0)
        {
            if (a[k] < 3.5 || a[k] > 6.5)
                return 0.0;
        }
        else
        {
            double u0 = (3.5 - a[k]) / d[k], u1 = (6.5 - a[k]) / d[k];
            if (u0 > u1)
                std::swap(u0, u1);
            if (u0 > t0)
                t0 = u0;
            if (u1 < t1)
                t1 = u1;
            if (t0 > t1)
                return 0.0;
        }
    }
    return t1 - t0;
}

class RegionObjective : public ob::OptimizationObjective
{
public:
    RegionObjective(const ob::SpaceInformationPtr &si) : ob::OptimizationObjective(si)
    {
        description_ = "region-weighted length";
    }
    ob::Cost stateCost(const ob::State *) const override
    {
        return identityCost();
    }
    ob::Cost motionCost(const ob::State *s1, const ob::State *s2) const override
    {
        std::vector<double> a, b;
        si_->getStateSpace()->copyToReals(a, s1);
        si_->getStateSpace()->copyToReals(b, s2);
        const double f = wregFraction(a[0], a.size() > 1 ? a[1] : 5.0, b[0], b.size() > 1 ? b[1] : 5.0);
        return ob::Cost(si_->distance(s1, s2) * (1.0 + 4.0 * f));
    }
};

struct Ctx
{
    ob::StateSpacePtr space;
    ob::SpaceInformationPtr si;
    std::shared_ptr<RecMV> mv;
    std::shared_ptr<vp::RecordingValidityChecker> svc;
    unsigned w = 0;
    std::vector<std::vector<std::string>> path;   // leaf tokens per state
    std::vector<std::vector<std::string>> goals;  // leaf tokens per goal state
};

static ob::OptimizationObjectivePtr makeObj(const Ctx &c, const std::string &o)
{
    if (o == "len")
        return std::make_shared<ob::PathLengthOptimizationObjective>(c.si);
    if (o == "clear")
        return std::make_shared<ob::MaximizeMinClearanceObjective>(c.si);
    if (o == "integral")
        return std::make_shared<FieldObjective>(c.si);
    if (o == "toll" || o == "tolli")
        return std::make_shared<TollObjective>(c.si, 0, o == "tolli");
    if (o == "step" || o == "stepi")
        return std::make_shared<TollObjective>(c.si, 1, o == "stepi");
    if (o == "checker")
        return std::make_shared<TollObjective>(c.si, 2, false);
    if (o == "work")
        return std::make_shared<WorkObjective>(c.si);
    if (o == "lin")
        return std::make_shared<LinObjective>(c.si);
    if (o == "wreg")
        return std::make_shared<RegionObjective>(c.si);
    throw vp::ParseError("objective " + o);
}

static void fillPath(const Ctx &c, const std::vector<std::vector<std::string>> &sts, og::PathGeometric &p)
{
    ob::State *s = c.si->allocState();
    for (const auto &toks : sts)
    {
        size_t i = 0;
        vp::parseStateInto(c.space.get(), s, toks, i);
        p.append(s);
    }
    c.si->freeState(s);
}

static std::string showPath(const Ctx &c, const og::PathGeometric &p)
{
    std::string s = "out " + std::to_string(p.getStateCount());
    for (std::size_t i = 0; i < p.getStateCount(); ++i)
        s += " " + vp::showState(c.space, p.getState(i));
    return s;
}

static std::string showCm(const Ctx &c)
{
    std::string s = "cm " + std::to_string(c.mv->log.size());
    for (const auto &r : c.mv->log)
        s += " " + r.a + " " + r.b + " " + (r.ans ? "1" : "0");
    return s;
}

// parse `n <state>*n` starting at t[i]
static bool takeStates(const Ctx &c, const std::vector<std::string> &t, size_t &i, std::vector<std::vector<std::string>> &out)
{
    if (i >= t.size())
        return false;
    auto n = vp::parseNat(t[i]);
    if (!n || i + 1 + *n * c.w > t.size())
        return false;
    ++i;
    out.clear();
    for (unsigned long long k = 0; k < *n; ++k)
    {
        std::vector<std::string> st(t.begin() + i, t.begin() + i + c.w);
        for (const auto &x : st)
            if (!vp::parseNat(x) && !vp::parseInt(x))
                return false;
        // validate by parsing once
        out.push_back(st);
        i += c.w;
    }
    return true;
}

int main()
{
    vp::quietLogs();
    std::string line;
    if (!vp::readLine(line))
        return 2;
    {
        auto hdr = vp::tokens(line);
        if (hdr.size() != 1 || hdr[0] != "pathops")
        {
            std::cout << "bad-header\n";
            return 2;
        }
    }
    Ctx c;
    while (vp::readLine(line))
    {
        auto t = vp::tokens(line);
        if (t.empty())
            continue;
        try
        {
            const std::string &op = t[0];
            if (op == "env")
            {
                size_t i = 1;
                auto sp = vp::parseSpaceX(t, i);
                vp::Env env;
                env.parse(t, i);
                if (i + 2 > t.size() || t[i] != "res")
                    throw vp::ParseError("res");
                ++i;
                double frac = vp::needF(t, i);
                bool oneway = false;
                double owLo = 0, owHi = 0;
                if (i < t.size())
                {
                    if (t[i] != "oneway" || i + 3 != t.size())
                        throw vp::ParseError("oneway");
                    ++i;
                    owLo = vp::needF(t, i);
                    owHi = vp::needF(t, i);
                    oneway = true;
                }
                c = Ctx();
                c.space = sp;
                c.si = std::make_shared<ob::SpaceInformation>(sp);
                c.svc = std::make_shared<TopValidity>(c.si, env);
                c.si->setStateValidityChecker(c.svc);
                c.si->setStateValidityCheckingResolution(frac);
                c.mv = std::make_shared<RecMV>(c.si);
                c.mv->oneway = oneway;
                c.mv->ylo = owLo;
                c.mv->yhi = owHi;
                c.si->setMotionValidator(c.mv);
                c.si->setup();
                {
                    ob::State *s = c.si->allocState();
                    std::string sh = vp::showState(sp, s);
                    c.w = vp::tokens(sh).size();
                    c.si->freeState(s);
                }
                std::cout << "ok w=" << c.w << "\n";
                continue;
            }
            if (!c.si)
            {
                std::cout << "bad-op\n";
                continue;
            }
            if (op == "path" || op == "goals")
            {
                size_t i = 1;
                std::vector<std::vector<std::string>> sts;
                if (!takeStates(c, t, i, sts) || i != t.size())
                {
                    std::cout << "bad-op\n";
                    continue;
                }
                if (op == "goals")
                {
                    c.goals = sts;
                    std::cout << "ok\n";
                    continue;
                }
                c.path = sts;
                og::PathGeometric p(c.si);
                fillPath(c, c.path, p);
                c.mv->rec = false;
                std::cout << "ok chk=" << (p.check() ? 1 : 0) << "\n";
                continue;
            }
            if (op == "hybridseq")
            {
                // hybridseq <obj> <nsteps> ( rec <gaps> <n> <state>*n | comp | clear )*nsteps
                // answers: `seq` then per step ` | rec <attempts> cost <c>` / ` | comp <none | out k states hcost c chk b>` / ` | clear`,
                // then ` cm …`
                if (t.size() < 3)
                    throw vp::ParseError("hybridseq");
                auto obj = makeObj(c, t[1]);
                auto ns = vp::parseNat(t[2]);
                if (!ns)
                    throw vp::ParseError("nsteps");
                og::PathHybridization ph(c.si, obj);
                std::vector<og::PathGeometricPtr> keep;
                size_t i = 3;
                c.mv->log.clear();
                std::string s = "seq";
                for (unsigned long long k = 0; k < *ns; ++k)
                {
                    if (i >= t.size())
                        throw vp::ParseError("step");
                    if (t[i] == "rec")
                    {
                        if (i + 1 >= t.size())
                            throw vp::ParseError("rec");
                        bool gaps = t[i + 1] == "1";
                        i += 2;
                        std::vector<std::vector<std::string>> sts;
                        if (!takeStates(c, t, i, sts))
                            throw vp::ParseError("rec path");
                        auto p = std::make_shared<og::PathGeometric>(c.si);
                        fillPath(c, sts, *p);
                        keep.push_back(p);
                        c.mv->rec = true;
                        unsigned int na = ph.recordPath(p, gaps);
                        c.mv->rec = false;
                        s += " | rec " + std::to_string(na) + " cost " + vp::bits(p->cost(obj).value());
                    }
                    else if (t[i] == "comp")
                    {
                        ++i;
                        ph.computeHybridPath();
                        const auto &h = ph.getHybridPath();
                        if (!h)
                            s += " | comp none";
                        else
                            s += " | comp " + showPath(c, *h) + " hcost " + vp::bits(h->cost(obj).value()) + " chk " + (h->check() ? "1" : "0");
                    }
                    else if (t[i] == "clear")
                    {
                        ++i;
                        ph.clear();
                        keep.clear();
                        s += " | clear";
                    }
                    else
                        throw vp::ParseError("step kind");
                }
                if (i != t.size())
                    throw vp::ParseError("trailing");
                s += " | " + showCm(c);
                std::cout << s << "\n";
                continue;
            }
            if (op == "hybrid")
            {
                if (t.size() < 4)
                    throw vp::ParseError("hybrid");
                auto obj = makeObj(c, t[1]);
                bool gaps = t[2] == "1";
                auto np = vp::parseNat(t[3]);
                if (!np)
                    throw vp::ParseError("np");
                size_t i = 4;
                std::vector<og::PathGeometricPtr> ps;
                for (unsigned long long k = 0; k < *np; ++k)
                {
                    std::vector<std::vector<std::string>> sts;
                    if (!takeStates(c, t, i, sts))
                        throw vp::ParseError("hybrid path");
                    auto p = std::make_shared<og::PathGeometric>(c.si);
                    fillPath(c, sts, *p);
                    ps.push_back(p);
                }
                if (i != t.size())
                    throw vp::ParseError("trailing");
                og::PathHybridization ph(c.si, obj);
                c.mv->log.clear();
                c.mv->rec = true;
                std::string s = "rec";
                for (auto &p : ps)
                    s += " " + std::to_string(ph.recordPath(p, gaps));
                ph.computeHybridPath();
                c.mv->rec = false;
                s += " costs";
                for (auto &p : ps)
                    s += " " + vp::bits(p->cost(obj).value());
                const auto &h = ph.getHybridPath();
                if (!h)
                    s += " none";
                else
                    s += " " + showPath(c, *h) + " hcost " + vp::bits(h->cost(obj).value()) + " chk " + (h->check() ? "1" : "0");
                s += " " + showCm(c);
                std::cout << s << "\n";
                continue;
            }

            if (op == "pg")
            {
                // the remaining PathGeometric methods on a fresh copy of the current path:
                //   pg reverse | prepend <state> | append <state> | appendpath <n> <state>*n | keepafter <state> | keepbefore <state>
                //      | closest <state> | overlay <start> <n> <state>*n | copies | metrics | print | random | randomvalid <attempts> | clear
                // answers `pg <ret> out <k> <state>*k [vals <bits>*]`
                if (t.size() < 2)
                    throw vp::ParseError("pg");
                const std::string &m = t[1];
                og::PathGeometric p(c.si);
                fillPath(c, c.path, p);
                long ret = -1;
                std::string vals;
                ob::State *arg = c.si->allocState();
                auto parseArg = [&](size_t at) {
                    size_t i = at;
                    vp::parseStateInto(c.space.get(), arg, t, i);
                    return i;
                };
                c.mv->rec = false;
                if (m == "reverse" && t.size() == 2)
                    p.reverse();
                else if (m == "prepend" && parseArg(2) == t.size())
                    p.prepend(arg);
                else if (m == "append" && parseArg(2) == t.size())
                    p.append(arg);
                else if (m == "keepafter" && parseArg(2) == t.size())
                    p.keepAfter(arg);
                else if (m == "keepbefore" && parseArg(2) == t.size())
                    p.keepBefore(arg);
                else if (m == "closest" && parseArg(2) == t.size())
                    ret = p.getClosestIndex(arg);
                else if (m == "appendpath" || m == "overlay")
                {
                    size_t i = 2;
                    unsigned long long start = 0;
                    if (m == "overlay")
                        start = vp::needN(t, i);
                    std::vector<std::vector<std::string>> sts;
                    if (!takeStates(c, t, i, sts) || i != t.size())
                        throw vp::ParseError("states");
                    og::PathGeometric q(c.si);
                    fillPath(c, sts, q);
                    if (m == "appendpath")
                        p.append(q);
                    else
                    {
                        try
                        {
                            p.overlay(q, (unsigned int)start);
                            ret = 0;
                        }
                        catch (const ompl::Exception &)
                        {
                            ret = 1;   // "Index on path is out of bounds"
                        }
                    }
                }
                else if (m == "copies" && t.size() == 2)
                {
                    og::PathGeometric a(p);          // copy constructor
                    og::PathGeometric b(c.si);
                    b = a;                           // assignment
                    b = b;                           // self-assignment
                    a.clear();
                    ret = (long)a.getStateCount();
                    p = b;
                }
                else if (m == "metrics" && t.size() == 2)
                {
                    auto lenObj = std::make_shared<ob::PathLengthOptimizationObjective>(c.si);
                    vals = " vals " + vp::bits(p.length()) + " " + vp::bits(p.cost(lenObj).value()) + " " + vp::bits(p.smoothness()) + " " +
                           vp::bits(p.clearance());
                }
                else if (m == "print" && t.size() == 2)
                {
                    std::stringstream ss1, ss2;
                    p.print(ss1);
                    p.printAsMatrix(ss2);
                    long l1 = 0, l2 = 0;
                    for (char ch : ss1.str())
                        l1 += ch == '\n';
                    for (char ch : ss2.str())
                        l2 += ch == '\n';
                    ret = l1 * 100000 + l2;
                }
                else if (m == "random" && t.size() == 2)
                    p.random();
                else if (m == "randomvalid" && t.size() == 3)
                    ret = p.randomValid((unsigned int)*vp::parseNat(t[2])) ? 1 : 0;
                else if (m == "clear" && t.size() == 2)
                    p.clear();
                else
                {
                    c.si->freeState(arg);
                    throw vp::ParseError("pg method");
                }
                c.si->freeState(arg);
                std::cout << "pg " << ret << " " << showPath(c, p) << vals << " chk " << (p.check() ? 1 : 0) << "\n";
                continue;
            }
            if (op == "chain")
            {
                // chain <seed> <obj> <freeStates 0/1> <n> <routine> <args..> ; <routine> <args..> ; …   — ONE PathSimplifier object, ONE path:
                // the routines are applied one after the other (history); answers `chain` + ` || r <ret> out … cm … cost <before> <after> chk` per step
                if (t.size() < 6)
                    throw vp::ParseError("chain");
                auto seed = vp::parseNat(t[1]);
                if (!seed)
                    throw vp::ParseError("seed");
                ompl::RNG::setSeed((std::uint_fast32_t)(*seed + 1));
                auto obj = makeObj(c, t[2]);
                const bool freeSt = t[3] == "1";
                auto goal = std::make_shared<ob::GoalStates>(c.si);
                {
                    ob::State *s = c.si->allocState();
                    const auto &gs = !c.goals.empty() ? c.goals : c.path.empty() ? std::vector<std::vector<std::string>>{} :
                                                                                      std::vector<std::vector<std::string>>{c.path.back()};
                    for (const auto &g : gs)
                    {
                        size_t i = 0;
                        vp::parseStateInto(c.space.get(), s, g, i);
                        goal->addState(s);
                    }
                    c.si->freeState(s);
                }
                og::PathGeometric p(c.si);
                fillPath(c, c.path, p);
                og::PathSimplifier ps(c.si, goal, obj);
                ps.freeStates(freeSt);
                std::string out = "chain";
                size_t i = 5;
                vp::g_draws = vp::DrawScript();
                while (i < t.size())
                {
                    size_t j = i;
                    while (j < t.size() && t[j] != ";")
                        ++j;
                    std::vector<std::string> a(t.begin() + i, t.begin() + j);
                    i = j + 1;
                    if (a.empty())
                        continue;
                    auto N = [&](size_t k2) { auto v = vp::parseNat(a.at(k2)); if (!v) throw vp::ParseError("nat"); return *v; };
                    auto Fv = [&](size_t k2) { auto v = vp::parseBits(a.at(k2)); if (!v) throw vp::ParseError("float"); return *v; };
                    double cost0 = p.cost(obj).value();
                    c.mv->log.clear();
                    c.mv->asked = 0;
                    c.mv->rec = true;
                    int ret = -1;
                    const std::string &rt = a[0];
                    {
                        const std::string &on = t[2];
                        const bool nonAdditive = on == "toll" || on == "tolli" || on == "step" || on == "stepi" || on == "checker" || on == "clear";
                        c.mv->budget = (rt == "rope" && nonAdditive) ? 150000UL : ~0UL;
                    }
                    if (rt == "reduce") ret = ps.reduceVertices(p, N(1), N(2), Fv(3));
                    else if (rt == "pshort") ret = ps.partialShortcutPath(p, N(1), N(2), Fv(3), Fv(4));
                    else if (rt == "collapse") ret = ps.collapseCloseVertices(p, N(1), N(2));
                    else if (rt == "rope") ret = ps.ropeShortcutPath(p, Fv(1), Fv(2));
                    else if (rt == "bspline") ps.smoothBSpline(p, N(1), Fv(2));
                    else if (rt == "perturb") ret = ps.perturbPath(p, Fv(1), N(2), N(3), Fv(4));
                    else if (rt == "bettergoal")
                    {
                        auto cnt = std::make_shared<vp::EvalCounter>();
                        cnt->fireAt = N(1);
                        ret = ps.findBetterGoal(p, vp::evalCountPtc(cnt), N(2), Fv(3), Fv(4));
                    }
                    else if (rt == "simplify")
                    {
                        auto cnt = std::make_shared<vp::EvalCounter>();
                        cnt->fireAt = N(1);
                        ret = ps.simplify(p, vp::evalCountPtc(cnt), N(2) != 0);
                    }
                    else if (rt == "simplifymax") ret = ps.simplifyMax(p);
                    else if (rt == "subdivide") p.subdivide();
                    else if (rt == "interpn") p.interpolate((unsigned int)N(1));
                    else
                        throw vp::ParseError("chain routine");
                    c.mv->rec = false;
                    out += " || r " + std::to_string(ret) + " " + showPath(c, p) + " " + showCm(c) + " len 0 0 cost " + vp::bits(cost0) + " " +
                           vp::bits(p.cost(obj).value()) + " chk " + (p.check() ? "1" : "0") + " worse " +
                           (obj->isCostBetterThan(ob::Cost(cost0), p.cost(obj)) ? "1" : "0");
                }
                std::cout << out << "\n";
                continue;
            }
            // ---------------- routine ops on a fresh copy of the current path
            std::vector<std::string> a(t.begin(), t.end());
            bool rnd = false;
            std::string objName = "len";
            size_t k = 0;
            if (op == "rnd")
            {
                if (t.size() < 4)
                    throw vp::ParseError("rnd");
                auto seed = vp::parseNat(t[1]);
                if (!seed)
                    throw vp::ParseError("seed");
                ompl::RNG::setSeed((std::uint_fast32_t)(*seed + 1));
                objName = t[2];
                rnd = true;
                k = 3;
            }
            const std::string &rt = t.at(k);
            auto argN = [&](size_t j) -> unsigned long long {
                auto v = vp::parseNat(t.at(k + j));
                if (!v)
                    throw vp::ParseError("nat arg");
                return *v;
            };
            auto argF = [&](size_t j) -> double {
                auto v = vp::parseBits(t.at(k + j));
                if (!v)
                    throw vp::ParseError("float arg");
                return *v;
            };
            auto nargs = [&](size_t n) {
                if (t.size() != k + 1 + n)
                    throw vp::ParseError("arity");
            };
            auto obj = makeObj(c, objName);
            // goal: the scripted goal states, or the last state of the path
            auto goal = std::make_shared<ob::GoalStates>(c.si);
            {
                ob::State *s = c.si->allocState();
                const auto &gs = !c.goals.empty() ? c.goals : c.path.empty() ? std::vector<std::vector<std::string>>{} :
                                                                                  std::vector<std::vector<std::string>>{c.path.back()};
                for (const auto &g : gs)
                {
                    size_t i = 0;
                    vp::parseStateInto(c.space.get(), s, g, i);
                    goal->addState(s);
                }
                c.si->freeState(s);
            }
            og::PathGeometric p(c.si);
            fillPath(c, c.path, p);
            og::PathSimplifier ps(c.si, goal, obj);
            double len0 = p.length();
            double cost0 = p.cost(obj).value();
            vp::g_draws = vp::DrawScript();
            std::string extra;
            int ret = -1;
            c.mv->log.clear();
            c.mv->asked = 0;
            {
                const std::string on = (rt == "ropeo" && t.size() > k + 1) ? t[k + 1] : objName;
                const bool nonAdditive = on == "toll" || on == "tolli" || on == "step" || on == "stepi" || on == "checker" || on == "clear";
                c.mv->budget = ((rt == "rope" || rt == "ropeo") && nonAdditive) ? 150000UL : ~0UL;
            }
            bool known = true;
            // pre-compute validSegmentCount for `interp` (oracle for the model)
            if (!rnd && rt == "interp")
            {
                extra = " vsc " + std::to_string(p.getStateCount() ? p.getStateCount() - 1 : 0);
                for (std::size_t i = 0; i + 1 < p.getStateCount(); ++i)
                    extra += " " + std::to_string(c.space->validSegmentCount(p.getState(i), p.getState(i + 1)));
            }
            c.mv->rec = true;
            if (!rnd && rt == "collapse")
            {
                nargs(2);
                ret = ps.collapseCloseVertices(p, argN(1), argN(2));
            }
            else if (!rnd && rt == "rope")
            {
                nargs(2);
                ret = ps.ropeShortcutPath(p, argF(1), argF(2));
            }
            else if (!rnd && rt == "ropeo")
            {
                // ropeo <obj> <delta> <eqTol>: ropeShortcutPath of a simplifier constructed with the objective (deterministic)
                nargs(3);
                obj = makeObj(c, t.at(k + 1));
                og::PathSimplifier ps2(c.si, goal, obj);
                cost0 = p.cost(obj).value();
                ret = ps2.ropeShortcutPath(p, argF(2), argF(3));
            }
            else if (!rnd && rt == "subdivide")
            {
                nargs(0);
                p.subdivide();
            }
            else if (!rnd && rt == "interp")
            {
                nargs(0);
                p.interpolate();
            }
            else if (!rnd && rt == "interpn")
            {
                nargs(1);
                p.interpolate((unsigned int)argN(1));
            }
            else if (!rnd && rt == "repair")
            {
                // repair <attempts> <k> <state>*k : checkAndRepair with scripted raw samples; ret = 2*originalValid + result
                unsigned long long n = argN(2);
                nargs(2 + n * c.w);
                auto sc = std::make_shared<SampleScript>();
                c.mv->rec = false;
                const bool nonEmpty = p.getStateCount() > 0;
                extra = " iv " + std::to_string(n + (nonEmpty ? 2 : 0));
                auto addIv = [&](const ob::State *st) {
                    extra += " " + vp::showState(c.space, st) + (c.si->isValid(st) ? " 1" : " 0");
                };
                if (nonEmpty)
                {
                    addIv(p.getState(0));
                    addIv(p.getState(p.getStateCount() - 1));
                }
                for (unsigned long long j = 0; j < n; ++j)
                {
                    ob::State *st = c.si->allocState();
                    size_t i = k + 3 + j * c.w;
                    vp::parseStateInto(c.space.get(), st, t, i);
                    sc->states.push_back(st);
                    addIv(st);
                }
                sc->dflt = p.getStateCount() > 0 ? c.si->cloneState(p.getState(0)) : c.si->allocState();
                c.space->setStateSamplerAllocator(
                    [sc](const ob::StateSpace *sp) { return std::make_shared<ScriptedSampler>(sp, sc); });
                c.mv->rec = true;
                auto pr = p.checkAndRepair((unsigned int)argN(1));
                c.mv->rec = false;
                c.space->clearStateSamplerAllocator();
                ret = (pr.first ? 2 : 0) + (pr.second ? 1 : 0);
                for (auto *st : sc->states)
                    c.si->freeState(st);
                c.si->freeState(sc->dflt);
            }
            else if (!rnd && rt == "bsplines")
            {
                // bsplines <maxSteps> <minChange>: smoothBSpline (deterministic) with the routine's own isValid calls recorded
                nargs(2);
                g_iv.clear();
                g_ivRec = true;
                ps.smoothBSpline(p, argN(1), argF(2));
                g_ivRec = false;
                extra = " iv " + std::to_string(g_iv.size());
                for (const auto &r : g_iv)
                    extra += " " + r.s + (r.ans ? " 1" : " 0");
            }
            else if (!rnd && rt == "bgoal")
            {
                // bgoal <obj> <attempts> <rangeRatio> <snap> <k> <u>*k: findBetterGoal, scripted uniform draws, goal region = the
                // scripted goal states (GoalStates::sampleGoal cycles through them), termination condition never fires
                unsigned long long n = argN(5);
                nargs(5 + n);
                obj = makeObj(c, t.at(k + 1));
                og::PathSimplifier ps2(c.si, goal, obj);
                cost0 = p.cost(obj).value();
                vp::g_draws.scripted = true;
                for (unsigned long long j = 0; j < n; ++j)
                    vp::g_draws.us.push_back(argF(6 + j));
                auto cnt = std::make_shared<vp::EvalCounter>();
                cnt->fireAt = 1000000000UL;
                ret = ps2.findBetterGoal(p, vp::evalCountPtc(cnt), argN(2), argF(3), argF(4));
            }
            else if (!rnd && rt == "perturbs")
            {
                // perturbs <obj> <stepSize> <maxSteps> <maxEmpty> <snap> <kh> <h>*kh <ks> <state>*ks: perturbPath with scripted halfNormal
                // draws and a scripted state sampler
                obj = makeObj(c, t.at(k + 1));
                og::PathSimplifier ps2(c.si, goal, obj);
                cost0 = p.cost(obj).value();
                unsigned long long kh = argN(6);
                vp::g_draws.scripted = true;
                for (unsigned long long j = 0; j < kh; ++j)
                    vp::g_draws.hs.push_back(argF(7 + j));
                unsigned long long ksn = argN(7 + kh);
                nargs(7 + kh + ksn * c.w);
                auto sc = std::make_shared<SampleScript>();
                for (unsigned long long j = 0; j < ksn; ++j)
                {
                    ob::State *st = c.si->allocState();
                    size_t i = k + 8 + kh + j * c.w;
                    vp::parseStateInto(c.space.get(), st, t, i);
                    sc->states.push_back(st);
                }
                sc->dflt = p.getStateCount() > 0 ? c.si->cloneState(p.getState(0)) : c.si->allocState();
                c.space->setStateSamplerAllocator(
                    [sc](const ob::StateSpace *sp) { return std::make_shared<ScriptedSampler>(sp, sc); });
                ret = ps2.perturbPath(p, argF(2), argN(3), argN(4), argF(5));
                c.space->clearStateSamplerAllocator();
                for (auto *st : sc->states)
                    c.si->freeState(st);
                c.si->freeState(sc->dflt);
            }
            else if (!rnd && rt == "reduce")
            {
                unsigned long long n = argN(4);
                nargs(4 + n);
                vp::g_draws.scripted = true;
                for (unsigned long long j = 0; j < n; ++j)
                    vp::g_draws.raws.push_back(argN(5 + j));
                ret = ps.reduceVertices(p, argN(1), argN(2), argF(3));
            }
            else if (!rnd && rt == "pshort")
            {
                unsigned long long n = argN(5);
                nargs(5 + n);
                vp::g_draws.scripted = true;
                for (unsigned long long j = 0; j < n; ++j)
                    vp::g_draws.us.push_back(argF(6 + j));
                ret = ps.partialShortcutPath(p, argN(1), argN(2), argF(3), argF(4));
            }
            else if (!rnd && rt == "pshorto")
            {
                // pshorto <obj> <maxSteps> <maxEmpty> <rangeRatio> <snap> <k> <u>*k: partialShortcutPath under an objective, scripted draws
                unsigned long long n = argN(6);
                nargs(6 + n);
                obj = makeObj(c, t.at(k + 1));
                og::PathSimplifier ps2(c.si, goal, obj);
                cost0 = p.cost(obj).value();
                vp::g_draws.scripted = true;
                for (unsigned long long j = 0; j < n; ++j)
                    vp::g_draws.us.push_back(argF(7 + j));
                ret = ps2.partialShortcutPath(p, argN(2), argN(3), argF(4), argF(5));
            }
            else if (rnd && rt == "reduce")
            {
                nargs(3);
                ret = ps.reduceVertices(p, argN(1), argN(2), argF(3));
            }
            else if (rnd && rt == "pshort")
            {
                nargs(4);
                ret = ps.partialShortcutPath(p, argN(1), argN(2), argF(3), argF(4));
            }
            else if (rnd && rt == "collapse")
            {
                nargs(2);
                ret = ps.collapseCloseVertices(p, argN(1), argN(2));
            }
            else if (rnd && rt == "rope")
            {
                nargs(2);
                ret = ps.ropeShortcutPath(p, argF(1), argF(2));
            }
            else if (rnd && rt == "bspline")
            {
                nargs(2);
                ps.smoothBSpline(p, argN(1), argF(2));
            }
            else if (rnd && rt == "perturb")
            {
                nargs(4);
                ret = ps.perturbPath(p, argF(1), argN(2), argN(3), argF(4));
            }
            else if (rnd && rt == "bettergoal")
            {
                nargs(4);
                auto cnt = std::make_shared<vp::EvalCounter>();
                cnt->fireAt = argN(1);
                ret = ps.findBetterGoal(p, vp::evalCountPtc(cnt), argN(2), argF(3), argF(4));
            }
            else if (rnd && rt == "simplify")
            {
                nargs(2);
                auto cnt = std::make_shared<vp::EvalCounter>();
                cnt->fireAt = argN(1);
                ret = ps.simplify(p, vp::evalCountPtc(cnt), argN(2) != 0);
                // did the termination condition turn true during the run?
                extra = std::string(" ptc ") + (cnt->evals > cnt->fireAt ? "1" : "0");
            }
            else if (rnd && rt == "simplifymax")
            {
                nargs(0);
                ret = ps.simplifyMax(p);
            }
            else
                known = false;
            c.mv->rec = false;
            vp::g_draws = vp::DrawScript();
            if (!known)
            {
                std::cout << "bad-op\n";
                continue;
            }
            std::string s = "r " + std::to_string(ret) + " " + showPath(c, p) + " " + showCm(c);
            s += " len " + vp::bits(len0) + " " + vp::bits(p.length());
            s += " cost " + vp::bits(cost0) + " " + vp::bits(p.cost(obj).value());
            s += std::string(" chk ") + (p.check() ? "1" : "0");
            s += extra;
            // the objective's own verdict: is the cost before better than the cost after?
            s += std::string(" worse ") + (obj->isCostBetterThan(ob::Cost(cost0), p.cost(obj)) ? "1" : "0");
            std::cout << s << "\n";
        }
        catch (const std::exception &e)
        {
            c.mv->rec = false;
            g_inCm = false;
            vp::g_draws = vp::DrawScript();
            if (std::string(e.what()) == "checkMotion budget exceeded")
                std::cout << "budget-exceeded\n";
            else
                std::cout << "bad-op\n";
        }
    }
    return 0;
}
