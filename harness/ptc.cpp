// C18 harness: drives the real termination conditions of libompl (built from /repo's current tree)
// through the `ptc` line protocol (see lean/OmplModel/Driver/Ptc.lean for the grammar).
//
// * leaves are scripted bool queues that count their invocations (atomic: a poller thread may call);
// * `term` calls terminate() from a second thread (joined before the next op);
// * `gate/await/release/settle`: a scripted leaf can block on its k-th invocation, so that terminate() can be
//   placed exactly between the poller thread's call of the predicate and the store of its result;
// * `clock=fake`: this translation unit defines clock_gettime(); the dynamic linker resolves
//   libstdc++'s call (std::chrono::system_clock::now(), i.e. ompl::time::now()) to it, so the
//   script sets the time the *unmodified* library code reads.  No source hook in /repo.
//   `clock=real`: the definition forwards to libc.
// * `private` is opened for this translation unit only, to reach
//   IterationTerminationCondition::timesCalled_ (`itcset`, used to get near evaluation 2^32 - where the
//   counter wrapped before /repo 354f9f45d - without 4e9 calls; `itcspin` does it through the public eval()) and PlannerTerminationCondition::impl_
//   (`solve` reads period_ through a layout mirror that is self-tested at start-up).
#include "common/proto.h"
#include <atomic>
#include <chrono>
#include <condition_variable>
#include <dlfcn.h>
#include <functional>
#include <map>
#include <memory>
#include <mutex>
#include <thread>
#include <time.h>
#include <pthread.h>
#include <sched.h>
#include <sys/syscall.h>
#include <unistd.h>
#include <vector>
#include <ompl/util/Console.h>
#include <ompl/util/Time.h>
#include <ompl/base/ProblemDefinition.h>
#include <ompl/base/SpaceInformation.h>
// everything the two headers below include has been included above (include guards), so the
// `private` switch touches these two class definitions only
#define private public
#include <ompl/base/PlannerTerminationCondition.h>
#include <ompl/base/terminationconditions/IterationTerminationCondition.h>
#undef private
#include <ompl/base/Planner.h>
#include <ompl/base/spaces/RealVectorStateSpace.h>
#include <ompl/geometric/PathGeometric.h>
#include <ompl/base/terminationconditions/CostConvergenceTerminationCondition.h>

namespace ob = ompl::base;
using PTC = ob::PlannerTerminationCondition;

// ------------------------------------------------------------------------------ the clock
static const long long FAKE_BASE = 1000000000000000LL;  // ns
static std::atomic<long long> fakeNs{-1};               // < 0: real clock

// While a probe window is open the interposer counts who reads CLOCK_REALTIME: the thread that opened
// the window (an evaluation of the *direct* timed form calls time::now() on the caller's thread) or
// another thread (the poller of the *periodic* form).  Structural, not timing: see the `solve` op.
static pthread_t harnessThread;
static bool harnessThreadSet = false;
static std::atomic<long long> syncTarget{-1};
static std::atomic<long> syncReads{0};
static std::atomic<int> probeOpen{0};
static pthread_t probeMain;
static std::atomic<long> probeMainReads{0};
static std::atomic<long> probeForeignReads{0};

extern "C" int clock_gettime(clockid_t id, struct timespec *ts) noexcept
{
    using fn_t = int (*)(clockid_t, struct timespec *);
    static fn_t real = (fn_t)dlsym(RTLD_NEXT, "clock_gettime");
    if (id == CLOCK_REALTIME && probeOpen.load())
    {
        if (pthread_equal(pthread_self(), probeMain))
            ++probeMainReads;
        else
            ++probeForeignReads;
    }
    long long f = fakeNs.load();
    if (id == CLOCK_REALTIME && f >= 0 && harnessThreadSet && !pthread_equal(pthread_self(), harnessThread) &&
        f == syncTarget.load())
        ++syncReads;   // a thread other than the harness's (a poller) has read the *current* script clock
    if (id == CLOCK_REALTIME && f >= 0)
    {
        ts->tv_sec = f / 1000000000LL;
        ts->tv_nsec = f % 1000000000LL;
        return 0;
    }
    return real(id, ts);
}

// ------------------------------------------------------------------------------ the poller's sleeps
// This translation unit also defines nanosleep(): std::this_thread::sleep_for() inside libompl (periodicEval's
// `std::this_thread::sleep_for(s)`) is inlined there and reaches the kernel through the PLT entry `nanosleep`,
// which the dynamic linker resolves to this definition.  For every thread other than the harness's it counts
// the calls and remembers the requested length; a scripted leaf invoked on such a thread takes the record as
// "the sleeps between my previous invocation on this thread and this one" (`naps`), the thread's exit hands
// over what it slept after its last invocation (`napsexit`).  `fastnap 1`: those threads' sleeps return at
// once (so a 100 s period can be observed in microseconds); the harness thread always really sleeps.
struct LeafScript;
struct NapLog
{
    long n = 0;
    long long ns = -1;
    bool mixed = false;
    LeafScript *last = nullptr;
    void add(long long d)
    {
        if (n > 0 && d != ns)
            mixed = true;
        ns = d;
        ++n;
    }
    void reset() { n = 0; ns = -1; mixed = false; }
    ~NapLog();
};
static thread_local NapLog napLog;
static std::atomic<bool> fastNap{false};

extern "C" int nanosleep(const struct timespec *req, struct timespec *rem)
{
    using fn_t = int (*)(const struct timespec *, struct timespec *);
    static fn_t real = (fn_t)dlsym(RTLD_NEXT, "nanosleep");
    if (harnessThreadSet && !pthread_equal(pthread_self(), harnessThread) && req != nullptr)
    {
        napLog.add((long long)req->tv_sec * 1000000000LL + req->tv_nsec);
        if (fastNap.load())
        {
            if ((napLog.n & 1023) == 0)
                sched_yield();
            return 0;
        }
    }
    return real(req, rem);
}

// ------------------------------------------------------------------------------ scripted leaves
struct LeafScript
{
    std::mutex m;
    std::condition_variable cv;
    std::vector<char> vals;
    size_t base = 0;
    bool tail = false;
    std::atomic<size_t> calls{0};
    std::atomic<size_t> foreignCalls{0};   // invocations made by a thread other than the harness thread
    bool async = false;
    // gate: the invocation with index gateAt blocks on entry until it is released and then returns
    // gateVerdict (handshake-driven interleavings with a poller thread; no timing involved)
    long long gateAt = -1;
    bool gateVerdict = false;
    bool inside = false, open = false, returned = false;
    long gateTid = 0;   // kernel thread id of the thread that entered the gate
    // sleeps of the invoking (poller) thread between its previous invocation and the latest one / after its last one
    long gapN = 0, exitN = 0;
    long long gapNs = -1, exitNs = -1;
    bool gapMixed = false, exitMixed = false, exited = false;
    bool invoke()
    {
        std::unique_lock<std::mutex> g(m);
        size_t k = calls++;
        if (!pthread_equal(pthread_self(), harnessThread))
        {
            ++foreignCalls;
            gapN = napLog.n;
            gapNs = napLog.ns;
            gapMixed = napLog.mixed;
            napLog.reset();
            napLog.last = this;
        }
        if (gateAt >= 0 && k == (size_t)gateAt)
        {
            inside = true;
            gateTid = (long)syscall(SYS_gettid);
            cv.notify_all();
            cv.wait(g, [this] { return open; });
            gateAt = -1;
            returned = true;
            cv.notify_all();
            return gateVerdict;
        }
        if (k >= base && k - base < vals.size())
            return vals[k - base] != 0;
        return tail;
    }
};
NapLog::~NapLog()
{
    if (last != nullptr)
    {
        std::lock_guard<std::mutex> g(last->m);
        last->exitN = n;
        last->exitNs = ns;
        last->exitMixed = mixed;
        last->exited = true;
    }
}
static std::string napLine(long n, long long ns, bool mixed)
{
    return "n=" + std::to_string(n) + " ns=" + (n == 0 ? std::string("-") : mixed ? std::string("mixed") : std::to_string(ns));
}
static std::map<size_t, std::shared_ptr<LeafScript>> leaves;
static std::shared_ptr<LeafScript> leafOf(size_t id)
{
    auto it = leaves.find(id);
    if (it != leaves.end())
        return it->second;
    auto l = std::make_shared<LeafScript>();
    leaves[id] = l;
    return l;
}

// ------------------------------------------------------------------------------ impl mirror
struct ImplMirror
{
    std::function<bool()> fn_;
    double period_;
    bool terminate_;
    std::thread *thread_;
    std::atomic<bool> evalValue_;
    std::atomic<bool> signalThreadStop_;
};
static const ImplMirror *mirror(const PTC &c)
{
    return reinterpret_cast<const ImplMirror *>(c.impl_.get());
}
static bool mirrorSelfTest()
{
    PTC a([] { return false; });
    if (mirror(a)->period_ != -1.0 || mirror(a)->terminate_ || mirror(a)->thread_ != nullptr)
        return false;
    a.terminate();
    if (!mirror(a)->terminate_)
        return false;
    PTC b([] { return false; }, 0.123);
    bool ok = mirror(b)->period_ == 0.123 && mirror(b)->thread_ != nullptr && !mirror(b)->terminate_;
    return ok;
}

static bool threadAlive(long tid)
{
    return access(("/proc/self/task/" + std::to_string(tid)).c_str(), F_OK) == 0;
}

// Planner::solve(double) hands its termination condition to solve(const PTC &): the probe records what it
// was handed.  Which form it is, is observed by *who reads the clock* when the condition is evaluated
// (the condition's predicate is `time::now() > endTime`): N evaluations on this thread cause exactly N
// clock reads on this thread in the direct form and none in the periodic form, whose reads come from its
// poller thread (waited for with a bounded event wait).  No thread counting, no timing.
class ProbePlanner : public ob::Planner
{
public:
    static const int N = 3;
    ProbePlanner(const ob::SpaceInformationPtr &si, bool mirrorOk) : ob::Planner(si, "probe"), mirrorOk_(mirrorOk) {}
    using ob::Planner::solve;
    ob::PlannerStatus solve(const PTC &ptc) override
    {
        if (mirrorOk_)
        {
            period = mirror(ptc)->period_;
            hasThread = mirror(ptc)->thread_ != nullptr;
        }
        probeMain = pthread_self();
        probeMainReads = 0;
        probeForeignReads = 0;
        probeOpen = 1;
        value = ptc();
        for (int i = 1; i < N; ++i)
            (void)ptc();
        long mainReads = probeMainReads.load();
        if (mainReads == N)
            form = 0;   // every evaluation ran the predicate on the caller's thread
        else if (mainReads == 0)
        {
            // nothing ran here: the periodic form.  Corroborate: its poller reads the clock from another thread
            auto t0 = std::chrono::steady_clock::now();
            while (probeForeignReads.load() == 0 && std::chrono::steady_clock::now() - t0 < std::chrono::seconds(10))
                std::this_thread::sleep_for(std::chrono::microseconds(200));
            form = probeForeignReads.load() > 0 ? 1 : -1;
        }
        else
            form = -1;
        probeOpen = 0;
        if (mirrorOk_ && form >= 0 && (form == 1) != hasThread)
            form = -1;   // the two structural observations disagree: no verdict (never a failing answer)
        return ob::PlannerStatus::TIMEOUT;
    }
    bool mirrorOk_;
    int form = -1;   // 0 direct, 1 periodic, -1 not conclusive
    double period = 0;
    bool hasThread = false;
    bool value = false;
};

// Planner::solve(const PlannerTerminationConditionFn &, double checkInterval): the probe evaluates what it is
// handed N times on the harness thread.  Direct form: the scripted predicate runs N times on this thread and
// the answers are its next N values.  Periodic form: it does not run on this thread at all; after a bounded
// wait for two invocations from another thread (so one poll has been stored) N more evaluations give `vals`.
class ProbeFnPlanner : public ob::Planner
{
public:
    static const int N = 3;
    ProbeFnPlanner(const ob::SpaceInformationPtr &si, bool mirrorOk, std::shared_ptr<LeafScript> l)
      : ob::Planner(si, "probefn"), mirrorOk_(mirrorOk), leaf_(std::move(l)) {}
    using ob::Planner::solve;
    ob::PlannerStatus solve(const PTC &ptc) override
    {
        if (mirrorOk_)
        {
            period = mirror(ptc)->period_;
            hasThread = mirror(ptc)->thread_ != nullptr;
        }
        size_t calls0 = leaf_->calls.load(), foreign0 = leaf_->foreignCalls.load();
        std::string v;
        for (int i = 0; i < N; ++i)
            v += ptc() ? '1' : '0';
        size_t here = (leaf_->calls.load() - calls0) - (leaf_->foreignCalls.load() - foreign0);
        if (here == (size_t)N)
        {
            form = 0;
            vals = v;
            ranHere = N;
        }
        else if (here == 0)
        {
            auto t0 = std::chrono::steady_clock::now();
            while (leaf_->foreignCalls.load() < foreign0 + 2 &&
                   std::chrono::steady_clock::now() - t0 < std::chrono::seconds(10))
                std::this_thread::sleep_for(std::chrono::microseconds(200));
            if (leaf_->foreignCalls.load() >= foreign0 + 2)
            {
                form = 1;
                for (int i = 0; i < N; ++i)
                    vals += ptc() ? '1' : '0';
            }
        }
        if (mirrorOk_ && form >= 0 && (form == 1) != hasThread)
            form = -1;
        return ob::PlannerStatus::TIMEOUT;
    }
    bool mirrorOk_;
    std::shared_ptr<LeafScript> leaf_;
    int form = -1;
    int ranHere = 0;
    std::string vals;
    double period = 0;
    bool hasThread = false;
};

// ------------------------------------------------------------------------------ specs
struct LeafSpec
{
    enum Kind { PRED, ALWAYS, NEVER, EXACT, ITC, TIMED } kind;
    size_t id = 0;
    std::string obj;
    double dur = 0;
};
static std::optional<LeafSpec> parseLeaf(const std::vector<std::string> &t, size_t i)
{
    size_t n = t.size() - i;
    LeafSpec s;
    if (n == 2 && t[i] == "pred" && vp::parseNat(t[i + 1]))
    {
        s.kind = LeafSpec::PRED;
        s.id = *vp::parseNat(t[i + 1]);
        return s;
    }
    if (n == 1 && t[i] == "always") { s.kind = LeafSpec::ALWAYS; return s; }
    if (n == 1 && t[i] == "never") { s.kind = LeafSpec::NEVER; return s; }
    if (n == 1 && t[i] == "exact") { s.kind = LeafSpec::EXACT; return s; }
    if (n == 2 && t[i] == "itc") { s.kind = LeafSpec::ITC; s.obj = t[i + 1]; return s; }
    if (n == 2 && t[i] == "timed" && vp::parseBits(t[i + 1]))
    {
        s.kind = LeafSpec::TIMED;
        s.dur = *vp::parseBits(t[i + 1]);
        return s;
    }
    return std::nullopt;
}

static std::optional<bool> parseBit(const std::string &s)
{
    if (s == "0") return false;
    if (s == "1") return true;
    return std::nullopt;
}

int main()
{
    harnessThread = pthread_self();
    harnessThreadSet = true;
    ompl::msg::noOutputHandler();
    std::string line;
    if (!vp::readLine(line))
        return 2;
    auto hdr = vp::tokens(line);
    bool fake;
    // an optional third token (sat=0|sat=1) tells the *model* which timed arithmetic the tree under test has
    bool hdrOk = hdr.size() >= 2 && hdr[0] == "ptc";
    for (size_t i = 2; hdrOk && i < hdr.size(); ++i)   // sat=0|1, neg=0|1: which variants the tree under test has
        hdrOk = hdr[i] == "sat=0" || hdr[i] == "sat=1" || hdr[i] == "neg=0" || hdr[i] == "neg=1";
    if (hdrOk && hdr[1] == "clock=fake")
        fake = true;
    else if (hdrOk && hdr[1] == "clock=real")
        fake = false;
    else
    {
        std::cout << "bad-header\n";
        return 2;
    }
    const bool mirrorOk = mirrorSelfTest();
    if (fake)
    {
        syncTarget = FAKE_BASE;
        fakeNs = FAKE_BASE;
    }

    auto space = std::make_shared<ob::RealVectorStateSpace>(1);
    space->setBounds(0, 1);
    auto si = std::make_shared<ob::SpaceInformation>(space);
    ob::ProblemDefinitionPtr pdef = std::make_shared<ob::ProblemDefinition>(si);
    std::map<std::string, PTC> names;
    std::map<std::string, ob::IterationTerminationCondition> itcs;
    long awaitedTid = 0;   // kernel thread id of the poller found inside the gate by the last `await`

    auto snapshot = [&]() {
        std::map<size_t, size_t> m;
        for (auto &kv : leaves)
            if (!kv.second->async)
                m[kv.first] = kv.second->calls.load();
        return m;
    };

    while (vp::readLine(line))
    {
        auto t = vp::tokens(line);
        if (t.empty())
            continue;
        const std::string &op = t[0];
        if (op == "script" && t.size() >= 3 && vp::parseNat(t[1]) && parseBit(t[2]))
        {
            std::vector<char> vals;
            bool ok = true;
            for (size_t i = 3; i < t.size(); ++i)
            {
                auto b = parseBit(t[i]);
                if (!b) { ok = false; break; }
                vals.push_back(*b ? 1 : 0);
            }
            if (!ok) { std::cout << "bad-op\n"; continue; }
            auto l = leafOf(*vp::parseNat(t[1]));
            std::lock_guard<std::mutex> g(l->m);
            l->vals = vals;
            l->base = l->calls.load();
            l->tail = *parseBit(t[2]);
            std::cout << "ok\n";
        }
        else if (op == "def" && t.size() >= 3)
        {
            const std::string &name = t[1];
            // 1. well-formedness
            enum { LEAF, OR, AND, COSTCONV, TIMEDP, TIMEDD } form = LEAF;
            long long durNs = 0;
            std::optional<LeafSpec> leaf;
            std::optional<double> period;
            double dur = 0, itv = 0, eps = 0;
            size_t window = 0;
            bool ok = true;
            if (t[2] == "or" || t[2] == "and")
            {
                ok = t.size() == 5;
                form = t[2] == "or" ? OR : AND;
            }
            else if (t[2] == "poll")
            {
                ok = t.size() >= 5 && vp::parseBits(t[3]);
                if (ok)
                {
                    period = *vp::parseBits(t[3]);
                    leaf = parseLeaf(t, 4);
                    ok = leaf.has_value();
                }
            }
            else if (t[2] == "timedp")
            {
                ok = t.size() == 5 && vp::parseBits(t[3]) && vp::parseBits(t[4]);
                if (ok)
                {
                    form = TIMEDP;
                    dur = *vp::parseBits(t[3]);
                    itv = *vp::parseBits(t[4]);
                }
            }
            else if (t[2] == "timedd")
            {
                // the time::duration overload, handed whole nanoseconds
                ok = t.size() == 4 && vp::parseInt(t[3]);
                if (ok)
                {
                    form = TIMEDD;
                    durNs = *vp::parseInt(t[3]);
                }
            }
            else if (t[2] == "costconv")
            {
                ok = t.size() == 5 && vp::parseNat(t[3]) && vp::parseBits(t[4]);
                if (ok)
                {
                    form = COSTCONV;
                    window = *vp::parseNat(t[3]);
                    eps = *vp::parseBits(t[4]);
                }
            }
            else
            {
                leaf = parseLeaf(t, 2);
                ok = leaf.has_value();
            }
            if (!ok) { std::cout << "bad-op\n"; continue; }
            // 2. duplicate name
            if (names.count(name)) { std::cout << "dup\n"; continue; }
            // 3. operands
            if (form == OR || form == AND)
            {
                auto a = names.find(t[3]), b = names.find(t[4]);
                if (a == names.end() || b == names.end()) { std::cout << "unknown\n"; continue; }
                names.emplace(name, form == OR ? ob::plannerOrTerminationCondition(a->second, b->second) :
                                                 ob::plannerAndTerminationCondition(a->second, b->second));
            }
            else if (form == TIMEDP)
                names.emplace(name, ob::timedPlannerTerminationCondition(dur, itv));
            else if (form == TIMEDD)
                names.emplace(name, ob::timedPlannerTerminationCondition(
                                        std::chrono::duration_cast<ompl::time::duration>(std::chrono::nanoseconds(durNs))));
            else if (form == COSTCONV)
            {
                // the object is used as Planner::solve would use it: through its PlannerTerminationCondition
                // base; the copy captured by the callback inside pdef carries (averageCost_, solutions_).
                ob::CostConvergenceTerminationCondition cc(pdef, window, eps);
                names.emplace(name, static_cast<const PTC &>(cc));
            }
            else
            {
                const LeafSpec &s = *leaf;
                if (s.kind == LeafSpec::ITC && !itcs.count(s.obj)) { std::cout << "unknown\n"; continue; }
                if (!period)
                {
                    switch (s.kind)
                    {
                        case LeafSpec::PRED:
                        {
                            auto l = leafOf(s.id);
                            names.emplace(name, PTC([l] { return l->invoke(); }));
                            break;
                        }
                        case LeafSpec::ALWAYS: names.emplace(name, ob::plannerAlwaysTerminatingCondition()); break;
                        case LeafSpec::NEVER: names.emplace(name, ob::plannerNonTerminatingCondition()); break;
                        case LeafSpec::EXACT: names.emplace(name, ob::exactSolnPlannerTerminationCondition(pdef)); break;
                        case LeafSpec::ITC: names.emplace(name, static_cast<PTC>(itcs.at(s.obj))); break;
                        case LeafSpec::TIMED: names.emplace(name, ob::timedPlannerTerminationCondition(s.dur)); break;
                    }
                }
                else
                {
                    // the two-argument constructor (what Planner::solve(fn, checkInterval) uses)
                    std::function<bool()> fn;
                    switch (s.kind)
                    {
                        case LeafSpec::PRED:
                        {
                            auto l = leafOf(s.id);
                            if (*period > 0.0)
                                l->async = true;
                            fn = [l] { return l->invoke(); };
                            break;
                        }
                        case LeafSpec::ALWAYS: fn = [] { return true; }; break;
                        case LeafSpec::NEVER: fn = [] { return false; }; break;
                        case LeafSpec::EXACT: fn = [pdef] { return pdef->hasExactSolution(); }; break;
                        case LeafSpec::ITC:
                        {
                            ob::IterationTerminationCondition c = itcs.at(s.obj);
                            fn = [c]() mutable { return c.eval(); };
                            break;
                        }
                        case LeafSpec::TIMED:
                        {
                            const ompl::time::point endTime(ompl::time::now() + ompl::time::seconds(s.dur));
                            fn = [endTime] { return ompl::time::now() > endTime; };
                            break;
                        }
                    }
                    names.emplace(name, PTC(fn, *period));
                }
            }
            std::cout << "ok\n";
        }
        else if (op == "copy" && t.size() == 3)
        {
            if (names.count(t[2])) { std::cout << "dup\n"; continue; }
            auto a = names.find(t[1]);
            if (a == names.end()) { std::cout << "unknown\n"; continue; }
            PTC c(a->second);  // copy constructor
            names.emplace(t[2], c);
            std::cout << "ok\n";
        }
        else if (op == "drop" && t.size() == 2)
        {
            auto a = names.find(t[1]);
            if (a == names.end()) { std::cout << "unknown\n"; continue; }
            names.erase(a);
            std::cout << "ok\n";
        }
        else if ((op == "ev" || op == "evb" || op == "eve") && t.size() == 2)
        {
            auto a = names.find(t[1]);
            if (a == names.end()) { std::cout << "unknown\n"; continue; }
            auto before = snapshot();
            bool r;
            if (op == "ev")
                r = a->second();
            else if (op == "evb")
                r = static_cast<bool>(a->second);
            else
                r = a->second.eval();
            auto after = snapshot();
            std::string inv;
            for (auto &kv : after)
            {
                size_t b = before.count(kv.first) ? before[kv.first] : 0;
                if (kv.second > b)
                    inv += (inv.empty() ? "" : ",") + std::to_string(kv.first) + ":" + std::to_string(kv.second - b);
            }
            std::cout << "r=" << (r ? 1 : 0) << " inv=" << (inv.empty() ? "-" : inv) << "\n";
        }
        else if (op == "term" && t.size() == 2)
        {
            auto a = names.find(t[1]);
            if (a == names.end()) { std::cout << "unknown\n"; continue; }
            const PTC &c = a->second;
            std::thread th([&c] { c.terminate(); });
            th.join();
            std::cout << "ok\n";
        }
        else if (op == "itc" && t.size() == 3 && vp::parseNat(t[2]) && *vp::parseNat(t[2]) < 4294967296ULL)
        {
            if (itcs.count(t[1])) { std::cout << "dup\n"; continue; }
            itcs.emplace(t[1], ob::IterationTerminationCondition((unsigned int)*vp::parseNat(t[2])));
            std::cout << "ok\n";
        }
        else if (op == "itcev" && t.size() == 2)
        {
            auto o = itcs.find(t[1]);
            if (o == itcs.end()) { std::cout << "unknown\n"; continue; }
            bool r = o->second.eval();
            std::cout << "r=" << (r ? 1 : 0) << " tc=" << o->second.getTimesCalled() << "\n";
        }
        else if (op == "itcreset" && t.size() == 2)
        {
            auto o = itcs.find(t[1]);
            if (o == itcs.end()) { std::cout << "unknown\n"; continue; }
            o->second.reset();
            std::cout << "ok\n";
        }
        else if (op == "itcset" && t.size() == 3 && vp::parseNat(t[2]))
        {
            auto o = itcs.find(t[1]);
            if (o == itcs.end()) { std::cout << "unknown\n"; continue; }
            // whatever width the counter has in the tree under test (64 bit since /repo 354f9f45d)
            o->second.timesCalled_ = static_cast<decltype(o->second.timesCalled_)>(*vp::parseNat(t[2]));
            std::cout << "ok\n";
        }
        else if (op == "itcspin" && t.size() == 3 && vp::parseNat(t[2]))
        {
            auto o = itcs.find(t[1]);
            if (o == itcs.end()) { std::cout << "unknown\n"; continue; }
            unsigned long long k = *vp::parseNat(t[2]);
            for (unsigned long long i = 0; i < k; ++i)
                o->second.eval();
            std::cout << "ok tc=" << o->second.getTimesCalled() << "\n";
        }
        else if (op == "clock" && t.size() == 2 && vp::parseInt(t[1]))
        {
            if (!fake) { std::cout << "bad-op\n"; continue; }
            syncTarget = FAKE_BASE + *vp::parseInt(t[1]);
            syncReads = 0;
            fakeNs = FAKE_BASE + *vp::parseInt(t[1]);
            std::cout << "ok\n";
        }
        else if (op == "wait" && t.size() == 2 && vp::parseNat(t[1]))
        {
            std::this_thread::sleep_for(std::chrono::milliseconds(*vp::parseNat(t[1])));
            std::cout << "ok\n";
        }
        else if (op == "gate" && t.size() == 4 && vp::parseNat(t[1]) && vp::parseNat(t[2]) && *vp::parseNat(t[2]) >= 1 &&
                 *vp::parseNat(t[2]) <= 1000000 && parseBit(t[3]))
        {
            // the k-th invocation from now blocks until `release` and then returns the verdict
            auto l = leafOf(*vp::parseNat(t[1]));
            std::lock_guard<std::mutex> g(l->m);
            l->gateAt = (long long)(l->calls.load() + *vp::parseNat(t[2]) - 1);
            l->gateVerdict = *parseBit(t[3]);
            l->inside = l->open = l->returned = false;
            l->exited = false;
            std::cout << "ok\n";
        }
        else if (op == "fastnap" && t.size() == 2 && parseBit(t[1]))
        {
            fastNap = *parseBit(t[1]);
            std::cout << "ok\n";
        }
        else if (op == "naps" && t.size() == 2 && vp::parseNat(t[1]))
        {
            // the sleeps the poller made between its previous invocation of this leaf and the one it is held in
            auto l = leafOf(*vp::parseNat(t[1]));
            std::lock_guard<std::mutex> g(l->m);
            if (l->inside && !l->open)
                std::cout << napLine(l->gapN, l->gapNs, l->gapMixed) << "\n";
            else
                std::cout << "n=? ns=?\n";
        }
        else if (op == "napsexit" && t.size() == 2 && vp::parseNat(t[1]))
        {
            // the sleeps the poller made after its last invocation of this leaf, until its thread ended
            auto l = leafOf(*vp::parseNat(t[1]));
            std::lock_guard<std::mutex> g(l->m);
            if (l->exited)
                std::cout << napLine(l->exitN, l->exitNs, l->exitMixed) << "\n";
            else
                std::cout << "n=? ns=?\n";
        }
        else if (op == "await" && t.size() == 2 && vp::parseNat(t[1]))
        {
            // until the poller thread is inside the gated invocation (bounded wait, no timing claim)
            auto l = leafOf(*vp::parseNat(t[1]));
            std::unique_lock<std::mutex> g(l->m);
            bool ok = l->cv.wait_for(g, std::chrono::seconds(10), [&] { return l->inside; });
            awaitedTid = ok ? l->gateTid : 0;
            g.unlock();
            std::cout << (ok ? "ok" : "timeout") << "\n";
        }
        else if (op == "release" && t.size() == 2 && vp::parseNat(t[1]))
        {
            // lets the gated invocation return its verdict; comes back once it has returned
            auto l = leafOf(*vp::parseNat(t[1]));
            std::unique_lock<std::mutex> g(l->m);
            l->open = true;
            l->cv.notify_all();
            bool ok = !l->inside || l->cv.wait_for(g, std::chrono::seconds(10), [&] { return l->returned; });
            std::cout << (ok ? "ok" : "timeout") << "\n";
        }
        else if (op == "settle" && t.size() == 1)
        {
            // until the poller thread that was inside the gate at `await` has left its loop and exited (it stores
            // its result, sees terminate_ and returns): its own /proc/self/task/<tid> entry disappears.  Bounded
            // event wait on that one thread; other threads coming and going do not matter.
            bool ok = false;
            auto t0 = std::chrono::steady_clock::now();
            while (awaitedTid > 0 && std::chrono::steady_clock::now() - t0 < std::chrono::seconds(10))
            {
                if (!threadAlive(awaitedTid)) { ok = true; break; }
                std::this_thread::sleep_for(std::chrono::microseconds(200));
            }
            std::cout << (ok ? "ok" : "timeout") << "\n";
        }
        else if (op == "cost" && t.size() == 2 && vp::parseBits(t[1]))
        {
            const ob::ReportIntermediateSolutionFn &cb = pdef->getIntermediateSolutionCallback();
            if (!cb) { std::cout << "none\n"; continue; }
            std::vector<const ob::State *> none;
            cb(nullptr, none, ob::Cost(*vp::parseBits(t[1])));
            std::cout << "ok\n";
        }
        else if (op == "cbclear" && t.size() == 1)
        {
            // the user replaces the problem definition's callback while a cost-convergence condition is alive
            pdef->setIntermediateSolutionCallback(ob::ReportIntermediateSolutionFn());
            std::cout << "ok\n";
        }
        else if (op == "soln" && t.size() == 3 && parseBit(t[1]) && vp::parseBits(t[2]))
        {
            auto path = std::make_shared<ompl::geometric::PathGeometric>(si);
            pdef->addSolutionPath(path, *parseBit(t[1]), *vp::parseBits(t[2]), "harness");
            std::cout << "exact=" << (pdef->hasExactSolution() ? 1 : 0) << "\n";
        }
        else if (op == "solnclear" && t.size() == 1)
        {
            pdef->clearSolutionPaths();
            std::cout << "exact=" << (pdef->hasExactSolution() ? 1 : 0) << "\n";
        }
        else if (op == "solve" && t.size() == 2 && vp::parseBits(t[1]))
        {
            ProbePlanner p(si, mirrorOk);
            static_cast<ob::Planner &>(p).solve(*vp::parseBits(t[1]));
            // a field that could not be observed conclusively is `?` (no demand), never a wrong answer
            std::cout << "polled=" << (p.form < 0 ? "?" : (p.form ? "1" : "0"))
                      << " period=" << (mirrorOk ? vp::bits(p.period) : std::string("?"))
                      << " v=" << (p.value ? 1 : 0) << "\n";
        }
        else if (op == "solvefn" && t.size() == 3 && vp::parseNat(t[1]) && vp::parseBits(t[2]))
        {
            auto l = leafOf(*vp::parseNat(t[1]));
            double itv = *vp::parseBits(t[2]);
            if (itv > 0.0)
                l->async = true;
            ProbeFnPlanner p(si, mirrorOk, l);
            static_cast<ob::Planner &>(p).solve([l] { return l->invoke(); }, itv);
            std::cout << "polled=" << (p.form < 0 ? "?" : (p.form ? "1" : "0"))
                      << " period=" << (mirrorOk ? vp::bits(p.period) : std::string("?"))
                      << " vals=" << (p.form < 0 ? std::string("?") : p.vals)
                      << " inv=" << (p.ranHere ? std::to_string(*vp::parseNat(t[1])) + ":" + std::to_string(p.ranHere) : std::string("-"))
                      << "\n";
        }
        else if (op == "period" && t.size() == 2)
        {
            // the period the factory handed to the impl (structural read through the self-tested mirror): -1 for
            // the one-argument constructor, the clamped interval for timedPlannerTerminationCondition(d, i)
            auto a = names.find(t[1]);
            if (a == names.end()) { std::cout << "unknown\n"; continue; }
            std::cout << "period=" << (mirrorOk ? vp::bits(mirror(a->second)->period_) : std::string("?")) << "\n";
        }
        else if (op == "sync" && t.size() == 1)
        {
            // until a poller thread has read the script's current clock twice since now: its first such
            // reading has then been stored in the cache (program order: store, then the next call)
            if (!fake) { std::cout << "bad-op\n"; continue; }
            syncReads = 0;
            auto t0 = std::chrono::steady_clock::now();
            while (syncReads.load() < 2 && std::chrono::steady_clock::now() - t0 < std::chrono::seconds(10))
                std::this_thread::sleep_for(std::chrono::microseconds(200));
            std::cout << (syncReads.load() >= 2 ? "ok" : "timeout") << "\n";
        }
        else
            std::cout << "bad-op\n";
    }
    // the callback stored in pdef holds a CostConvergenceTerminationCondition copy whose pdef_ member
    // points back at pdef (a shared_ptr cycle in the library); break it so LeakSanitizer sees what
    // *else* leaks.  Recorded in notes/C18.md.
    pdef->setIntermediateSolutionCallback(ob::ReportIntermediateSolutionFn());
    for (auto &kv : leaves)
    {
        // a poller still blocked in a gate would make the impl's destructor wait for ever
        std::lock_guard<std::mutex> g(kv.second->m);
        kv.second->open = true;
        kv.second->cv.notify_all();
    }
    names.clear();
    itcs.clear();
    return 0;
}
