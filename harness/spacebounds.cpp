// C08 harness: bound enforcement and samplers of the real state spaces (libompl built from the current tree).
//
// header:  spacebounds seed=<n>        (RNG::setSeed(n) before any sampler exists -> deterministic draws)
//
//   enf <space> <state>
//       -> `sat=<b> sat2=<b> | <enforced state> | <twice enforced state>`            (lock-step with the model)
//   samp <u|n|g> <d|sub <k>> <n> <dist> <space> <centre>
//       n draws of sampleUniform / sampleUniformNear / sampleGaussian from allocDefaultStateSampler()
//       (or the SubspaceStateSampler of component k), satisfiesBounds of every output
//       -> `n=<n> bad=<k> moved=<outputs differing from the centre> first=<state|->`   (implementation only)
//   subs <u|n|g> <plen> <k>*plen <dist> <space> <state> <near> <scripted substate>
//       SubspaceStateSampler over the nested component at the path, with a SCRIPTED inner sampler installed on that
//       subspace (setStateSamplerAllocator): the inner sampler records the call it receives and writes the scripted substate
//       -> `out=<full state> | call=<U|N|G> d=<distance it was given> near=<substate it was given>`   (lock-step)
//   pre <u|n|g> <n> <dist> <space> <k> <state>*k <near>
//       PrecomputedStateSampler over k given (in-bounds) states: n calls of sampleUniform / sampleUniformNear(near, dist) /
//       sampleGaussian(near, dist); satisfiesBounds of every output
//       -> `n=<n> bad=<k> first=<state|->`                                            (implementation only)
//   det <so2|rv|se2> <halton|list|file> <n> <m> <value>*m <space>
//       SO2 / RealVector / SE2 DeterministicStateSampler over a HaltonSequence (first n points), over a scripted
//       DeterministicSequence returning the m given values cyclically, or over a PrecomputedSequence read from a file the
//       harness writes with those values (17 significant digits); n calls of sampleUniform
//       -> `<state> ; <state> ; …`                                                     (lock-step)
//   hn <int|real> <rmin> <rmax> <focus> <s0> <s1> <s2> <s3>
//       RNG::halfNormalInt / halfNormalReal on the Gaussian draw std::normal_distribution makes from the mt19937 state
//       x[0..3] = s0..s3 (index 0; a fresh distribution: no saved value)
//       -> `r=<int or double bits> g=<gaussian01 draw>`                                 (lock-step)
//   rewt <n|g> <n> <dist> <space_1> <space_2> <centre>
//       space_2 = space_1 with other subspace WEIGHTS: the sampler is allocated under the weights of space_1, then
//       setSubspaceWeight() is called for every component (nested compounds included); n draws from the OLD sampler and
//       n from a newly allocated one, satisfiesBounds of each
//       -> `n=<n> badOld=<k> badNew=<k> first=<state|->`                               (implementation only)
//   uint <h|s|c> <lo> <hi> <s0> <s1>
//       RNG::uniformInt(lo, hi) as coded, on an adversarial draw: the RNG's std::mt19937 is put into the state
//       (x[0] = s0, x[1] = s1, index 0), so the next uniform01() is a chosen value (e.g. nextafter(1, 0)).
//       h: the inline function of the header, compiled into this harness; s: DiscreteStateSampler::sampleUniform of a real
//       DiscreteStateSpace(lo, hi) (the copy compiled into libompl); c: the default sampler of the compound [R^1, discrete]
//       -> `r=<int> u=<the draw> nc=<…>` (nc is printed by the model only and ignored in the comparison)  (lock-step)
//   cmps <u|n|g> <dist> <compound space> <near>
//       decision logic of CompoundStateSampler (allocDefaultStateSampler of a plain compound / SE2 / SE3): a recording
//       sampler is installed on every DIRECT component; one sampleUniform / sampleUniformNear / sampleGaussian call
//       -> `calls=<U|N:<distance>|G:<sigma>>,…` (one entry per component, in order)                    (lock-step)
//   rawu <u|n|g> <recipe> <dist> <space> <centre>
//       one call of the default sampler of a single-sampler-object space (rv, so2, so3, time, disc, torus, klein, sphere)
//       together with the raw draws it consumed: the sampler's RNG is re-created from its local seed and queried in the
//       order given by the recipe (u = uniform01, g = gaussian01, c = pow(uniform01, 1/3))
//       -> `us=<u/c draws,…> gs=<g draws,…> | <state>`        (phase 1 of a two-phase lock-step with `rsamp` of the driver)
//   alias <n|g> <n> <dist> <space> <centre>
//       alias-safety probe: the default sampler is called with state == near (the SAME pointer), as
//       SubspaceStateSampler-like code and multilevel/GraphSampler.cpp (`sampleUniformNear(xRandom, xRandom, eps)`) do;
//       the state is reset to the (in-bounds) centre before every call; satisfiesBounds of every output
//       -> `n=<n> bad=<k> first=<state|->`                                            (implementation only)
//   rebound <u|n|g> <d|sub <k>|wrapcmp|vss|scoped> <n> <dist> <stages> (<space_i> <centre_i>)*stages
//       all space_i have the same structure and differ in their bounds only.  The space object is built from space_1
//       and the sampler object(s) are allocated ONCE, under the bounds of stage 1; for every later stage the bounds of
//       the SAME space object are changed (RealVector / Time / Discrete setBounds, also inside SE2/SE3, compounds,
//       wrappers) and n draws of the OLD sampler object are judged against the CURRENT bounds (satisfiesBounds now).
//       `vss`: a UniformValidStateSampler (all-valid checker) holding its inner sampler from stage 1; `scoped`:
//       ScopedState::random() (caches its sampler)
//       -> `stages=<k> n=<n> bad=<b_1,…,b_k> first=<stage>:<state>|-`                 (implementation only)
//   vs <uniform|gaussian|obstacle|bridge|maxclear|minclear> <s|n> <attempts> <improve> <clearance> <nd> <dim>
//      <ns> <sample>*ns <na> (<valid> <clearance>)*na
//       valid-state sampler over a SCRIPTED inner StateSampler and a scripted, recording StateValidityChecker
//       on R^dim (validSegmentCount overridden to nd)
//       -> `ret=<b> st=<x,…> ns=<sampler calls> na=<isValid calls> calls=<U|N|G…> log=<x,…:v;…>`   (lock-step)
//   vsa <name> <s|n> <via:d|p> <attempts> <improve> <clearance> <nd> <dim> <lo>*dim <hi>*dim <stddev|-> <dist> <near>*dim
//       <ns> <sample>*ns <na> (<valid> <clearance>)*na
//       as `vs`, on R^dim with the given bounds, recording the ARGUMENTS every inner-sampler call receives (near / mean
//       state, distance / sigma); `-` keeps the constructor's default stddev_; via = p: every setting goes through the
//       sampler's ParamSet (`nr_attempts`, `standard_deviation`, `nr_improve_attempts`, `min_obstacle_clearance`) instead of
//       the setters
//       -> `ret= st= ns= na= calls=<U|N:<near>@<distance>|G:<mean>@<sigma>>;… log=…`                       (lock-step)
//   svn <1|2> <name> <via> <attempts> <improve> <clearance> <nd> <alias:0|1> <dim> <lo>*dim <hi>*dim <stddev|-> <dist>
//       <near>*dim <ns> <sample>*ns <na> (<valid> <clearance>)*na
//       SpaceInformation::searchValidNearby(sampler, state, near, distance) [1] / (state, near, distance, attempts) [2] over the
//       same scripted pieces; `near` may be out of bounds; alias = 1: state and near are the SAME object
//       -> as `vsa`                                                                                        (lock-step)
//   csamp <u|n|g> <proj|atlas|tb> <sphere|torus|plane> <n> <k> <dist> <lo>*3 <hi>*3 <centre>*3
//       samplers of the CONSTRAINED spaces as further "wrapped sampler" kinds: ProjectedStateSampler (ProjectedStateSpace),
//       AtlasStateSampler (AtlasStateSpace, TangentBundleStateSpace) over the ambient box R^3 [lo, hi] and the unit sphere /
//       the torus (R = 2, r = 1) / the plane x + y + z = 1; the box may CUT the manifold.  `centre` is on the manifold and in
//       the box (near / mean state; anchor chart of the atlas).  n draws, satisfiesBounds (of the constrained space = of the
//       ambient box) of every output; for `proj` every constraint projection is recorded: `pout` = how often the projection
//       result was outside the box (the clamp had work to do), and for the first k draws the ambient sample the projection
//       received, its result and the returned state
//       -> `n=<n> bad=<b> pout=<c> onface=<outputs with a coordinate exactly on a bound> first=<state|-> trace=<in>/<proj>/<out>;…`
//   vreal <name> <s|n> <iters> <attempts> <permille valid> <clearance> <dist> <space> <centre>
//       valid-state sampler over the real default sampler and a pseudo-random validity predicate of the state
//       bits, recorded; -> `iters=<n> succ=<k> badBounds=<k> badLast=<k> nearLast=<k> badPred=<k> badClr=<k> first=<state|->`
//       (nearLast: the returned state itself was never checked but is equalStates() to one answered `true`)
// RandomNumbers.h is included first with `private` opened (this translation unit only; the class layout is unchanged), so
// that the `uint` op can put the std::mt19937 of an RNG into a chosen state and evaluate the REAL inline
// `uniformInt` / `uniformReal` / `uniDist_` on adversarial draws.  The standard headers it needs are included before.
#include <algorithm>
#include <array>
#include <cassert>
#include <cmath>
#include <cstdint>
#include <memory>
#include <mutex>
#include <random>
#include <sstream>
#include <string>
#include <vector>
#define private public
#include <ompl/util/RandomNumbers.h>
#undef private
#include "common/spaces.h"
#include <ompl/base/SpaceInformation.h>
#include <ompl/base/ScopedState.h>
#include <ompl/base/PrecomputedStateSampler.h>
#include <ompl/base/samplers/DeterministicStateSampler.h>
#include <ompl/base/samplers/deterministic/HaltonSequence.h>
#include <ompl/base/samplers/deterministic/PrecomputedSequence.h>
#include <fstream>
#include <iomanip>
#include <unistd.h>
#include <ompl/base/StateSampler.h>
#include <ompl/base/StateValidityChecker.h>
#include <ompl/base/DiscreteMotionValidator.h>
#include <ompl/base/samplers/UniformValidStateSampler.h>
#include <ompl/base/samplers/GaussianValidStateSampler.h>
#include <ompl/base/samplers/ObstacleBasedValidStateSampler.h>
#include <ompl/base/samplers/BridgeTestValidStateSampler.h>
#include <ompl/base/samplers/MaximizeClearanceValidStateSampler.h>
#include <ompl/base/samplers/MinimumClearanceValidStateSampler.h>
#include <ompl/base/Constraint.h>
#include <ompl/base/ConstrainedSpaceInformation.h>
#include <ompl/base/spaces/constraint/ProjectedStateSpace.h>
#include <ompl/base/spaces/constraint/AtlasStateSpace.h>
#include <ompl/base/spaces/constraint/TangentBundleStateSpace.h>
#include <ompl/util/RandomNumbers.h>
#include <ompl/util/Console.h>
#include <ompl/util/Exception.h>
#include <boost/math/constants/constants.hpp>
#include <cmath>
#include <map>
#include <memory>

namespace ob = ompl::base;

static std::string b01(bool b)
{
    return b ? "1" : "0";
}

// ---------------------------------------------------------------- manifolds of the `csamp` op; every projection is recorded
class Manifold : public ob::Constraint
{
public:
    explicit Manifold(int kind) : ob::Constraint(3, 1), kind_(kind)
    {
    }
    void function(const Eigen::Ref<const Eigen::VectorXd> &x, Eigen::Ref<Eigen::VectorXd> out) const override
    {
        if (kind_ == 0)
            out[0] = x.norm() - 1;
        else if (kind_ == 1)
        {
            const double q = std::sqrt(x[0] * x[0] + x[1] * x[1]);
            out[0] = std::sqrt((q - 2.0) * (q - 2.0) + x[2] * x[2]) - 1.0;
        }
        else
            out[0] = x[0] + x[1] + x[2] - 1.0;
    }
    void jacobian(const Eigen::Ref<const Eigen::VectorXd> &x, Eigen::Ref<Eigen::MatrixXd> out) const override
    {
        if (kind_ == 0)
            out = x.transpose().normalized();
        else if (kind_ == 1)
        {
            const double q = std::sqrt(x[0] * x[0] + x[1] * x[1]);
            const double d = std::sqrt((q - 2.0) * (q - 2.0) + x[2] * x[2]);
            out(0, 0) = (q - 2.0) / d * x[0] / q;
            out(0, 1) = (q - 2.0) / d * x[1] / q;
            out(0, 2) = x[2] / d;
        }
        else
            out(0, 0) = out(0, 1) = out(0, 2) = 1.0;
    }
    bool project(Eigen::Ref<Eigen::VectorXd> x) const override
    {
        std::array<double, 3> in{{x[0], x[1], x[2]}};
        bool ok = ob::Constraint::project(x);
        if (record)
        {
            ins.push_back(in);
            outs.push_back({{x[0], x[1], x[2]}});
        }
        return ok;
    }
    mutable bool record = false;
    mutable std::vector<std::array<double, 3>> ins, outs;

private:
    int kind_;
};

// ---------------------------------------------------------------- scripted pieces for `vs`
struct Script
{
    unsigned dim = 1;
    std::vector<std::vector<double>> samples;
    std::vector<std::pair<bool, double>> answers;
    size_t si = 0, ai = 0;
    std::string calls;
    std::string args;   // calls with their arguments: U | N:<near>@<distance> | G:<mean>@<sigma>, `;`-separated
    std::string log;
    bool shortScript = false;
};

static std::string vecBits(const double *v, unsigned n)
{
    std::string s;
    for (unsigned i = 0; i < n; ++i)
        s += (i ? "," : "") + vp::bits(v[i]);
    return s;
}

class ScriptedSampler : public ob::StateSampler
{
public:
    ScriptedSampler(const ob::StateSpace *sp, Script *sc) : ob::StateSampler(sp), sc_(sc)
    {
    }
    void next(ob::State *st, char kind)
    {
        sc_->calls += kind;
        auto *v = st->as<ob::RealVectorStateSpace::StateType>()->values;
        if (sc_->si < sc_->samples.size())
            for (unsigned i = 0; i < sc_->dim; ++i)
                v[i] = sc_->samples[sc_->si][i];
        else
        {
            sc_->shortScript = true;
            for (unsigned i = 0; i < sc_->dim; ++i)
                v[i] = 0.0;
        }
        ++sc_->si;
    }
    void arg(const std::string &a)
    {
        sc_->args += (sc_->args.empty() ? "" : ";") + a;
    }
    // the arguments are recorded BEFORE the output state is written (the output may alias the near / mean state)
    void sampleUniform(ob::State *st) override
    {
        arg("U");
        next(st, 'U');
    }
    void sampleUniformNear(ob::State *st, const ob::State *near, double d) override
    {
        arg("N:" + vecBits(near->as<ob::RealVectorStateSpace::StateType>()->values, sc_->dim) + "@" + vp::bits(d));
        next(st, 'N');
    }
    void sampleGaussian(ob::State *st, const ob::State *mean, double sd) override
    {
        arg("G:" + vecBits(mean->as<ob::RealVectorStateSpace::StateType>()->values, sc_->dim) + "@" + vp::bits(sd));
        next(st, 'G');
    }

private:
    Script *sc_;
};

class ScriptedChecker : public ob::StateValidityChecker
{
public:
    ScriptedChecker(const ob::SpaceInformationPtr &si, Script *sc) : ob::StateValidityChecker(si), sc_(sc)
    {
    }
    std::pair<bool, double> answer(const ob::State *st) const
    {
        std::pair<bool, double> a(false, 0.0);
        if (sc_->ai < sc_->answers.size())
            a = sc_->answers[sc_->ai];
        else
            sc_->shortScript = true;
        ++sc_->ai;
        if (!sc_->log.empty())
            sc_->log += ";";
        sc_->log += vecBits(st->as<ob::RealVectorStateSpace::StateType>()->values, sc_->dim) + ":" + b01(a.first);
        return a;
    }
    bool isValid(const ob::State *st) const override
    {
        return answer(st).first;
    }
    bool isValid(const ob::State *st, double &dist) const override
    {
        auto a = answer(st);
        dist = a.second;
        return a.first;
    }

private:
    Script *sc_;
};

class FixedSegRn : public ob::RealVectorStateSpace
{
public:
    FixedSegRn(unsigned dim, unsigned nd) : ob::RealVectorStateSpace(dim), nd_(nd)
    {
    }
    unsigned int validSegmentCount(const ob::State *, const ob::State *) const override
    {
        return nd_;
    }

private:
    unsigned nd_;
};

static std::string dec17(double x)
{
    std::ostringstream os;
    os.imbue(std::locale::classic());
    os << std::setprecision(17) << x;
    return os.str();
}

// the same settings through the sampler's ParamSet (what a planner configured from a parameter file does)
static ob::ValidStateSamplerPtr makeVssParams(const std::string &name, const ob::SpaceInformation *si, unsigned attempts,
                                              unsigned improve, double clr, double stddev)
{
    ob::ValidStateSamplerPtr v;
    if (name == "uniform")
        v = std::make_shared<ob::UniformValidStateSampler>(si);
    else if (name == "gaussian")
        v = std::make_shared<ob::GaussianValidStateSampler>(si);
    else if (name == "obstacle")
        v = std::make_shared<ob::ObstacleBasedValidStateSampler>(si);
    else if (name == "bridge")
        v = std::make_shared<ob::BridgeTestValidStateSampler>(si);
    else if (name == "maxclear")
        v = std::make_shared<ob::MaximizeClearanceValidStateSampler>(si);
    else if (name == "minclear")
        v = std::make_shared<ob::MinimumClearanceValidStateSampler>(si);
    else
        throw vp::ParseError("sampler " + name);
    bool ok = true;
    if ((name == "gaussian" || name == "bridge") && stddev >= 0)
        ok = v->params().setParam("standard_deviation", dec17(stddev)) && ok;
    if (name == "maxclear")
        ok = v->params().setParam("nr_improve_attempts", std::to_string(improve)) && ok;
    if (name == "minclear")
        ok = v->params().setParam("min_obstacle_clearance", dec17(clr)) && ok;
    ok = v->params().setParam("nr_attempts", std::to_string(attempts)) && ok;
    if (!ok)
        throw ompl::Exception("ParamSet refused a valid-state sampler parameter");
    return v;
}

static ob::ValidStateSamplerPtr makeVss(const std::string &name, const ob::SpaceInformation *si, unsigned attempts,
                                        unsigned improve, double clr, double stddev)
{
    ob::ValidStateSamplerPtr v;
    if (name == "uniform")
        v = std::make_shared<ob::UniformValidStateSampler>(si);
    else if (name == "gaussian")
    {
        auto g = std::make_shared<ob::GaussianValidStateSampler>(si);
        if (stddev >= 0)
            g->setStdDev(stddev);
        v = g;
    }
    else if (name == "obstacle")
        v = std::make_shared<ob::ObstacleBasedValidStateSampler>(si);
    else if (name == "bridge")
    {
        auto g = std::make_shared<ob::BridgeTestValidStateSampler>(si);
        if (stddev >= 0)
            g->setStdDev(stddev);
        v = g;
    }
    else if (name == "maxclear")
    {
        auto m = std::make_shared<ob::MaximizeClearanceValidStateSampler>(si);
        m->setNrImproveAttempts(improve);
        v = m;
    }
    else if (name == "minclear")
    {
        auto m = std::make_shared<ob::MinimumClearanceValidStateSampler>(si);
        m->setMinimumObstacleClearance(clr);
        v = m;
    }
    else
        throw vp::ParseError("sampler " + name);
    v->setNrAttempts(attempts);
    return v;
}

// ---------------------------------------------------------------- pseudo-random recorded predicate for `vreal`
static uint64_t mix(uint64_t z)
{
    z += 0x9E3779B97F4A7C15ULL;
    z = (z ^ (z >> 30)) * 0xBF58476D1CE4E5B9ULL;
    z = (z ^ (z >> 27)) * 0x94D049BB133111EBULL;
    return z ^ (z >> 31);
}

class HashChecker : public ob::StateValidityChecker
{
public:
    HashChecker(const ob::SpaceInformationPtr &si, ob::StateSpacePtr sp, unsigned permille)
      : ob::StateValidityChecker(si), sp_(std::move(sp)), permille_(permille)
    {
    }
    uint64_t hash(const ob::State *st) const
    {
        std::string k = vp::showState(sp_, st);
        uint64_t h = 1469598103934665603ULL;
        for (char c : k)
            h = mix(h ^ (uint64_t)(unsigned char)c);
        return h;
    }
    bool pred(const ob::State *st) const
    {
        return hash(st) % 1000 < permille_;
    }
    double clr(const ob::State *st) const
    {
        return (double)(mix(hash(st)) % 2001) / 1000.0 - 0.5;  // in [-0.5, 1.5]
    }
    bool isValid(const ob::State *st) const override
    {
        bool v = pred(st);
        last[vp::showState(sp_, st)] = v;
        if (v)
        {
            ob::State *c = sp_->allocState();
            sp_->copyState(c, st);
            validOnes.push_back(c);
        }
        return v;
    }
    void clearRecord() const
    {
        last.clear();
        for (auto *c : validOnes)
            sp_->freeState(c);
        validOnes.clear();
    }
    // some state answered `true` during this call is equalStates() to st (but not bit-identical)
    bool nearValidated(const ob::State *st) const
    {
        for (auto *c : validOnes)
            if (sp_->equalStates(c, st))
                return true;
        return false;
    }
    ~HashChecker() override
    {
        clearRecord();
    }
    mutable std::vector<ob::State *> validOnes;
    bool isValid(const ob::State *st, double &dist) const override
    {
        dist = clr(st);
        return isValid(st);
    }
    double clearance(const ob::State *st) const override
    {
        return clr(st);
    }
    mutable std::map<std::string, bool> last;

private:
    ob::StateSpacePtr sp_;
    unsigned permille_;
};

// access to the protected StateSampler::rng_ (pointer-to-member through a derived class; nothing is instantiated)
struct PeekRng : public ob::StateSampler
{
    static ompl::RNG &of(ob::StateSampler &s)
    {
        return s.*(&PeekRng::rng_);
    }
};

// inner sampler of the `subs` op: records the call, writes the scripted substate
struct SubScript
{
    ob::StateSpacePtr sub;
    std::vector<std::string> toks;   // the scripted substate
    std::string call = "-", dist = "-", near = "-";
};

class RecordingInner : public ob::StateSampler
{
public:
    RecordingInner(const ob::StateSpace *sp, SubScript *sc) : ob::StateSampler(sp), sc_(sc)
    {
    }
    void write(ob::State *st)
    {
        size_t i = 0;
        vp::parseStateInto(space_, st, sc_->toks, i);
    }
    void sampleUniform(ob::State *st) override
    {
        sc_->call = "U";
        write(st);
    }
    void sampleUniformNear(ob::State *st, const ob::State *near, double d) override
    {
        sc_->call = "N";
        sc_->dist = vp::bits(d);
        sc_->near = vp::showState(sc_->sub, near);
        write(st);
    }
    void sampleGaussian(ob::State *st, const ob::State *mean, double d) override
    {
        sc_->call = "G";
        sc_->dist = vp::bits(d);
        sc_->near = vp::showState(sc_->sub, mean);
        write(st);
    }

private:
    SubScript *sc_;
};

// StateSpace.cpp's computeLocationsHelper does `if (s->isCompound()) s->as<CompoundStateSpace>()->getSubspaceCount()`;
// WrapperStateSpace::isCompound() forwards to the wrapped space, so for a wrapper around a compound space this static_casts
// a WrapperStateSpace to CompoundStateSpace (type confusion, undefined behaviour).  The harness never builds location tables
// for such a space (observed while building the SubspaceStateSampler lock-step; reported in notes/C08.md).
static bool hasWrappedCompound(const ob::StateSpace *s)
{
    if (auto *w = dynamic_cast<const ob::WrapperStateSpace *>(s))
        return w->getSpace()->isCompound() || hasWrappedCompound(w->getSpace().get());
    if (auto *c = dynamic_cast<const ob::CompoundStateSpace *>(s))
        for (unsigned j = 0; j < c->getSubspaceCount(); ++j)
            if (hasWrappedCompound(c->getSubspace(j).get()))
                return true;
    return false;
}

static void safeComputeLocations(const ob::StateSpacePtr &sp)
{
    // /repo fd9a6cce3 made computeLocations() safe for a wrapper around a compound space, but the 4-argument copyStateData()
    // that SubspaceStateSampler::sampleUniformNear / sampleGaussian use (StateSpace.cpp, `sourceS->isCompound()` then
    // `as<CompoundStateSpace>()`) still casts such a wrapper component: no subspace samplers over these spaces
    sp->computeLocations();
}

static void setMtState(std::mt19937 &g, unsigned long s0, unsigned long s1, unsigned long s2 = 0, unsigned long s3 = 0)
{
    std::stringstream ss;
    ss << s0 << ' ' << s1 << ' ' << s2 << ' ' << s3;
    for (int k = 4; k < 624; ++k)
        ss << " 0";
    ss << " 0";   // index: the next two outputs are temper(s0), temper(s1), no twist
    ss >> g;
}

struct PeekCompoundSamplers : public ob::CompoundStateSampler
{
    static std::vector<ob::StateSamplerPtr> &of(ob::CompoundStateSampler &s)
    {
        return s.*(&PeekCompoundSamplers::samplers_);
    }
};

// scripted DeterministicSequence of the `det` op
class ListSequence : public ob::DeterministicSequence
{
public:
    ListSequence(unsigned dim, std::vector<double> v) : ob::DeterministicSequence(dim), v_(std::move(v))
    {
    }
    std::vector<double> sample() override
    {
        std::vector<double> out;
        for (unsigned j = 0; j < dimensions_; ++j)
            out.push_back(v_[(k_++) % v_.size()]);
        return out;
    }

private:
    std::vector<double> v_;
    size_t k_ = 0;
};

static void applyWeights(ob::StateSpace *dst, const ob::StateSpace *src)
{
    if (auto *w = dynamic_cast<ob::WrapperStateSpace *>(dst))
    {
        auto *ws = dynamic_cast<const ob::WrapperStateSpace *>(src);
        if (!ws)
            throw vp::ParseError("structure");
        applyWeights(w->getSpace().get(), ws->getSpace().get());
        return;
    }
    auto *c = dynamic_cast<ob::CompoundStateSpace *>(dst);
    auto *cs = dynamic_cast<const ob::CompoundStateSpace *>(src);
    if (!c && !cs)
        return;
    if (!c || !cs || c->getSubspaceCount() != cs->getSubspaceCount())
        throw vp::ParseError("structure");
    for (unsigned j = 0; j < c->getSubspaceCount(); ++j)
    {
        if (!c->isLocked() || true)
            c->setSubspaceWeight(j, cs->getSubspaceWeight(j));
        applyWeights(c->getSubspace(j).get(), cs->getSubspace(j).get());
    }
}

// per-component recorder of the `cmps` op (leaves the component state as it is)
class RecordingComponent : public ob::StateSampler
{
public:
    RecordingComponent(const ob::StateSpace *sp, std::string *out) : ob::StateSampler(sp), out_(out)
    {
    }
    void sampleUniform(ob::State *) override
    {
        *out_ = "U";
    }
    void sampleUniformNear(ob::State *, const ob::State *, double d) override
    {
        *out_ = "N:" + vp::bits(d);
    }
    void sampleGaussian(ob::State *, const ob::State *, double d) override
    {
        *out_ = "G:" + vp::bits(d);
    }

private:
    std::string *out_;
};

// copy the bound settings of `src` (a freshly parsed space of the same structure) onto the live space `dst`
static void applyBounds(ob::StateSpace *dst, const ob::StateSpace *src)
{
    if (auto *w = dynamic_cast<ob::WrapperStateSpace *>(dst))
    {
        auto *ws = dynamic_cast<const ob::WrapperStateSpace *>(src);
        if (!ws)
            throw vp::ParseError("structure");
        applyBounds(w->getSpace().get(), ws->getSpace().get());
        return;
    }
    if (auto *c = dynamic_cast<ob::CompoundStateSpace *>(dst))
    {
        auto *cs = dynamic_cast<const ob::CompoundStateSpace *>(src);
        if (!cs || cs->getSubspaceCount() != c->getSubspaceCount())
            throw vp::ParseError("structure");
        for (unsigned j = 0; j < c->getSubspaceCount(); ++j)
            applyBounds(c->getSubspace(j).get(), cs->getSubspace(j).get());
        return;
    }
    if (auto *r = dynamic_cast<ob::RealVectorStateSpace *>(dst))
    {
        auto *rs = dynamic_cast<const ob::RealVectorStateSpace *>(src);
        if (!rs || rs->getDimension() != r->getDimension())
            throw vp::ParseError("structure");
        const ob::RealVectorBounds &b = rs->getBounds();
        bool ok = true;
        for (unsigned j = 0; j < r->getDimension(); ++j)
            if (!(b.low[j] < b.high[j]))
                ok = false;
        if (ok)
            r->setBounds(b);
        else
            const_cast<ob::RealVectorBounds &>(r->getBounds()) = b;   // degenerate: as parseSpace does
        return;
    }
    if (auto *t = dynamic_cast<ob::TimeStateSpace *>(dst))
    {
        auto *ts = dynamic_cast<const ob::TimeStateSpace *>(src);
        if (!ts || ts->isBounded() != t->isBounded())
            throw vp::ParseError("structure");
        if (ts->isBounded())
            t->setBounds(ts->getMinTimeBound(), ts->getMaxTimeBound());
        return;
    }
    if (auto *d = dynamic_cast<ob::DiscreteStateSpace *>(dst))
    {
        auto *ds = dynamic_cast<const ob::DiscreteStateSpace *>(src);
        if (!ds)
            throw vp::ParseError("structure");
        d->setBounds(ds->getLowerBound(), ds->getUpperBound());
        return;
    }
    if ((dynamic_cast<ob::SO2StateSpace *>(dst) && dynamic_cast<const ob::SO2StateSpace *>(src)) ||
        (dynamic_cast<ob::SO3StateSpace *>(dst) && dynamic_cast<const ob::SO3StateSpace *>(src)))
        return;
    throw vp::ParseError("structure");
}

int main()
{
    ompl::msg::setLogLevel(ompl::msg::LOG_NONE);
    std::string line;
    if (!vp::readLine(line))
        return 2;
    auto hdr = vp::tokens(line);
    if (hdr.empty() || hdr[0] != "spacebounds")
    {
        std::cout << "bad-header\n";
        return 2;
    }
    for (auto &h : hdr)
        if (h.rfind("seed=", 0) == 0)
        {
            auto s = vp::parseNat(h.substr(5));
            if (s)
                ompl::RNG::setSeed((std::uint_fast32_t)(*s % 4000000000ULL + 1));
        }

    while (vp::readLine(line))
    {
        auto t = vp::tokens(line);
        if (t.empty())
            continue;
        try
        {
            const std::string &op = t[0];
            size_t i = 1;
            if (op == "enf")
            {
                auto sp = vp::parseSpace(t, i);
                ob::State *st = sp->allocState();
                vp::parseStateInto(sp.get(), st, t, i);
                if (i != t.size())
                {
                    sp->freeState(st);
                    throw vp::ParseError("trailing");
                }
                bool sat = sp->satisfiesBounds(st);
                sp->enforceBounds(st);
                bool sat2 = sp->satisfiesBounds(st);
                std::string e1 = vp::showState(sp, st);
                sp->enforceBounds(st);
                std::string e2 = vp::showState(sp, st);
                sp->freeState(st);
                std::cout << "sat=" << b01(sat) << " sat2=" << b01(sat2) << " | " << e1 << " | " << e2 << "\n";
            }
            else if (op == "samp")
            {
                if (t.size() < 4)
                    throw vp::ParseError("samp");
                std::string kind = t[i++];
                std::string which = t[i++];
                long sub = -1;
                if (which == "sub")
                    sub = (long)vp::needN(t, i);
                else if (which != "d")
                    throw vp::ParseError("which");
                unsigned long n = vp::needN(t, i);
                double dist = vp::needF(t, i);
                auto sp = vp::parseSpace(t, i);
                ob::State *centre = sp->allocState();
                ob::State *st = sp->allocState();
                vp::parseStateInto(sp.get(), centre, t, i);
                if (i != t.size() || (kind != "u" && kind != "n" && kind != "g"))
                {
                    sp->freeState(st);
                    sp->freeState(centre);
                    throw vp::ParseError("trailing");
                }
                ob::StateSamplerPtr sampler;
                if (sub < 0)
                    sampler = sp->allocDefaultStateSampler();
                else
                {
                    auto *c = dynamic_cast<ob::CompoundStateSpace *>(sp.get());
                    if (!c || (unsigned long)sub >= c->getSubspaceCount())
                    {
                        sp->freeState(st);
                        sp->freeState(centre);
                        throw vp::ParseError("sub");
                    }
                    // the part of `st` outside the subspace keeps this (in-bounds) content
                    sp->copyState(st, centre);
                    // SubspaceStateSampler copies by substate NAME (copyStateData): without the location tables
                    // (normally built by setup(); setup() itself refuses zero-extent spaces) it would write nothing
                    safeComputeLocations(sp);
                    sampler = sp->allocSubspaceStateSampler(c->getSubspace((unsigned)sub));
                }
                unsigned long bad = 0, moved = 0;
                std::string first = "-";
                const std::string centreTxt = vp::showState(sp, centre);
                for (unsigned long k = 0; k < n; ++k)
                {
                    if (kind == "u")
                        sampler->sampleUniform(st);
                    else if (kind == "n")
                        sampler->sampleUniformNear(st, centre, dist);
                    else
                        sampler->sampleGaussian(st, centre, dist);
                    if (vp::showState(sp, st) != centreTxt)
                        ++moved;
                    if (!sp->satisfiesBounds(st))
                    {
                        if (bad == 0)
                            first = vp::showState(sp, st);
                        ++bad;
                    }
                }
                sp->freeState(st);
                sp->freeState(centre);
                std::cout << "n=" << n << " bad=" << bad << " moved=" << moved << " first=" << first << "\n";
            }
            else if (op == "subs")
            {
                if (t.size() < 5)
                    throw vp::ParseError("subs");
                std::string kind = t[i++];
                if (kind != "u" && kind != "n" && kind != "g")
                    throw vp::ParseError("kind");
                unsigned long plen = vp::needN(t, i);
                std::vector<unsigned long> path;
                for (unsigned long k = 0; k < plen; ++k)
                    path.push_back(vp::needN(t, i));
                double dist = vp::needF(t, i);
                auto sp = vp::parseSpace(t, i);
                // the subspace at the path: through plain compounds only (as the model)
                ob::StateSpacePtr sub = sp;
                // a TOP-LEVEL wrapper is transparent: its location tables are those of the wrapped space (/repo 33dd7dfa9)
                if (!path.empty())
                    while (auto *w = dynamic_cast<ob::WrapperStateSpace *>(sub.get()))
                        sub = w->getSpace();
                for (unsigned long k : path)
                {
                    auto *c = dynamic_cast<ob::CompoundStateSpace *>(sub.get());
                    if (!c || dynamic_cast<ob::TorusStateSpace *>(c) || dynamic_cast<ob::MobiusStateSpace *>(c) ||
                        dynamic_cast<ob::KleinBottleStateSpace *>(c) || dynamic_cast<ob::SphereStateSpace *>(c) ||
                        k >= c->getSubspaceCount())
                        throw vp::ParseError("path");
                    sub = c->getSubspace((unsigned)k);
                }
                if (dynamic_cast<ob::WrapperStateSpace *>(sub.get()))
                    throw vp::ParseError("wrapper subspace: no common substate names, sampling has no effect");
                ob::State *st = sp->allocState();
                ob::State *near = sp->allocState();
                SubScript sc;
                sc.sub = sub;
                try
                {
                    vp::parseStateInto(sp.get(), st, t, i);
                    vp::parseStateInto(sp.get(), near, t, i);
                    // the scripted substate: exactly the remaining tokens, checked by a trial parse
                    sc.toks.assign(t.begin() + i, t.end());
                    ob::State *probe = sub->allocState();
                    size_t j = 0;
                    try
                    {
                        vp::parseStateInto(sub.get(), probe, sc.toks, j);
                    }
                    catch (...)
                    {
                        sub->freeState(probe);
                        throw;
                    }
                    sub->freeState(probe);
                    if (j != sc.toks.size())
                        throw vp::ParseError("trailing");
                }
                catch (...)
                {
                    sp->freeState(st);
                    sp->freeState(near);
                    throw;
                }
                SubScript *scp = &sc;
                sub->setStateSamplerAllocator([scp](const ob::StateSpace *s)
                                              { return std::make_shared<RecordingInner>(s, scp); });
                // (a wrapper's computeLocations() fills the wrapped space's tables, which is what its wrapped
                // SubspaceStateSampler uses since /repo 1448c6a2f)
                sp->computeLocations();
                {
                    auto sampler = sp->allocSubspaceStateSampler(sub);
                    if (kind == "u")
                        sampler->sampleUniform(st);
                    else if (kind == "n")
                        sampler->sampleUniformNear(st, near, dist);
                    else
                        sampler->sampleGaussian(st, near, dist);
                }
                std::cout << "out=" << vp::showState(sp, st) << " | call=" << sc.call << " d=" << sc.dist
                          << " near=" << sc.near << "\n";
                sub->clearStateSamplerAllocator();
                sp->freeState(st);
                sp->freeState(near);
            }
            else if (op == "pre")
            {
                if (t.size() < 6)
                    throw vp::ParseError("pre");
                std::string kind = t[i++];
                if (kind != "u" && kind != "n" && kind != "g")
                    throw vp::ParseError("kind");
                unsigned long n = vp::needN(t, i);
                double dist = vp::needF(t, i);
                auto sp = vp::parseSpace(t, i);
                unsigned long k = vp::needN(t, i);
                if (k < 1)
                    throw vp::ParseError("k");
                std::vector<ob::State *> own;
                struct Free
                {
                    ob::StateSpacePtr sp;
                    std::vector<ob::State *> &v;
                    ~Free()
                    {
                        for (auto *x : v)
                            sp->freeState(x);
                    }
                } freer{sp, own};
                for (unsigned long j = 0; j < k + 2; ++j)
                    own.push_back(sp->allocState());
                for (unsigned long j = 0; j < k + 1; ++j)
                    vp::parseStateInto(sp.get(), own[j], t, i);   // k states, then near
                if (i != t.size())
                    throw vp::ParseError("trailing");
                std::vector<const ob::State *> states(own.begin(), own.begin() + k);
                ob::State *near = own[k], *st = own[k + 1];
                ob::PrecomputedStateSampler sampler(sp.get(), states);
                unsigned long bad = 0;
                std::string first = "-";
                for (unsigned long q = 0; q < n; ++q)
                {
                    sp->copyState(st, near);
                    if (kind == "u")
                        sampler.sampleUniform(st);
                    else if (kind == "n")
                        sampler.sampleUniformNear(st, near, dist);
                    else
                        sampler.sampleGaussian(st, near, dist);
                    if (!sp->satisfiesBounds(st))
                    {
                        if (bad == 0)
                            first = vp::showState(sp, st);
                        ++bad;
                    }
                }
                std::cout << "n=" << n << " bad=" << bad << " first=" << first << "\n";
            }
            else if (op == "det")
            {
                if (t.size() < 6)
                    throw vp::ParseError("det");
                std::string which = t[i++];
                std::string seq = t[i++];
                if ((which != "so2" && which != "rv" && which != "se2") || (seq != "halton" && seq != "list" && seq != "file"))
                    throw vp::ParseError("det args");
                unsigned long n = vp::needN(t, i);
                unsigned long m = vp::needN(t, i);
                std::vector<double> vals;
                for (unsigned long j = 0; j < m; ++j)
                    vals.push_back(vp::needF(t, i));
                auto sp = vp::parseSpace(t, i);
                if (i != t.size() || (seq != "halton" && m < 1))
                    throw vp::ParseError("trailing");
                unsigned dim = sp->getDimension();
                if ((which == "so2" && !dynamic_cast<ob::SO2StateSpace *>(sp.get())) ||
                    (which == "rv" && !dynamic_cast<ob::RealVectorStateSpace *>(sp.get())) ||
                    (which == "se2" && !dynamic_cast<ob::SE2StateSpace *>(sp.get())) || dim < 1)
                    throw vp::ParseError("det space");
                std::shared_ptr<ob::DeterministicSequence> sq;
                std::string path;
                if (seq == "halton")
                    sq = std::make_shared<ob::HaltonSequence>(dim);
                else if (seq == "list")
                    sq = std::make_shared<ListSequence>(dim, vals);
                else
                {
                    if (m % dim != 0)
                        throw vp::ParseError("file needs whole rows");
                    path = "/tmp/verif_c08_seq_" + std::to_string((long)getpid()) + ".txt";
                    std::ofstream f(path);
                    f << std::setprecision(17);
                    for (unsigned long j = 0; j < m; ++j)
                        f << vals[j] << ((j + 1) % dim == 0 ? "\n" : " ");
                    f.close();
                    sq = std::make_shared<ob::PrecomputedSequence>(path, dim);
                    std::remove(path.c_str());
                }
                std::shared_ptr<ob::StateSampler> sampler;
                if (which == "so2")
                    sampler = std::make_shared<ob::SO2DeterministicStateSampler>(sp.get(), sq);
                else if (which == "rv")
                    sampler = std::make_shared<ob::RealVectorDeterministicStateSampler>(sp.get(), sq);
                else
                    sampler = std::make_shared<ob::SE2DeterministicStateSampler>(sp.get(), sq);
                ob::State *st = sp->allocState();
                std::string out;
                for (unsigned long q = 0; q < n; ++q)
                {
                    sampler->sampleUniform(st);
                    out += (q ? " ; " : "") + vp::showState(sp, st);
                }
                sp->freeState(st);
                std::cout << out << "\n";
            }
            else if (op == "hn")
            {
                if (t.size() != 9)
                    throw vp::ParseError("hn");
                std::string kind = t[i++];
                long long lo = vp::needI(t, i), hi = vp::needI(t, i);
                double focus = vp::needF(t, i);
                unsigned long long w[4];
                for (auto &x : w)
                {
                    x = vp::needN(t, i);
                    if (x >= 4294967296ULL)
                        throw vp::ParseError("word");
                }
                if ((kind != "int" && kind != "real") || lo < -2147483648LL || hi > 2147483647LL || hi < lo)
                    throw vp::ParseError("hn args");
                ompl::RNG rng(12345);
                setMtState(rng.generator_, w[0], w[1], w[2], w[3]);
                ompl::RNG copy(12345);
                setMtState(copy.generator_, w[0], w[1], w[2], w[3]);
                double g = copy.gaussian01();
                if (kind == "int")
                    std::cout << "r=" << rng.halfNormalInt((int)lo, (int)hi, focus) << " g=" << vp::bits(g) << "\n";
                else
                    std::cout << "r=" << vp::bits(rng.halfNormalReal((double)lo, (double)hi, focus)) << " g=" << vp::bits(g)
                              << "\n";
            }
            else if (op == "rewt")
            {
                if (t.size() < 6)
                    throw vp::ParseError("rewt");
                std::string kind = t[i++];
                if (kind != "n" && kind != "g")
                    throw vp::ParseError("kind");
                unsigned long n = vp::needN(t, i);
                double dist = vp::needF(t, i);
                auto sp = vp::parseSpace(t, i);
                auto sp2 = vp::parseSpace(t, i);
                ob::State *centre = sp->allocState();
                ob::State *st = sp->allocState();
                try
                {
                    vp::parseStateInto(sp.get(), centre, t, i);
                    if (i != t.size())
                        throw vp::ParseError("trailing");
                    auto oldSampler = sp->allocDefaultStateSampler();
                    applyWeights(sp.get(), sp2.get());
                    auto newSampler = sp->allocDefaultStateSampler();
                    unsigned long badOld = 0, badNew = 0;
                    std::string first = "-";
                    for (unsigned long q = 0; q < 2 * n; ++q)
                    {
                        auto &sm = q < n ? oldSampler : newSampler;
                        if (kind == "n")
                            sm->sampleUniformNear(st, centre, dist);
                        else
                            sm->sampleGaussian(st, centre, dist);
                        if (!sp->satisfiesBounds(st))
                        {
                            if (first == "-")
                                first = vp::showState(sp, st);
                            ++(q < n ? badOld : badNew);
                        }
                    }
                    std::cout << "n=" << n << " badOld=" << badOld << " badNew=" << badNew << " first=" << first << "\n";
                }
                catch (...)
                {
                    sp->freeState(st);
                    sp->freeState(centre);
                    throw;
                }
                sp->freeState(st);
                sp->freeState(centre);
            }
            else if (op == "uint")
            {
                if (t.size() != 6)
                    throw vp::ParseError("uint");
                std::string mode = t[i++];
                long long lo = vp::needI(t, i), hi = vp::needI(t, i);
                unsigned long long s0 = vp::needN(t, i), s1 = vp::needN(t, i);
                if ((mode != "h" && mode != "s" && mode != "c") || s0 >= 4294967296ULL || s1 >= 4294967296ULL ||
                    lo < -2147483648LL || hi > 2147483647LL || hi < lo)
                    throw vp::ParseError("uint args");
                int r = 0;
                double u = 0.0;
                if (mode == "h")
                {
                    ompl::RNG rng(12345);
                    setMtState(rng.generator_, s0, s1);
                    ompl::RNG copy(rng);
                    u = copy.uniform01();
                    r = rng.uniformInt((int)lo, (int)hi);
                }
                else
                {
                    ob::StateSpacePtr sp;
                    auto disc = std::make_shared<ob::DiscreteStateSpace>((int)lo, (int)hi);
                    if (mode == "s")
                        sp = disc;
                    else
                    {
                        auto c = std::make_shared<ob::CompoundStateSpace>();
                        auto rv = std::make_shared<ob::RealVectorStateSpace>(1);
                        rv->setBounds(-1.0, 1.0);
                        c->addSubspace(rv, 1.0);
                        c->addSubspace(disc, 1.0);
                        c->lock();
                        sp = c;
                    }
                    auto sampler = sp->allocDefaultStateSampler();
                    ob::StateSampler *ds = sampler.get();
                    if (mode == "c")
                        ds = PeekCompoundSamplers::of(*static_cast<ob::CompoundStateSampler *>(sampler.get()))[1].get();
                    ompl::RNG &rng = PeekRng::of(*ds);
                    setMtState(rng.generator_, s0, s1);
                    ompl::RNG copy(rng);
                    u = copy.uniform01();
                    ob::State *st = sp->allocState();
                    sampler->sampleUniform(st);
                    const ob::State *dst = mode == "s" ? st : st->as<ob::CompoundState>()->components[1];
                    r = dst->as<ob::DiscreteStateSpace::StateType>()->value;
                    // the oracle of the property itself, on the real state
                    if (sp->satisfiesBounds(st) != (r >= lo && r <= hi))
                        r = -777777777;   // cannot happen; would show as a disagreement
                    sp->freeState(st);
                }
                std::cout << "r=" << r << " u=" << vp::bits(u) << "\n";
            }
            else if (op == "cmps")
            {
                if (t.size() < 4)
                    throw vp::ParseError("cmps");
                std::string kind = t[i++];
                if (kind != "u" && kind != "n" && kind != "g")
                    throw vp::ParseError("kind");
                double dist = vp::needF(t, i);
                auto sp = vp::parseSpace(t, i);
                auto *c = dynamic_cast<ob::CompoundStateSpace *>(sp.get());
                if (!c || dynamic_cast<ob::TorusStateSpace *>(c) || dynamic_cast<ob::MobiusStateSpace *>(c) ||
                    dynamic_cast<ob::KleinBottleStateSpace *>(c) || dynamic_cast<ob::SphereStateSpace *>(c))
                    throw vp::ParseError("cmps needs a plain compound");
                ob::State *near = sp->allocState();
                ob::State *st = sp->allocState();
                try
                {
                    vp::parseStateInto(sp.get(), near, t, i);
                    if (i != t.size())
                        throw vp::ParseError("trailing");
                }
                catch (...)
                {
                    sp->freeState(st);
                    sp->freeState(near);
                    throw;
                }
                sp->copyState(st, near);
                std::vector<std::string> rec(c->getSubspaceCount(), "-");
                for (unsigned j = 0; j < c->getSubspaceCount(); ++j)
                {
                    std::string *slot = &rec[j];
                    c->getSubspace(j)->setStateSamplerAllocator(
                        [slot](const ob::StateSpace *s) { return std::make_shared<RecordingComponent>(s, slot); });
                }
                {
                    auto sampler = sp->allocDefaultStateSampler();
                    if (kind == "u")
                        sampler->sampleUniform(st);
                    else if (kind == "n")
                        sampler->sampleUniformNear(st, near, dist);
                    else
                        sampler->sampleGaussian(st, near, dist);
                }
                std::string out = "calls=";
                for (unsigned j = 0; j < rec.size(); ++j)
                    out += (j ? "," : "") + rec[j];
                std::cout << out << "\n";
                sp->freeState(st);
                sp->freeState(near);
            }
            else if (op == "rawu")
            {
                if (t.size() < 5)
                    throw vp::ParseError("rawu");
                std::string kind = t[i++];
                std::string recipe = t[i++];
                if (kind != "u" && kind != "n" && kind != "g")
                    throw vp::ParseError("kind");
                for (char c : recipe)
                    if (c != 'u' && c != 'g' && c != 'c')
                        throw vp::ParseError("recipe");
                double dist = vp::needF(t, i);
                auto sp = vp::parseSpace(t, i);
                if (dynamic_cast<ob::WrapperStateSpace *>(sp.get()) ||
                    (dynamic_cast<ob::CompoundStateSpace *>(sp.get()) && !dynamic_cast<ob::TorusStateSpace *>(sp.get()) &&
                     !dynamic_cast<ob::KleinBottleStateSpace *>(sp.get()) && !dynamic_cast<ob::SphereStateSpace *>(sp.get())))
                    throw vp::ParseError("rawu needs a single-sampler-object space");
                ob::State *centre = sp->allocState();
                ob::State *st = sp->allocState();
                try
                {
                    vp::parseStateInto(sp.get(), centre, t, i);
                    if (i != t.size())
                        throw vp::ParseError("trailing");
                }
                catch (...)
                {
                    sp->freeState(st);
                    sp->freeState(centre);
                    throw;
                }
                auto sampler = sp->allocDefaultStateSampler();
                ompl::RNG copy(PeekRng::of(*sampler).getLocalSeed());
                std::string us, gs;
                for (char c : recipe)
                {
                    if (c == 'g')
                        gs += (gs.empty() ? "" : ",") + vp::bits(copy.gaussian01());
                    else
                    {
                        double u = copy.uniform01();
                        if (c == 'c')
                            u = pow(u, boost::math::constants::third<double>());
                        us += (us.empty() ? "" : ",") + vp::bits(u);
                    }
                }
                sp->copyState(st, centre);
                if (kind == "u")
                    sampler->sampleUniform(st);
                else if (kind == "n")
                    sampler->sampleUniformNear(st, centre, dist);
                else
                    sampler->sampleGaussian(st, centre, dist);
                std::cout << "us=" << (us.empty() ? "-" : us) << " gs=" << (gs.empty() ? "-" : gs) << " | "
                          << vp::showState(sp, st) << "\n";
                sp->freeState(st);
                sp->freeState(centre);
            }
            else if (op == "alias")
            {
                if (t.size() < 5)
                    throw vp::ParseError("alias");
                std::string kind = t[i++];
                if (kind != "n" && kind != "g")
                    throw vp::ParseError("kind");
                unsigned long n = vp::needN(t, i);
                double dist = vp::needF(t, i);
                auto sp = vp::parseSpace(t, i);
                ob::State *centre = sp->allocState();
                ob::State *st = sp->allocState();
                try
                {
                    vp::parseStateInto(sp.get(), centre, t, i);
                    if (i != t.size())
                        throw vp::ParseError("trailing");
                }
                catch (...)
                {
                    sp->freeState(st);
                    sp->freeState(centre);
                    throw;
                }
                auto sampler = sp->allocDefaultStateSampler();
                unsigned long bad = 0;
                std::string first = "-";
                for (unsigned long k = 0; k < n; ++k)
                {
                    sp->copyState(st, centre);
                    if (kind == "n")
                        sampler->sampleUniformNear(st, st, dist);
                    else
                        sampler->sampleGaussian(st, st, dist);
                    if (!sp->satisfiesBounds(st))
                    {
                        if (bad == 0)
                            first = vp::showState(sp, st);
                        ++bad;
                    }
                }
                sp->freeState(st);
                sp->freeState(centre);
                std::cout << "n=" << n << " bad=" << bad << " first=" << first << "\n";
            }
            else if (op == "rebound")
            {
                if (t.size() < 7)
                    throw vp::ParseError("rebound");
                std::string kind = t[i++];
                std::string which = t[i++];
                long sub = -1;
                if (which == "sub")
                    sub = (long)vp::needN(t, i);
                else if (which != "d" && which != "vss" && which != "scoped" && which != "wrapcmp")
                    throw vp::ParseError("which");
                if (kind != "u" && kind != "n" && kind != "g")
                    throw vp::ParseError("kind");
                unsigned long n = vp::needN(t, i);
                double dist = vp::needF(t, i);
                unsigned long stages = vp::needN(t, i);
                if (stages < 1)
                    throw vp::ParseError("stages");
                // parse everything first (a malformed line must not leave half-run output)
                std::vector<ob::StateSpacePtr> sps;
                std::vector<ob::State *> centres;
                struct Cleanup
                {
                    std::vector<ob::StateSpacePtr> &sps;
                    std::vector<ob::State *> &centres;
                    ~Cleanup()
                    {
                        for (size_t k = 0; k < centres.size(); ++k)
                            sps[k]->freeState(centres[k]);
                    }
                } cleanup{sps, centres};
                const size_t sp1Start = i;
                for (unsigned long k = 0; k < stages; ++k)
                {
                    auto spk = vp::parseSpace(t, i);
                    sps.push_back(spk);
                    ob::State *c = spk->allocState();
                    centres.push_back(c);
                    vp::parseStateInto(spk.get(), c, t, i);
                }
                if (i != t.size())
                    throw vp::ParseError("trailing");
                {
                    // structure check on a throw-away copy of stage 1, before anything runs
                    size_t j = sp1Start;
                    auto probe = vp::parseSpace(t, j);
                    for (unsigned long k = 1; k < stages; ++k)
                        applyBounds(probe.get(), sps[k].get());
                }
                // the live space object: built from stage 1, its bounds are changed in place afterwards
                ob::StateSpacePtr sp;
                {
                    size_t j = sp1Start;
                    sp = vp::parseSpace(t, j);
                }
                ob::StateSamplerPtr sampler;
                ob::SpaceInformationPtr si;
                ob::ValidStateSamplerPtr vss;
                std::unique_ptr<ob::ScopedState<>> scoped;
                ob::State *st = sp->allocState();
                if (which == "d")
                    sampler = sp->allocDefaultStateSampler();
                else if (which == "wrapcmp")
                    sampler = sp->allocStateSampler();
                else if (which == "sub")
                {
                    auto *c = dynamic_cast<ob::CompoundStateSpace *>(sp.get());
                    if (!c || (unsigned long)sub >= c->getSubspaceCount())
                    {
                        sp->freeState(st);
                        throw vp::ParseError("sub");
                    }
                    safeComputeLocations(sp);   // SubspaceStateSampler copies by substate name (see `samp`)
                    sampler = sp->allocSubspaceStateSampler(c->getSubspace((unsigned)sub));
                }
                else if (which == "vss")
                {
                    si = std::make_shared<ob::SpaceInformation>(sp);
                    si->setStateValidityChecker(std::make_shared<ob::AllValidStateValidityChecker>(si));
                    try
                    {
                        si->setup();
                    }
                    catch (...)
                    {
                        sp->freeState(st);
                        throw;
                    }
                    vss = std::make_shared<ob::UniformValidStateSampler>(si.get());
                }
                else
                    scoped = std::make_unique<ob::ScopedState<>>(sp);
                std::string bads, first = "-";
                for (unsigned long k = 0; k < stages; ++k)
                {
                    if (k > 0)
                        applyBounds(sp.get(), sps[k].get());
                    // the centre of this stage, as a state of the live space
                    ob::State *centre = sp->allocState();
                    {
                        std::string txt = vp::showState(sps[k], centres[k]);
                        auto ct = vp::tokens(txt);
                        size_t ci = 0;
                        vp::parseStateInto(sp.get(), centre, ct, ci);
                    }
                    sp->copyState(st, centre);   // (subspace samplers: the rest of the state is in the current bounds)
                    unsigned long bad = 0;
                    for (unsigned long q = 0; q < n; ++q)
                    {
                        const ob::State *out = st;
                        if (scoped)
                        {
                            scoped->random();
                            out = scoped->get();
                        }
                        else if (vss)
                        {
                            if (kind == "u")
                                vss->sample(st);
                            else
                                vss->sampleNear(st, centre, dist);
                        }
                        else if (kind == "u")
                            sampler->sampleUniform(st);
                        else if (kind == "n")
                            sampler->sampleUniformNear(st, centre, dist);
                        else
                            sampler->sampleGaussian(st, centre, dist);
                        if (!sp->satisfiesBounds(out))
                        {
                            if (first == "-")
                                first = std::to_string(k + 1) + ":" + vp::showState(sp, out);
                            ++bad;
                        }
                    }
                    sp->freeState(centre);
                    bads += (k ? "," : "") + std::to_string(bad);
                }
                sp->freeState(st);
                std::cout << "stages=" << stages << " n=" << n << " bad=" << bads << " first=" << first << "\n";
            }
            else if (op == "vs")
            {
                if (t.size() < 9)
                    throw vp::ParseError("vs");
                std::string name = t[i++];
                std::string mode = t[i++];
                if (mode != "s" && mode != "n")
                    throw vp::ParseError("mode");
                unsigned attempts = (unsigned)vp::needN(t, i);
                unsigned improve = (unsigned)vp::needN(t, i);
                double clr = vp::needF(t, i);
                unsigned nd = (unsigned)vp::needN(t, i);
                unsigned dim = (unsigned)vp::needN(t, i);
                Script sc;
                sc.dim = dim;
                unsigned long ns = vp::needN(t, i);
                for (unsigned long k = 0; k < ns; ++k)
                {
                    std::vector<double> x(dim);
                    for (unsigned j = 0; j < dim; ++j)
                        x[j] = vp::needF(t, i);
                    sc.samples.push_back(x);
                }
                unsigned long na = vp::needN(t, i);
                for (unsigned long k = 0; k < na; ++k)
                {
                    unsigned long v = vp::needN(t, i);
                    if (v > 1)
                        throw vp::ParseError("valid flag");
                    double c = vp::needF(t, i);
                    sc.answers.emplace_back(v == 1, c);
                }
                if (i != t.size() || nd < 1)
                    throw vp::ParseError("trailing");
                if (name != "uniform" && name != "gaussian" && name != "obstacle" && name != "bridge" &&
                    name != "maxclear" && name != "minclear")
                    throw vp::ParseError("sampler");
                auto sp = std::make_shared<FixedSegRn>(dim, nd);
                ob::RealVectorBounds b(dim);
                b.setLow(-1e6);
                b.setHigh(1e6);
                sp->setBounds(b);
                Script *scp = &sc;
                sp->setStateSamplerAllocator([scp](const ob::StateSpace *s)
                                             { return std::make_shared<ScriptedSampler>(s, scp); });
                auto si = std::make_shared<ob::SpaceInformation>(sp);
                si->setStateValidityChecker(std::make_shared<ScriptedChecker>(si, scp));
                si->setMotionValidator(std::make_shared<ob::DiscreteMotionValidator>(si));
                si->setup();
                std::string res;
                {
                    auto vss = makeVss(name, si.get(), attempts, improve, clr, -1.0);
                    ob::State *st = si->allocState();
                    ob::State *near = si->allocState();
                    for (unsigned j = 0; j < dim; ++j)
                    {
                        st->as<ob::RealVectorStateSpace::StateType>()->values[j] = 0.0;
                        near->as<ob::RealVectorStateSpace::StateType>()->values[j] = 0.0;
                    }
                    sc.si = sc.ai = 0;
                    sc.calls.clear();
                    sc.log.clear();
                    sc.shortScript = false;
                    bool ret = mode == "s" ? vss->sample(st) : vss->sampleNear(st, near, 1.0);
                    if (sc.shortScript)
                        res = "short";
                    else
                        res = "ret=" + b01(ret) + " st=" +
                              vecBits(st->as<ob::RealVectorStateSpace::StateType>()->values, dim) +
                              " ns=" + std::to_string(sc.si) + " na=" + std::to_string(sc.ai) + " calls=" + sc.calls +
                              " log=" + sc.log;
                    si->freeState(st);
                    si->freeState(near);
                }
                std::cout << res << "\n";
            }
            else if (op == "vsa" || op == "svn")
            {
                bool svn = op == "svn";
                if (t.size() < 12)
                    throw vp::ParseError(op);
                unsigned long overload = 0;
                if (svn)
                {
                    overload = vp::needN(t, i);
                    if (overload != 1 && overload != 2)
                        throw vp::ParseError("overload");
                }
                std::string name = t[i++];
                std::string mode = "n";
                if (!svn)
                {
                    mode = t[i++];
                    if (mode != "s" && mode != "n")
                        throw vp::ParseError("mode");
                }
                std::string via = t[i++];
                if (via != "d" && via != "p")
                    throw vp::ParseError("via");
                unsigned attempts = (unsigned)vp::needN(t, i);
                unsigned improve = (unsigned)vp::needN(t, i);
                double clr = vp::needF(t, i);
                unsigned nd = (unsigned)vp::needN(t, i);
                unsigned long alias = 0;
                if (svn)
                {
                    alias = vp::needN(t, i);
                    if (alias > 1)
                        throw vp::ParseError("alias");
                }
                unsigned dim = (unsigned)vp::needN(t, i);
                if (dim < 1 || dim > 64)
                    throw vp::ParseError("dim");
                std::vector<double> lo(dim), hi(dim), nearv(dim);
                for (unsigned j = 0; j < dim; ++j)
                    lo[j] = vp::needF(t, i);
                for (unsigned j = 0; j < dim; ++j)
                    hi[j] = vp::needF(t, i);
                double stddev = -1.0;
                if (i < t.size() && t[i] == "-")
                    ++i;
                else
                    stddev = vp::needF(t, i);
                double dist = vp::needF(t, i);
                for (unsigned j = 0; j < dim; ++j)
                    nearv[j] = vp::needF(t, i);
                Script sc;
                sc.dim = dim;
                unsigned long ns = vp::needN(t, i);
                for (unsigned long k = 0; k < ns; ++k)
                {
                    std::vector<double> x(dim);
                    for (unsigned j = 0; j < dim; ++j)
                        x[j] = vp::needF(t, i);
                    sc.samples.push_back(x);
                }
                unsigned long na = vp::needN(t, i);
                for (unsigned long k = 0; k < na; ++k)
                {
                    unsigned long v = vp::needN(t, i);
                    if (v > 1)
                        throw vp::ParseError("valid flag");
                    double c = vp::needF(t, i);
                    sc.answers.emplace_back(v == 1, c);
                }
                if (i != t.size() || nd < 1)
                    throw vp::ParseError("trailing");
                if (name != "uniform" && name != "gaussian" && name != "obstacle" && name != "bridge" &&
                    name != "maxclear" && name != "minclear")
                    throw vp::ParseError("sampler");
                if (svn && overload == 2 && name != "uniform")
                    throw vp::ParseError("sampler");
                auto sp = std::make_shared<FixedSegRn>(dim, nd);
                ob::RealVectorBounds b(dim);
                for (unsigned j = 0; j < dim; ++j)
                {
                    b.setLow(j, lo[j]);
                    b.setHigh(j, hi[j]);
                }
                sp->setBounds(b);
                Script *scp = &sc;
                sp->setStateSamplerAllocator([scp](const ob::StateSpace *s)
                                             { return std::make_shared<ScriptedSampler>(s, scp); });
                auto si = std::make_shared<ob::SpaceInformation>(sp);
                si->setStateValidityChecker(std::make_shared<ScriptedChecker>(si, scp));
                si->setMotionValidator(std::make_shared<ob::DiscreteMotionValidator>(si));
                si->setup();
                std::string res;
                {
                    ob::ValidStateSamplerPtr vss;
                    if (!(svn && overload == 2))
                        vss = via == "p" ? makeVssParams(name, si.get(), attempts, improve, clr, stddev)
                                         : makeVss(name, si.get(), attempts, improve, clr, stddev);
                    ob::State *near = si->allocState();
                    ob::State *st = (svn && alias == 1) ? near : si->allocState();
                    for (unsigned j = 0; j < dim; ++j)
                    {
                        // `state` starts as something no script contains, so a sampler that returns without writing shows
                        st->as<ob::RealVectorStateSpace::StateType>()->values[j] = -12345.678;
                        near->as<ob::RealVectorStateSpace::StateType>()->values[j] = nearv[j];
                    }
                    sc.si = sc.ai = 0;
                    sc.calls.clear();
                    sc.args.clear();
                    sc.log.clear();
                    sc.shortScript = false;
                    bool ret;
                    if (!svn)
                        ret = mode == "s" ? vss->sample(st) : vss->sampleNear(st, near, dist);
                    else if (overload == 1)
                        ret = si->searchValidNearby(vss, st, near, dist);
                    else
                        ret = si->searchValidNearby(st, near, dist, attempts);
                    if (sc.shortScript)
                        res = "short";
                    else
                        res = "ret=" + b01(ret) + " st=" +
                              vecBits(st->as<ob::RealVectorStateSpace::StateType>()->values, dim) +
                              " ns=" + std::to_string(sc.si) + " na=" + std::to_string(sc.ai) + " calls=" + sc.args +
                              " log=" + sc.log;
                    if (st != near)
                        si->freeState(st);
                    si->freeState(near);
                }
                std::cout << res << "\n";
            }
            else if (op == "csamp")
            {
                if (t.size() != 16)
                    throw vp::ParseError("csamp");
                std::string kind = t[i++];
                std::string which = t[i++];
                std::string man = t[i++];
                if ((kind != "u" && kind != "n" && kind != "g") || (which != "proj" && which != "atlas" && which != "tb") ||
                    (man != "sphere" && man != "torus" && man != "plane"))
                    throw vp::ParseError("csamp");
                unsigned long n = vp::needN(t, i);
                unsigned long k = vp::needN(t, i);
                double dist = vp::needF(t, i);
                double lo[3], hi[3], cen[3];
                for (double &v : lo)
                    v = vp::needF(t, i);
                for (double &v : hi)
                    v = vp::needF(t, i);
                for (double &v : cen)
                    v = vp::needF(t, i);
                auto ambient = std::make_shared<ob::RealVectorStateSpace>(3);
                ob::RealVectorBounds b(3);
                for (unsigned j = 0; j < 3; ++j)
                {
                    b.setLow(j, lo[j]);
                    b.setHigh(j, hi[j]);
                }
                ambient->setBounds(b);
                auto con = std::make_shared<Manifold>(man == "sphere" ? 0 : man == "torus" ? 1 : 2);
                ob::StateSpacePtr css;
                std::shared_ptr<ob::AtlasStateSpace> atlas;
                if (which == "proj")
                    css = std::make_shared<ob::ProjectedStateSpace>(ambient, con);
                else if (which == "atlas")
                    css = atlas = std::make_shared<ob::AtlasStateSpace>(ambient, con);
                else
                    css = atlas = std::make_shared<ob::TangentBundleStateSpace>(ambient, con);
                auto csi = std::make_shared<ob::ConstrainedSpaceInformation>(css);
                csi->setStateValidityChecker(std::make_shared<ob::AllValidStateValidityChecker>(csi));
                css->setup();
                csi->setup();
                ob::State *centre = css->allocState();
                ob::State *st = css->allocState();
                auto vec = [](ob::State *x) -> double * { return x->as<ob::ConstrainedStateSpace::StateType>()->data(); };
                for (unsigned j = 0; j < 3; ++j)
                    vec(centre)[j] = cen[j];
                if (atlas)
                    atlas->anchorChart(centre);
                auto show = [](const double *v) { return vecBits(v, 3); };
                unsigned long bad = 0, pout = 0, onface = 0;
                std::string first = "-", trace;
                {
                    auto sampler = css->allocStateSampler();
                    con->record = which == "proj";
                    for (unsigned long q = 0; q < n; ++q)
                    {
                        size_t before = con->outs.size();
                        if (kind == "u")
                            sampler->sampleUniform(st);
                        else if (kind == "n")
                            sampler->sampleUniformNear(st, centre, dist);
                        else
                            sampler->sampleGaussian(st, centre, dist);
                        double out[3] = {vec(st)[0], vec(st)[1], vec(st)[2]};
                        if (!css->satisfiesBounds(st))
                        {
                            ++bad;
                            if (first == "-")
                                first = show(out);
                        }
                        bool face = false;
                        for (unsigned j = 0; j < 3; ++j)
                            face = face || out[j] == lo[j] || out[j] == hi[j];
                        onface += face ? 1 : 0;
                        if (con->record && con->outs.size() == before + 1)
                        {
                            const auto &po = con->outs.back();
                            bool outside = false;
                            for (unsigned j = 0; j < 3; ++j)
                                outside = outside || po[j] > hi[j] || po[j] < lo[j];
                            pout += outside ? 1 : 0;
                            if (q < k)
                                trace += (trace.empty() ? "" : ";") + show(con->ins.back().data()) + "/" + show(po.data()) +
                                         "/" + show(out);
                        }
                        else if (con->record && q < k)
                            trace += (trace.empty() ? "" : ";") + std::string("?") + std::to_string(con->outs.size() - before);
                        if (con->outs.size() > 64)
                        {
                            con->ins.clear();
                            con->outs.clear();
                        }
                    }
                    con->record = false;
                }
                css->freeState(st);
                css->freeState(centre);
                std::cout << "n=" << n << " bad=" << bad << " pout=" << pout << " onface=" << onface << " first=" << first
                          << " trace=" << trace << "\n";
            }
            else if (op == "vreal")
            {
                if (t.size() < 9)
                    throw vp::ParseError("vreal");
                std::string name = t[i++];
                std::string mode = t[i++];
                if (mode != "s" && mode != "n")
                    throw vp::ParseError("mode");
                unsigned long iters = vp::needN(t, i);
                unsigned attempts = (unsigned)vp::needN(t, i);
                unsigned permille = (unsigned)vp::needN(t, i);
                double clr = vp::needF(t, i);
                double dist = vp::needF(t, i);
                auto sp = vp::parseSpace(t, i);
                auto si = std::make_shared<ob::SpaceInformation>(sp);
                auto chk = std::make_shared<HashChecker>(si, sp, permille);
                si->setStateValidityChecker(chk);
                si->setup();
                ob::State *centre = si->allocState();
                ob::State *st = si->allocState();
                vp::parseStateInto(sp.get(), centre, t, i);
                if (i != t.size())
                {
                    si->freeState(st);
                    si->freeState(centre);
                    throw vp::ParseError("trailing");
                }
                unsigned long succ = 0, badBounds = 0, badLast = 0, badPred = 0, badClr = 0, nearLast = 0;
                std::string first = "-";
                {
                    auto vss = makeVss(name, si.get(), attempts, 3, clr, dist);
                    for (unsigned long k = 0; k < iters; ++k)
                    {
                        si->copyState(st, centre);
                        chk->clearRecord();
                        bool ret = mode == "s" ? vss->sample(st) : vss->sampleNear(st, centre, dist);
                        if (!ret)
                            continue;
                        ++succ;
                        bool bad = false;
                        if (!sp->satisfiesBounds(st))
                        {
                            ++badBounds;
                            bad = true;
                        }
                        auto it = chk->last.find(vp::showState(sp, st));
                        if (it == chk->last.end() && chk->nearValidated(st))
                        {
                            // never checked itself, but equalStates() to a state that was answered `true`
                            ++nearLast;
                            bad = true;
                        }
                        else
                        {
                            if (it == chk->last.end() || !it->second)
                            {
                                ++badLast;
                                bad = true;
                            }
                            if (!chk->pred(st))
                            {
                                ++badPred;
                                bad = true;
                            }
                        }
                        if (name == "minclear" && chk->clr(st) < clr)
                        {
                            ++badClr;
                            bad = true;
                        }
                        if (bad && first == "-")
                            first = vp::showState(sp, st);
                    }
                }
                si->freeState(st);
                si->freeState(centre);
                std::cout << "iters=" << iters << " succ=" << succ << " badBounds=" << badBounds
                          << " badLast=" << badLast << " nearLast=" << nearLast << " badPred=" << badPred << " badClr=" << badClr
                          << " first=" << first << "\n";
            }
            else
                std::cout << "bad-op\n";
        }
        catch (const vp::ParseError &)
        {
            std::cout << "bad-op\n";
        }
        catch (const ompl::Exception &e)
        {
            // e.g. SpaceInformation::setup() refuses a space of zero extent ("longest valid segment must be positive")
            std::cout << "skip ompl-exception\n";
        }
    }
    return 0;
}
