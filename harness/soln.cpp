// C04 harness: drives the real ompl::base::ProblemDefinition / PlannerSolution / OptimizationObjective
// family / PathGeometric / optimizing planners from /repo through the line protocol.
//
// Header `soln obj=<min|max>`  (parts A and B; min = PathLengthOptimizationObjective, max =
//                               MaximizeMinClearanceObjective as the objective solutions carry)
//   add <approx> <f:diff> <hasopt> <f:cost> <opt> <f:len>   -> ok n=<k>       (real addSolutionPath)
//   list -> n=<k> <rec>*k (getSolutions order)    top -> <rec>|none (getSolution)     clear -> ok
//   flags -> approx= opt= diff= exact= n=          (hasApproximateSolution, hasOptimizedSolution,
//                                                   getSolutionDifference, hasExactSolution, getSolutionCount)
//   chk <k> <rec>*k -> inv=none | inv=i,j          (real operator< on reconstructed PlannerSolutions)
//   cmp <rec> <rec> -> lt= gt=                     sat <f:thr> <f:cost> -> sat=   (setCostThreshold + isSatisfied)
//   path <kind> <field> <f:w> <dim> <f:lo> <f:hi> <f:frac> <factor> <npts> <f>*  -> cost=<f> len=<f>
//                                                  (real PathGeometric::cost(objective) / length())
// Header `solnrun`  (part C)
//   run <planner> <obj> <field> <thr: def|inf|<f>> <env> <dim> <seed> <evals> <solves> <goalthr f> [<history: 0|1|[cpksoOrRd]*> [<cfg>]]
//        history letters (one per continued solve): c continue, p clearSolutionPaths, k planner->clear(), s clear()+clearSolutionPaths,
//           o = new ProblemDefinition with ANOTHER objective on the same planner (setProblemDefinition + setup, no clear: the
//           multi-query use of the roadmap planners), O = clear() first, r / R = the same with the REVERSED query (start <-> goal),
//           d = the planner is re-created from its own PlannerData (PRM / PRMstar / LazyPRM / LazyPRMstar constructors)
//        cfg: `-` or name=value[,name=value]* applied through planner->params().setParam before setProblemDefinition
//   params <planner> -> one line `params <planner> name=default|rangeSuggestion ...` (planner->params())
//        -> `run` header line, then one `snap` line per change of the solution set (printed from inside
//           the termination condition), one `solve` line per solve, `clear` lines when clear=1
//           (pdef->clearSolutionPaths() before every continued solve), `end`; each line: the problem
//           definition's flags, getSolutions order, and for new solutions stored cost, recomputed cost,
//           spelled-out fold, length, heuristic bound, straight line, ...
//        env 0-4: obstacle layouts, start 0.1^d, goal 0.9^d; env 5: goal sealed inside walls (only
//           approximate solutions possible); env 6: two goal states, the worse one listed first, the better
//           one behind a wall with a narrow window; env 7: two goal states (worse first) around blocks
// rec = idx:approx:diff:hasopt:cost:opt:len   (doubles as u64 bit patterns)
#include "common/proto.h"

#include <atomic>
#include <cmath>
#include <limits>
#include <map>
#include <memory>
#include <mutex>

#include "ompl/base/ProblemDefinition.h"
#include "ompl/base/SpaceInformation.h"
#include "ompl/base/OptimizationObjective.h"
#include "ompl/base/PlannerTerminationCondition.h"
#include "ompl/base/goals/GoalState.h"
#include "ompl/base/goals/GoalStates.h"
#include "ompl/base/spaces/RealVectorStateSpace.h"
#include "ompl/base/spaces/TimeStateSpace.h"
#include "ompl/base/objectives/PathLengthOptimizationObjective.h"
#include "ompl/base/objectives/StateCostIntegralObjective.h"
#include "ompl/base/objectives/MinimaxObjective.h"
#include "ompl/base/objectives/MaximizeMinClearanceObjective.h"
#include "ompl/base/objectives/MechanicalWorkOptimizationObjective.h"
#include "ompl/base/objectives/MinimizeArrivalTime.h"
#include "ompl/geometric/PathGeometric.h"
#include "ompl/geometric/planners/rrt/RRTstar.h"
#include "ompl/geometric/planners/rrt/InformedRRTstar.h"
#include "ompl/geometric/planners/rrt/SORRTstar.h"
#include "ompl/geometric/planners/rrt/RRTsharp.h"
#include "ompl/geometric/planners/rrt/RRTXstatic.h"
#include "ompl/geometric/planners/rrt/LBTRRT.h"
#include "ompl/geometric/planners/rrt/LazyLBTRRT.h"
#include "ompl/geometric/planners/rrt/TRRT.h"
#include "ompl/geometric/planners/rrt/BiTRRT.h"
#include "ompl/geometric/planners/rrt/LazyRRT.h"
#include "ompl/geometric/planners/prm/PRM.h"
#include "ompl/geometric/planners/prm/LazyPRM.h"
#include "ompl/geometric/planners/prm/SPARS.h"
#include "ompl/geometric/planners/prm/SPARStwo.h"
#include "ompl/multilevel/planners/qrrt/QRRTStar.h"
#include "ompl/multilevel/planners/qmp/QMPStar.h"
#include "ompl/base/spaces/DubinsStateSpace.h"
#include "ompl/base/spaces/SE2StateSpace.h"
#include "ompl/geometric/planners/informedtrees/BITstar.h"
#include "ompl/geometric/planners/informedtrees/ABITstar.h"
#include "ompl/geometric/planners/informedtrees/AITstar.h"
#include "ompl/geometric/planners/informedtrees/EITstar.h"
#include "ompl/geometric/planners/informedtrees/EIRMstar.h"
#include "ompl/geometric/planners/prm/PRMstar.h"
#include "ompl/geometric/planners/prm/LazyPRMstar.h"
#include "ompl/geometric/planners/fmt/FMT.h"
#include "ompl/geometric/planners/fmt/BFMT.h"
#include "ompl/geometric/planners/sst/SST.h"
#include "ompl/geometric/planners/cforest/CForest.h"
#include "ompl/geometric/planners/AnytimePathShortening.h"
#include "ompl/util/Console.h"
#include "ompl/util/Exception.h"
#include "ompl/util/RandomNumbers.h"

namespace ob = ompl::base;
namespace og = ompl::geometric;

// ------------------------------------------------------------------------------------------ part A
struct FakePath : ob::Path
{
    double len;
    FakePath(const ob::SpaceInformationPtr &si, double l) : ob::Path(si), len(l) {}
    double length() const override { return len; }
    ob::Cost cost(const ob::OptimizationObjectivePtr &) const override { return ob::Cost(len); }
    bool check() const override { return true; }
    void print(std::ostream &) const override {}
};

static std::string recOf(const ob::PlannerSolution &s)
{
    return std::to_string(s.index_) + ":" + (s.approximate_ ? "1" : "0") + ":" + vp::bits(s.difference_) + ":" +
           (s.opt_ ? "1" : "0") + ":" + vp::bits(s.cost_.value()) + ":" + (s.optimized_ ? "1" : "0") + ":" +
           vp::bits(s.length_);
}

static std::vector<std::string> splitColon(const std::string &s)
{
    std::vector<std::string> out;
    std::string cur;
    for (char c : s)
        if (c == ':')
        {
            out.push_back(cur);
            cur.clear();
        }
        else
            cur += c;
    out.push_back(cur);
    return out;
}

static std::optional<bool> parseBit(const std::string &s)
{
    if (s == "0")
        return false;
    if (s == "1")
        return true;
    return std::nullopt;
}

// PlannerSolution through the public interface: constructor (reads path->length()), setApproximate,
// setOptimized; index_ is a public field.
static std::optional<ob::PlannerSolution> mkSol(const ob::SpaceInformationPtr &si, const ob::OptimizationObjectivePtr &obj,
                                                bool approx, double diff, bool hasopt, double cost, bool opt, double len)
{
    ob::PlannerSolution s(std::make_shared<FakePath>(si, len));
    if (approx)
        s.setApproximate(diff);
    s.setOptimized(hasopt ? obj : ob::OptimizationObjectivePtr(), ob::Cost(cost), opt);
    return s;
}

static std::optional<ob::PlannerSolution> parseRec(const ob::SpaceInformationPtr &si, const ob::OptimizationObjectivePtr &obj,
                                                   const std::string &r)
{
    auto f = splitColon(r);
    if (f.size() != 7)
        return std::nullopt;
    auto i = vp::parseInt(f[0]);
    auto a = parseBit(f[1]);
    auto d = vp::parseBits(f[2]);
    auto h = parseBit(f[3]);
    auto c = vp::parseBits(f[4]);
    auto o = parseBit(f[5]);
    auto l = vp::parseBits(f[6]);
    if (!i || !a || !d || !h || !c || !o || !l)
        return std::nullopt;
    auto s = mkSol(si, obj, *a, *d, *h, *c, *o, *l);
    s->difference_ = *d;  // a record read back from a list may carry any difference
    s->index_ = (int)*i;
    return s;
}

// ------------------------------------------------------------------------------------------ part B
static double fieldCost(unsigned k, const double *v, unsigned dim)
{
    if (k == 0)
        return 1.0;
    if (k == 1)
    {
        double x = dim ? v[0] : 0.0;
        return 1.0 + x * x;
    }
    double y = dim ? v[dim - 1] : 0.0;
    return 0.5 + (y < 0.0 ? 0.0 - y : y);
}

struct FieldOf
{
    unsigned field, dim;
    double operator()(const ob::State *s) const
    {
        return fieldCost(field, s->as<ob::RealVectorStateSpace::StateType>()->values, dim);
    }
};

struct FieldSCI : ob::StateCostIntegralObjective
{
    FieldOf f;
    FieldSCI(const ob::SpaceInformationPtr &si, bool interp, FieldOf f) : ob::StateCostIntegralObjective(si, interp), f(f) {}
    ob::Cost stateCost(const ob::State *s) const override { return ob::Cost(f(s)); }
};
struct FieldLenIT : ob::PathLengthOptimizationObjective
{
    FieldOf f;
    FieldLenIT(const ob::SpaceInformationPtr &si, FieldOf f) : ob::PathLengthOptimizationObjective(si), f(f) {}
    ob::Cost initialCost(const ob::State *s) const override { return ob::Cost(f(s)); }
    ob::Cost terminalCost(const ob::State *s) const override { return ob::Cost(f(s)); }
};
struct FieldMinimax : ob::MinimaxObjective
{
    FieldOf f;
    FieldMinimax(const ob::SpaceInformationPtr &si, FieldOf f) : ob::MinimaxObjective(si), f(f) {}
    ob::Cost stateCost(const ob::State *s) const override { return ob::Cost(f(s)); }
};
struct FieldWork : ob::MechanicalWorkOptimizationObjective
{
    FieldOf f;
    FieldWork(const ob::SpaceInformationPtr &si, double w, FieldOf f) : ob::MechanicalWorkOptimizationObjective(si, w), f(f) {}
    ob::Cost stateCost(const ob::State *s) const override { return ob::Cost(f(s)); }
};

// validity: inside the bounds and outside every box; clearance: for part B the cost field, for
// part C the distance to the nearest obstacle box.
struct Box
{
    std::vector<double> lo, hi;
};
struct Checker : ob::StateValidityChecker
{
    unsigned dim;
    std::vector<Box> boxes;
    int field;  // >= 0: clearance() is the cost field
    Checker(const ob::SpaceInformationPtr &si, unsigned dim, std::vector<Box> b, int field)
      : ob::StateValidityChecker(si), dim(dim), boxes(std::move(b)), field(field)
    {
    }
    bool isValid(const ob::State *s) const override
    {
        const double *v = s->as<ob::RealVectorStateSpace::StateType>()->values;
        for (auto &b : boxes)
        {
            bool in = true;
            for (unsigned i = 0; i < dim; ++i)
                if (v[i] < b.lo[i] || v[i] > b.hi[i])
                    in = false;
            if (in)
                return false;
        }
        return true;
    }
    double clearance(const ob::State *s) const override
    {
        const double *v = s->as<ob::RealVectorStateSpace::StateType>()->values;
        if (field >= 0)
            return fieldCost((unsigned)field, v, dim);
        double best = 10.0;
        for (auto &b : boxes)
        {
            double d2 = 0.0;
            for (unsigned i = 0; i < dim; ++i)
            {
                double d = std::max(std::max(b.lo[i] - v[i], v[i] - b.hi[i]), 0.0);
                d2 += d * d;
            }
            best = std::min(best, std::sqrt(d2));
        }
        return best;
    }
};

static ob::OptimizationObjectivePtr makeObjective(const std::string &kind, const ob::SpaceInformationPtr &si, unsigned field,
                                                  double w, unsigned dim)
{
    FieldOf f{field, dim};
    if (kind == "len")
        return std::make_shared<ob::PathLengthOptimizationObjective>(si);
    if (kind == "lenit")
        return std::make_shared<FieldLenIT>(si, f);
    if (kind == "sci")
        return std::make_shared<FieldSCI>(si, false, f);
    if (kind == "scii")
        return std::make_shared<FieldSCI>(si, true, f);
    if (kind == "minimax")
        return std::make_shared<FieldMinimax>(si, f);
    if (kind == "clear")
        return std::make_shared<ob::MaximizeMinClearanceObjective>(si);
    if (kind == "work")
        return std::make_shared<FieldWork>(si, w, f);
    if (kind == "multi")
    {
        auto m = std::make_shared<ob::MultiOptimizationObjective>(si);
        m->addObjective(std::make_shared<ob::PathLengthOptimizationObjective>(si), 1.0);
        m->addObjective(std::make_shared<FieldSCI>(si, false, f), w);
        m->lock();
        return m;
    }
    return nullptr;
}

static ob::SpaceInformationPtr makeSpace(unsigned dim, double lo, double hi, double frac, unsigned factor,
                                         std::vector<Box> boxes, int field)
{
    auto space = std::make_shared<ob::RealVectorStateSpace>(dim);
    ob::RealVectorBounds b(dim);
    b.setLow(lo);
    b.setHigh(hi);
    space->setBounds(b);
    space->setLongestValidSegmentFraction(frac);
    space->setValidSegmentCountFactor(factor);
    auto si = std::make_shared<ob::SpaceInformation>(space);
    si->setStateValidityChecker(std::make_shared<Checker>(si, dim, std::move(boxes), field));
    si->setup();
    return si;
}

// Dubins car in the unit square (direction-dependent distance: path length is an asymmetric objective there)
struct CheckerSE2 : ob::StateValidityChecker
{
    std::vector<Box> boxes;
    CheckerSE2(const ob::SpaceInformationPtr &si, std::vector<Box> b) : ob::StateValidityChecker(si), boxes(std::move(b)) {}
    bool isValid(const ob::State *s) const override
    {
        const auto *se = s->as<ob::SE2StateSpace::StateType>();
        double v[2] = {se->getX(), se->getY()};
        for (auto &b : boxes)
            if (v[0] >= b.lo[0] && v[0] <= b.hi[0] && v[1] >= b.lo[1] && v[1] <= b.hi[1])
                return false;
        return true;
    }
};
static ob::SpaceInformationPtr makeDubins(std::vector<Box> boxes)
{
    auto space = std::make_shared<ob::DubinsStateSpace>(0.08);
    ob::RealVectorBounds b(2);
    b.setLow(0.0);
    b.setHigh(1.0);
    space->setBounds(b);
    auto si = std::make_shared<ob::SpaceInformation>(space);
    si->setStateValidityChecker(std::make_shared<CheckerSE2>(si, std::move(boxes)));
    si->setMotionValidator(std::make_shared<ob::DubinsMotionValidator>(si));
    si->setup();
    return si;
}

static bool doPath(const std::vector<std::string> &t)
{
    // path kind field w dim lo hi frac factor npts coords...
    if (t.size() < 10)
        return false;
    const std::string &kind = t[1];
    auto field = vp::parseNat(t[2]);
    auto w = vp::parseBits(t[3]);
    auto dim = vp::parseNat(t[4]);
    auto lo = vp::parseBits(t[5]);
    auto hi = vp::parseBits(t[6]);
    auto frac = vp::parseBits(t[7]);
    auto factor = vp::parseNat(t[8]);
    auto npts = vp::parseNat(t[9]);
    if (!field || !w || !dim || !lo || !hi || !frac || !factor || !npts || *dim == 0 || *field > 2)
        return false;
    if (t.size() != 10 + *dim * *npts)
        return false;
    std::vector<double> cs;
    for (size_t i = 10; i < t.size(); ++i)
    {
        auto v = vp::parseBits(t[i]);
        if (!v)
            return false;
        cs.push_back(*v);
    }
    static const char *kinds[] = {"len", "sci", "scii", "minimax", "clear", "work", "multi", "time", "lenit"};
    bool known = false;
    for (auto k : kinds)
        if (kind == k)
            known = true;
    if (!known)
        return false;
    unsigned d = (unsigned)*dim;
    auto si = makeSpace(d, *lo, *hi, *frac, (unsigned)*factor, {}, (int)*field);
    og::PathGeometric p(si);
    {
        ob::State *s = si->allocState();
        for (size_t k = 0; k < *npts; ++k)
        {
            for (unsigned i = 0; i < d; ++i)
                s->as<ob::RealVectorStateSpace::StateType>()->values[i] = cs[k * d + i];
            p.append(s);
        }
        si->freeState(s);
    }
    double len = p.length();
    double cost;
    if (kind == "time")
    {
        // MinimizeArrivalTime reads component 1 of a compound state as the time: build
        // RealVector(dim) x Time with time = last coordinate of the point.
        auto cs2 = std::make_shared<ob::CompoundStateSpace>();
        cs2->addSubspace(std::make_shared<ob::RealVectorStateSpace>(d), 1.0);
        cs2->addSubspace(std::make_shared<ob::TimeStateSpace>(), 1.0);
        {
            ob::RealVectorBounds b(d);
            b.setLow(*lo);
            b.setHigh(*hi);
            cs2->getSubspace(0)->as<ob::RealVectorStateSpace>()->setBounds(b);
        }
        auto si2 = std::make_shared<ob::SpaceInformation>(cs2);
        si2->setStateValidityChecker([](const ob::State *) { return true; });
        si2->setup();
        og::PathGeometric p2(si2);
        ob::State *s = si2->allocState();
        for (size_t k = 0; k < *npts; ++k)
        {
            auto *c = s->as<ob::CompoundState>();
            for (unsigned i = 0; i < d; ++i)
                c->as<ob::RealVectorStateSpace::StateType>(0)->values[i] = cs[k * d + i];
            c->as<ob::TimeStateSpace::StateType>(1)->position = cs[k * d + d - 1];
            p2.append(s);
        }
        si2->freeState(s);
        ob::OptimizationObjectivePtr obj = std::make_shared<ob::MinimizeArrivalTime>(si2);
        cost = p2.cost(obj).value();
    }
    else
    {
        auto obj = makeObjective(kind, si, (unsigned)*field, *w, d);
        cost = p.cost(obj).value();
    }
    std::cout << "cost=" << vp::bits(cost) << " len=" << vp::bits(len) << "\n";
    return true;
}

static int mainAB(const std::string &objname)
{
    auto si = makeSpace(1, 0.0, 1.0, 0.01, 1, {}, 0);
    ob::OptimizationObjectivePtr obj;
    if (objname == "obj=min")
        obj = std::make_shared<ob::PathLengthOptimizationObjective>(si);
    else if (objname == "obj=max")
        obj = std::make_shared<ob::MaximizeMinClearanceObjective>(si);
    else
    {
        std::cout << "bad-header\n";
        return 2;
    }
    auto pdef = std::make_shared<ob::ProblemDefinition>(si);
    std::string line;
    while (vp::readLine(line))
    {
        auto t = vp::tokens(line);
        if (t.empty())
            continue;
        const std::string &op = t[0];
        if (op == "add" && t.size() == 7)
        {
            auto a = parseBit(t[1]);
            auto d = vp::parseBits(t[2]);
            auto h = parseBit(t[3]);
            auto c = vp::parseBits(t[4]);
            auto o = parseBit(t[5]);
            auto l = vp::parseBits(t[6]);
            if (!a || !d || !h || !c || !o || !l)
            {
                std::cout << "bad-op\n";
                continue;
            }
            auto s = mkSol(si, obj, *a, *d, *h, *c, *o, *l);
            pdef->addSolutionPath(*s);
            std::cout << "ok n=" << pdef->getSolutionCount() << "\n";
        }
        else if (op == "list" && t.size() == 1)
        {
            auto v = pdef->getSolutions();
            std::string s = "n=" + std::to_string(v.size());
            for (auto &x : v)
                s += " " + recOf(x);
            std::cout << s << "\n";
        }
        else if (op == "top" && t.size() == 1)
        {
            ob::PlannerSolution s(nullptr);
            if (pdef->getSolution(s))
                std::cout << recOf(s) << "\n";
            else
                std::cout << "none\n";
        }
        else if (op == "flags" && t.size() == 1)
        {
            std::cout << "approx=" << (pdef->hasApproximateSolution() ? 1 : 0) << " opt=" << (pdef->hasOptimizedSolution() ? 1 : 0)
                      << " diff=" << vp::bits(pdef->getSolutionDifference()) << " exact=" << (pdef->hasExactSolution() ? 1 : 0)
                      << " n=" << pdef->getSolutionCount() << "\n";
        }
        else if (op == "clear" && t.size() == 1)
        {
            pdef->clearSolutionPaths();
            std::cout << "ok\n";
        }
        else if (op == "chk")
        {
            size_t i = 1;
            auto xs = vp::takeCounted(t, i);
            bool ok = xs && i == t.size();
            std::vector<ob::PlannerSolution> v;
            if (ok)
                for (auto &x : *xs)
                {
                    auto s = parseRec(si, obj, x);
                    if (!s)
                    {
                        ok = false;
                        break;
                    }
                    v.push_back(*s);
                }
            if (!ok)
            {
                std::cout << "bad-op\n";
                continue;
            }
            std::string res = "inv=none";
            for (size_t a = 0; a < v.size() && res == "inv=none"; ++a)
                for (size_t b = a + 1; b < v.size(); ++b)
                    if (v[b] < v[a])
                    {
                        res = "inv=" + std::to_string(a) + "," + std::to_string(b);
                        break;
                    }
            std::cout << res << "\n";
        }
        else if (op == "cmp" && t.size() == 3)
        {
            auto a = parseRec(si, obj, t[1]);
            auto b = parseRec(si, obj, t[2]);
            if (!a || !b)
            {
                std::cout << "bad-op\n";
                continue;
            }
            std::cout << "lt=" << ((*a < *b) ? 1 : 0) << " gt=" << ((*b < *a) ? 1 : 0) << "\n";
        }
        else if (op == "sat" && t.size() == 3)
        {
            auto th = vp::parseBits(t[1]);
            auto c = vp::parseBits(t[2]);
            if (!th || !c)
            {
                std::cout << "bad-op\n";
                continue;
            }
            ob::Cost old = obj->getCostThreshold();
            obj->setCostThreshold(ob::Cost(*th));
            std::cout << "sat=" << (obj->isSatisfied(ob::Cost(*c)) ? 1 : 0) << "\n";
            obj->setCostThreshold(old);
        }
        else if (op == "path")
        {
            if (!doPath(t))
                std::cout << "bad-op\n";
        }
        else
            std::cout << "bad-op\n";
    }
    return 0;
}

// ------------------------------------------------------------------------------------------ part C
static std::vector<Box> envBoxes(unsigned env, unsigned dim)
{
    auto box = [&](double x0, double x1, double y0, double y1) {
        Box b;
        b.lo.assign(dim, 0.0);
        b.hi.assign(dim, 1.0);
        b.lo[0] = x0;
        b.hi[0] = x1;
        b.lo[1] = y0;
        b.hi[1] = y1;
        return b;
    };
    std::vector<Box> out;
    switch (env)
    {
        case 0:
            break;
        case 1:  // a central block
            out.push_back(box(0.35, 0.65, 0.35, 0.65));
            break;
        case 2:  // a wall with a gap at the top
            out.push_back(box(0.45, 0.55, 0.0, 0.7));
            break;
        case 3:  // zig-zag
            out.push_back(box(0.3, 0.4, 0.0, 0.7));
            out.push_back(box(0.6, 0.7, 0.3, 1.0));
            break;
        case 5:  // the goal corner [0.8,1]^2 is sealed off: no exact solution exists
            out.push_back(box(0.72, 0.8, 0.72, 1.0));
            out.push_back(box(0.72, 1.0, 0.72, 0.8));
            break;
        case 6:  // wall at x in [0.70,0.74] with a window at y in (0.72,0.76)
            out.push_back(box(0.70, 0.74, 0.0, 0.72));
            out.push_back(box(0.70, 0.74, 0.76, 1.0));
            break;
        case 7:  // two blocks
        case 8:
            out.push_back(box(0.3, 0.45, 0.0, 0.35));
            out.push_back(box(0.45, 0.7, 0.45, 0.7));
            break;
        default:  // scattered blocks
            out.push_back(box(0.2, 0.35, 0.2, 0.35));
            out.push_back(box(0.5, 0.7, 0.15, 0.4));
            out.push_back(box(0.25, 0.5, 0.55, 0.75));
            out.push_back(box(0.65, 0.8, 0.6, 0.8));
            break;
    }
    return out;
}

// start and goal states of an environment (first two coordinates; the others are 0.1 / 0.9 resp. 0.5).
// Two goal states: the one listed first is the worse one.
struct Query
{
    std::vector<double> start;
    std::vector<std::vector<double>> goals;
    std::vector<std::vector<double>> moreStarts;   // env 8: a second start state
};
static Query envQuery(unsigned env, unsigned dim)
{
    Query q;
    if (env == 6)
    {
        q.start.assign(dim, 0.5);
        q.start[0] = 0.60;
        q.goals.push_back(std::vector<double>(dim, 0.5));
        q.goals.back()[0] = 0.02;
        q.goals.back()[1] = 0.90;
        q.goals.push_back(std::vector<double>(dim, 0.5));
        q.goals.back()[0] = 0.85;
        return q;
    }
    q.start.assign(dim, 0.1);
    q.goals.push_back(std::vector<double>(dim, 0.9));
    if (env == 7)
    {
        q.goals.push_back(std::vector<double>(dim, 0.5));
        q.goals.back()[0] = 0.55;
        q.goals.back()[1] = 0.2;
    }
    if (env == 8)  // two start states (the second one is closer to the goal), one goal, the blocks of env 7
    {
        q.moreStarts.push_back(std::vector<double>(dim, 0.5));
        q.moreStarts.back()[0] = 0.85;
        q.moreStarts.back()[1] = 0.25;
    }
    return q;
}

static ob::PlannerPtr makePlanner(const std::string &n, const ob::SpaceInformationPtr &si)
{
    if (n == "RRTstar") return std::make_shared<og::RRTstar>(si);
    if (n == "InformedRRTstar") return std::make_shared<og::InformedRRTstar>(si);
    if (n == "SORRTstar") return std::make_shared<og::SORRTstar>(si);
    if (n == "RRTsharp") return std::make_shared<og::RRTsharp>(si);
    if (n == "RRTXstatic") return std::make_shared<og::RRTXstatic>(si);
    if (n == "BITstar") return std::make_shared<og::BITstar>(si);
    if (n == "ABITstar") return std::make_shared<og::ABITstar>(si);
    if (n == "AITstar") return std::make_shared<og::AITstar>(si);
    if (n == "EITstar") return std::make_shared<og::EITstar>(si);
    if (n == "EIRMstar") return std::make_shared<og::EIRMstar>(si);
    if (n == "PRMstar") return std::make_shared<og::PRMstar>(si);
    if (n == "LazyPRMstar") return std::make_shared<og::LazyPRMstar>(si);
    if (n == "FMT")
    {
        auto p = std::make_shared<og::FMT>(si);
        p->setNumSamples(400);
        return p;
    }
    if (n == "BFMT")
    {
        auto p = std::make_shared<og::BFMT>(si);
        p->setNumSamples(400);
        return p;
    }
    if (n == "LBTRRT") return std::make_shared<og::LBTRRT>(si);
    if (n == "LazyLBTRRT") return std::make_shared<og::LazyLBTRRT>(si);
    if (n == "SST")
    {
        // the defaults (selection radius 5, pruning radius 3) exceed the unit box: one witness, no growth
        auto p = std::make_shared<og::SST>(si);
        p->setSelectionRadius(0.1);
        p->setPruningRadius(0.04);
        return p;
    }
    if (n == "TRRT") return std::make_shared<og::TRRT>(si);
    if (n == "BiTRRT") return std::make_shared<og::BiTRRT>(si);
    if (n == "LazyRRT") return std::make_shared<og::LazyRRT>(si);
    if (n == "PRM") return std::make_shared<og::PRM>(si);
    if (n == "LazyPRM") return std::make_shared<og::LazyPRM>(si);
    if (n == "SPARS") return std::make_shared<og::SPARS>(si);
    if (n == "SPARStwo") return std::make_shared<og::SPARStwo>(si);
    if (n == "QRRTStar") return std::make_shared<ompl::multilevel::QRRTStar>(si);
    if (n == "QMPStar") return std::make_shared<ompl::multilevel::QMPStar>(si);
    if (n == "CForest")
    {
        auto p = std::make_shared<og::CForest>(si);
        p->setNumThreads(2);
        return p;
    }
    if (n == "AnytimePathShortening")
    {
        auto p = std::make_shared<og::AnytimePathShortening>(si);
        p->setDefaultNumPlanners(2);
        return p;
    }
    return nullptr;
}

// a user-defined state sampler on a lattice: every coordinate of a RealVector sample is rounded to a multiple of 1/n
// (exact distance and cost ties become systematic, as in a discretised space)
struct GridSampler : ob::StateSampler
{
    ob::StateSamplerPtr base;
    unsigned n, dim;
    GridSampler(const ob::StateSpace *sp, ob::StateSamplerPtr b, unsigned n, unsigned dim) : ob::StateSampler(sp), base(std::move(b)), n(n), dim(dim) {}
    void snap(ob::State *s)
    {
        double *v = s->as<ob::RealVectorStateSpace::StateType>()->values;
        for (unsigned i = 0; i < dim; ++i)
            v[i] = std::round(v[i] * n) / n;
    }
    void sampleUniform(ob::State *s) override { base->sampleUniform(s); snap(s); }
    void sampleUniformNear(ob::State *s, const ob::State *near, double d) override { base->sampleUniformNear(s, near, d); snap(s); }
    void sampleGaussian(ob::State *s, const ob::State *mean, double sd) override { base->sampleGaussian(s, mean, sd); snap(s); }
};

// the public "load a roadmap" constructors
static ob::PlannerPtr makePlannerFromData(const std::string &n, const ob::PlannerData &pd)
{
    if (n == "PRM") return std::make_shared<og::PRM>(pd);
    if (n == "PRMstar") return std::make_shared<og::PRMstar>(pd);
    if (n == "LazyPRM") return std::make_shared<og::LazyPRM>(pd);
    if (n == "LazyPRMstar") return std::make_shared<og::LazyPRMstar>(pd);
    return nullptr;
}

static std::string clean(std::string s);

static bool doParams(const std::vector<std::string> &t)
{
    if (t.size() != 2)
        return false;
    auto space = std::make_shared<ob::RealVectorStateSpace>(2);
    space->setBounds(0.0, 1.0);
    auto si = std::make_shared<ob::SpaceInformation>(space);
    si->setStateValidityChecker([](const ob::State *) { return true; });
    si->setup();
    auto planner = makePlanner(t[1], si);
    if (!planner)
        return false;
    std::cout << "params " << t[1];
    for (auto &kv : planner->params().getParams())
        std::cout << " " << clean(kv.first) << "=" << clean(kv.second->getValue()) << "|" << clean(kv.second->getRangeSuggestion());
    std::cout << std::endl;
    return true;
}

static std::string clean(std::string s)
{
    for (char &c : s)
        if (c == ' ' || c == ':' || c == ';' || c == '|')
            c = '_';
    return s.empty() ? "-" : s;
}

// Observes the problem definition from inside the termination condition (same thread as the planner,
// or a planner's worker threads: hence the mutex): whenever the number of solutions changed, and at
// the end of every solve, one line with the flags, the order of getSolutions() (by index_) and the
// details of the solutions not printed before.  Lines are flushed so that they survive an abort.
struct Monitor
{
    ob::SpaceInformationPtr si;
    ob::ProblemDefinitionPtr pdef;
    ob::OptimizationObjectivePtr obj;
    const ob::State *start;
    double qbound;
    std::vector<const ob::State *> otherStarts;
    std::mutex m;
    size_t seenCount = 0;   // solution count at the last report
    int printed = 0;        // records with index_ < printed have had their details printed
    std::map<int, std::string> shown;   // fingerprint of the record whose details were printed for an index

    std::string detail(const ob::PlannerSolution &s)
    {
        auto *pg = dynamic_cast<og::PathGeometric *>(s.path_.get());
        ob::OptimizationObjectivePtr o = s.opt_ ? s.opt_ : obj;
        std::string r = recOf(s);
        if (!pg || pg->getStateCount() == 0)
            return r + ":nopath";
        double tc = pg->cost(o).value();
        // the fold, spelled out here through the objective's own primitives
        ob::Cost f = o->initialCost(pg->getState(0));
        for (size_t i = 1; i < pg->getStateCount(); ++i)
            f = o->combineCosts(f, o->motionCost(pg->getState(i - 1), pg->getState(i)));
        f = o->combineCosts(f, o->terminalCost(pg->getState(pg->getStateCount() - 1)));
        const ob::State *a = pg->getState(0), *b = pg->getState(pg->getStateCount() - 1);
        double h = o->motionCostHeuristic(a, b).value();
        double sl = si->distance(a, b);
        bool firstOk = si->equalStates(a, start);
        for (auto *os : otherStarts)
            firstOk = firstOk || si->equalStates(a, os);
        bool lastOk = pdef->getGoal()->isSatisfied(b);
        return r + ":" + vp::bits(tc) + ":" + vp::bits(f.value()) + ":" + vp::bits(pg->length()) + ":" + vp::bits(h) + ":" +
               vp::bits(sl) + ":" + (firstOk ? "1" : "0") + (lastOk ? "1" : "0") + ":" +
               (s.opt_ ? (s.opt_ == obj ? "same" : "other") : "none") + ":" + (o->isSatisfied(s.cost_) ? "1" : "0") + ":" +
               std::to_string(pg->getStateCount()) + ":" + clean(s.plannerName_);
    }

    // the user forgets all solutions between two solves (the anytime pattern of tests/geometric/2d)
    void clearSolutions(unsigned solve)
    {
        std::lock_guard<std::mutex> lk(m);
        pdef->clearSolutionPaths();
        seenCount = 0;
        printed = 0;
        shown.clear();
        std::cout << "clear solve=" << solve << std::endl;
    }

    void report(const std::string &kind, unsigned solve, unsigned long calls, const std::string &extra)
    {
        std::lock_guard<std::mutex> lk(m);
        auto sols = pdef->getSolutions();
        if (kind == "snap" && sols.size() == seenCount)
            return;
        seenCount = sols.size();
        // flags are read after the list; another thread may add in between (CForest, APS): the check
        // only relates flags to the list on `solve` lines, which are printed when the planner returned
        std::string out = kind + " solve=" + std::to_string(solve) + " calls=" + std::to_string(calls) + extra +
                          " approx=" + (pdef->hasApproximateSolution() ? "1" : "0") + " opt=" + (pdef->hasOptimizedSolution() ? "1" : "0") +
                          " diff=" + vp::bits(pdef->getSolutionDifference()) + " exact=" + (pdef->hasExactSolution() ? "1" : "0") +
                          " n=" + std::to_string(sols.size()) + " order=";
        for (size_t i = 0; i < sols.size(); ++i)
            out += (i ? "," : "") + std::to_string(sols[i].index_);
        out += " new=";
        // details are printed for records not printed before -- and again when the record at an index changed (a planner
        // that clears the problem definition itself and re-adds, as BundleSpaceSequence does, re-uses index 0)
        int maxIdx = printed;
        for (auto &s : sols)
        {
            std::string fp = recOf(s) + "@" + std::to_string((unsigned long long)(uintptr_t)s.path_.get());
            auto it = shown.find(s.index_);
            if (s.index_ >= printed || it == shown.end() || it->second != fp)
            {
                out += " " + detail(s);
                shown[s.index_] = fp;
                maxIdx = std::max(maxIdx, s.index_ + 1);
            }
        }
        printed = maxIdx;
        std::cout << out << std::endl;
    }
};

static bool doRun(const std::vector<std::string> &t)
{
    // run planner obj field thr env dim seed evals solves goalthr [history [cfg]]
    if (t.size() < 11 || t.size() > 13)
        return false;
    // history: one letter per continued solve (k >= 1), see the header comment; "0"/"1" = all c / all p
    std::string hist;
    if (t.size() >= 12)
    {
        hist = t[11];
        if (hist == "0")
            hist = "";
        else if (hist == "1")
            hist = std::string(64, 'p');
        for (char ch : hist)
            if (std::string("cpksoOrRd").find(ch) == std::string::npos)
                return false;
    }
    std::vector<std::pair<std::string, std::string>> cfg;
    if (t.size() == 13 && t[12] != "-")
    {
        std::string item;
        std::string all = t[12] + ",";
        for (char ch : all)
        {
            if (ch != ',')
            {
                item += ch;
                continue;
            }
            auto eq = item.find('=');
            if (eq == std::string::npos || eq == 0)
                return false;
            cfg.emplace_back(item.substr(0, eq), item.substr(eq + 1));
            item.clear();
        }
    }
    const std::string &pname = t[1], &kind = t[2];
    auto field = vp::parseNat(t[3]);
    const std::string &thr = t[4];
    auto env = vp::parseNat(t[5]);
    auto dim = vp::parseNat(t[6]);
    auto seed = vp::parseNat(t[7]);
    auto evals = vp::parseNat(t[8]);
    auto solves = vp::parseNat(t[9]);
    auto gthr = vp::parseBits(t[10]);
    if (!field || !env || !dim || !seed || !evals || !solves || !gthr || *dim < 2 || *dim > 6 || *field > 2 || *seed == 0)
        return false;
    std::optional<double> thrv;
    if (thr != "def" && thr != "inf")
    {
        thrv = vp::parseBits(thr);
        if (!thrv)
            return false;
    }
    unsigned d = (unsigned)*dim;
    ompl::RNG::setSeed((std::uint_fast32_t)*seed);
    // clearance() is the obstacle distance here (field -1); the cost fields feed the stateCost overrides
    // obj "dublen": path length in a Dubins space (states x, y, yaw; dim must be 3)
    const bool dubins = (kind == "dublen");
    if (dubins && d != 3)
        return false;
    auto si = dubins ? makeDubins(envBoxes((unsigned)*env, 2)) : makeSpace(d, 0.0, 1.0, 0.01, 1, envBoxes((unsigned)*env, d), -1);
    // pseudo-parameter `grid=<n>` (RealVector runs only): samples are snapped to the lattice (1/n)Z^d
    for (auto &kv : cfg)
        if (kv.first == "grid")
        {
            auto n = vp::parseNat(kv.second);
            if (!n || *n == 0 || dubins)
                return false;
            unsigned nn = (unsigned)*n;
            si->getStateSpace()->setStateSamplerAllocator([nn, d](const ob::StateSpace *sp) -> ob::StateSamplerPtr {
                return std::make_shared<GridSampler>(sp, sp->allocDefaultStateSampler(), nn, d);
            });
        }
    Query q = envQuery((unsigned)*env, d);
    // the states of the query (kept alive for the whole run: the Monitor compares path end points with them)
    std::vector<ob::ScopedState<>> keep;
    keep.reserve(64);
    auto mk = [&](const std::vector<double> &v) -> ob::ScopedState<> & {
        keep.emplace_back(si);
        for (unsigned i = 0; i < d; ++i)
            keep.back()[i] = v[i];
        return keep.back();
    };
    struct Problem
    {
        ob::ProblemDefinitionPtr pdef;
        ob::OptimizationObjectivePtr obj;
        std::string kind;
        std::vector<const ob::State *> starts;
        double qbound;
    };
    // a problem definition for the environment's query (or the reversed one: first goal -> start) under objective `k`
    auto makeProblem = [&](const std::string &k, bool reversed, bool first) -> std::optional<Problem> {
        Problem P;
        P.kind = k;
        if (dubins && k != "dublen")
        {
            // a swapped-in objective for the Dubins space: 3 x path length
            auto m = std::make_shared<ob::MultiOptimizationObjective>(si);
            m->addObjective(std::make_shared<ob::PathLengthOptimizationObjective>(si), 3.0);
            m->lock();
            P.obj = m;
        }
        else if (dubins)
            P.obj = std::make_shared<ob::PathLengthOptimizationObjective>(si);
        else   // a swapped-in state-cost integral uses a non-constant field, so that it differs from the length
            P.obj = makeObjective(k, si, (!first && k == "sci" && *field == 0) ? 1u : (unsigned)*field, 0.5, d);
        if (!P.obj)
            return std::nullopt;
        // the threshold of the run line belongs to the first objective; a swapped-in objective keeps its default
        if (first)
        {
            if (thr == "inf")
                P.obj->setCostThreshold(P.obj->infiniteCost());
            else if (thrv)
                P.obj->setCostThreshold(ob::Cost(*thrv));
        }
        P.pdef = std::make_shared<ob::ProblemDefinition>(si);
        double nearest = std::numeric_limits<double>::infinity();
        if (reversed)
        {
            auto &s0 = mk(q.goals[0]);
            auto &g0 = mk(q.start);
            P.pdef->setStartAndGoalStates(s0, g0, *gthr);
            P.starts.push_back(s0.get());
            nearest = si->distance(s0.get(), g0.get());
        }
        else if (q.goals.size() == 1)
        {
            auto &s0 = mk(q.start);
            auto &g0 = mk(q.goals[0]);
            P.pdef->setStartAndGoalStates(s0, g0, *gthr);
            P.starts.push_back(s0.get());
            nearest = si->distance(s0.get(), g0.get());
            for (auto &xs : q.moreStarts)
            {
                auto &x = mk(xs);
                P.pdef->addStartState(x);
                P.starts.push_back(x.get());
                nearest = std::min(nearest, si->distance(x.get(), g0.get()));
            }
        }
        else
        {
            auto &s0 = mk(q.start);
            P.pdef->addStartState(s0);
            P.starts.push_back(s0.get());
            auto gs = std::make_shared<ob::GoalStates>(si);
            for (auto &g : q.goals)
            {
                auto &gg = mk(g);
                gs->addState(gg);
                nearest = std::min(nearest, si->distance(s0.get(), gg.get()));
            }
            gs->setThreshold(*gthr);
            P.pdef->setGoal(gs);
        }
        P.pdef->setOptimizationObjective(P.obj);
        P.qbound = std::max(nearest - *gthr, 0.0);
        return P;
    };
    auto P0 = makeProblem(kind, false, true);
    if (!P0)
        return false;
    Problem P = *P0;
    auto planner = makePlanner(pname, si);
    if (!planner)
        return false;
    // BIT*/ABIT* report approximate solutions only when asked to; ask in the sealed-goal environment
    if (*env == 5)
        if (auto *bit = dynamic_cast<og::BITstar *>(planner.get()))
            bit->setConsiderApproximateSolutions(true);
    std::cout << "run planner=" << pname << " obj=" << kind << " thr=" << vp::bits(P.obj->getCostThreshold().value())
              << " qbound=" << vp::bits(P.qbound) << std::endl;
    auto applyCfg = [&](const ob::PlannerPtr &pl) {
        for (auto &kv : cfg)
        {
            if (kv.first == "grid")
                continue;
            bool ok = pl->params().hasParam(kv.first) && pl->params().setParam(kv.first, kv.second);
            std::cout << "cfg " << clean(kv.first) << "=" << clean(kv.second) << " ok=" << (ok ? 1 : 0) << std::endl;
        }
    };
    applyCfg(planner);
    Monitor mon{si, P.pdef, P.obj, P.starts[0], P.qbound};
    for (size_t i = 1; i < P.starts.size(); ++i)
        mon.otherStarts.push_back(P.starts[i]);
    bool rev = false;
    try
    {
        planner->setProblemDefinition(P.pdef);
        planner->setup();
        for (unsigned k = 0; k < *solves; ++k)
        {
            std::atomic<unsigned long> calls{0};
            unsigned long budget = *evals;
            ob::PlannerTerminationCondition ptc([&calls, budget, &mon, k] {
                unsigned long c = ++calls;
                mon.report("snap", k, c, "");
                return c > budget;
            });
            char h = (k > 0 && k - 1 < hist.size()) ? hist[k - 1] : 'c';
            if (h == 'k' || h == 's' || h == 'O' || h == 'R')
            {
                size_t before = P.pdef->getSolutionCount();
                planner->clear();
                std::cout << "plannerclear solve=" << k << std::endl;
                // some planners' clear() also empties the problem definition's solution set (SPARS::clearQuery,
                // PlannerMultiLevel::clear, BundleSpace::clear): then the history restarts like after clearSolutionPaths()
                if (before > 0 && P.pdef->getSolutionCount() == 0 && h == 'k')
                    mon.clearSolutions(k);
            }
            if (h == 'p' || h == 's')
                mon.clearSolutions(k);
            if (h == 'd')
            {
                // the planner is re-created from its own exported roadmap (the public constructor from PlannerData); the
                // problem definition keeps its solutions
                ob::PlannerData pd(si);
                planner->getPlannerData(pd);
                auto p2 = makePlannerFromData(pname, pd);
                if (p2)
                {
                    std::cout << "fromdata solve=" << k << " vertices=" << pd.numVertices() << " edges=" << pd.numEdges() << std::endl;
                    planner = p2;
                    applyCfg(planner);
                    planner->setProblemDefinition(P.pdef);
                    planner->setup();
                }
                else
                    std::cout << "fromdata solve=" << k << " unsupported" << std::endl;
            }
            if (h == 'o' || h == 'O' || h == 'r' || h == 'R')
            {
                // a new problem definition on the same planner: another objective (o/O) or the reversed query (r/R)
                std::string k2 = P.kind;
                if (h == 'o' || h == 'O')
                    k2 = dubins ? (P.kind == "dublen" ? "dublen3" : "dublen") : (P.kind == "len" ? "sci" : "len");
                else
                    rev = !rev;
                auto P2 = makeProblem(k2, rev, false);
                if (!P2)
                    return false;
                P = *P2;
                {
                    std::lock_guard<std::mutex> lk(mon.m);
                    mon.pdef = P.pdef;
                    mon.obj = P.obj;
                    mon.start = P.starts[0];
                    mon.otherStarts.assign(P.starts.begin() + 1, P.starts.end());
                    mon.qbound = P.qbound;
                    mon.seenCount = 0;
                    mon.printed = 0;
                    mon.shown.clear();
                    std::cout << "newquery solve=" << k << " obj=" << P.kind << " reversed=" << (rev ? 1 : 0)
                              << " thr=" << vp::bits(P.obj->getCostThreshold().value()) << " qbound=" << vp::bits(P.qbound) << std::endl;
                }
                planner->setProblemDefinition(P.pdef);
                planner->setup();
            }
            ob::PlannerStatus st = planner->solve(ptc);
            mon.report("solve", k, calls.load(), " status=" + clean(st.asString()));
        }
        std::cout << "end" << std::endl;
    }
    catch (const std::exception &e)
    {
        std::cout << "error " << clean(e.what()) << std::endl;
    }
    return true;
}

// FMT*'s internal cost bookkeeping, opened (all members are protected): every motion of nn_ with its parent, its
// cost-to-come and its set; the cost of the reported path and of lastGoalMotion_.
struct FMTX : og::FMT
{
    FMTX(const ob::SpaceInformationPtr &si) : og::FMT(si) {}
    std::string dump(const ob::OptimizationObjectivePtr &opt, unsigned dim)
    {
        std::vector<Motion *> ms;
        nn_->list(ms);
        std::map<const Motion *, size_t> idx;
        for (size_t i = 0; i < ms.size(); ++i)
            idx[ms[i]] = i;
        std::string out = "n=" + std::to_string(ms.size()) + " goal=" +
                          (lastGoalMotion_ && idx.count(lastGoalMotion_) ? std::to_string(idx[lastGoalMotion_]) : std::string("-")) + " :";
        for (size_t i = 0; i < ms.size(); ++i)
        {
            const Motion *m = ms[i];
            std::string st;
            for (unsigned k = 0; k < dim; ++k)
                st += (k ? "," : "") + vp::bits(m->getState()->as<ob::RealVectorStateSpace::StateType>()->values[k]);
            const Motion *par = m->getParent();
            double edge = par ? opt->motionCost(par->getState(), m->getState()).value() : 0.0;
            out += " " + std::to_string(i) + ":" + (par ? (idx.count(par) ? std::to_string(idx[par]) : std::string("?")) : std::string("-")) + ":" +
                   vp::bits(m->getCost().value()) + ":" + std::to_string((int)m->getSetType()) + ":" + vp::bits(edge) + ":" + st;
        }
        return out;
    }
};

static bool doFmt(const std::vector<std::string> &t)
{
    // fmt obj field env dim seed nsamples evals goalthr
    if (t.size() != 9)
        return false;
    const std::string &kind = t[1];
    auto field = vp::parseNat(t[2]);
    auto env = vp::parseNat(t[3]);
    auto dim = vp::parseNat(t[4]);
    auto seed = vp::parseNat(t[5]);
    auto nsamples = vp::parseNat(t[6]);
    auto evals = vp::parseNat(t[7]);
    auto gthr = vp::parseBits(t[8]);
    if (!field || !env || !dim || !seed || !nsamples || !evals || !gthr || *dim < 2 || *dim > 4 || *field > 2 || *seed == 0)
        return false;
    unsigned d = (unsigned)*dim;
    ompl::RNG::setSeed((std::uint_fast32_t)*seed);
    auto si = makeSpace(d, 0.0, 1.0, 0.01, 1, envBoxes((unsigned)*env, d), -1);
    auto obj = makeObjective(kind, si, (unsigned)*field, 0.5, d);
    if (!obj)
        return false;
    auto pdef = std::make_shared<ob::ProblemDefinition>(si);
    ob::ScopedState<> start(si), goal(si);
    for (unsigned i = 0; i < d; ++i)
    {
        start[i] = 0.1;
        goal[i] = 0.9;
    }
    pdef->setStartAndGoalStates(start, goal, *gthr);
    pdef->setOptimizationObjective(obj);
    auto planner = std::make_shared<FMTX>(si);
    planner->setNumSamples((unsigned)*nsamples);
    std::cout << "fmtrun obj=" << kind << std::endl;
    try
    {
        planner->setProblemDefinition(pdef);
        planner->setup();
        std::atomic<unsigned long> calls{0};
        unsigned long budget = *evals;
        ob::PlannerTerminationCondition ptc([&calls, budget] { return ++calls > budget; });
        ob::PlannerStatus st = planner->solve(ptc);
        std::string sol = "sol=0";
        if (pdef->hasSolution())
        {
            auto *pg = dynamic_cast<og::PathGeometric *>(pdef->getSolutionPath().get());
            sol = "sol=1 pathcost=" + vp::bits(pg ? pg->cost(obj).value() : 0.0) + " plen=" + std::to_string(pg ? pg->getStateCount() : 0);
        }
        std::cout << "fmt status=" << clean(st.asString()) << " " << sol << " " << planner->dump(obj, d) << std::endl;
    }
    catch (const std::exception &e)
    {
        std::cout << "error " << clean(e.what()) << std::endl;
    }
    return true;
}

static int mainRun()
{
    std::string line;
    while (vp::readLine(line))
    {
        auto t = vp::tokens(line);
        if (t.empty())
            continue;
        if (t[0] == "run")
        {
            if (!doRun(t))
                std::cout << "bad-op\n";
        }
        else if (t[0] == "params")
        {
            if (!doParams(t))
                std::cout << "bad-op\n";
        }
        else if (t[0] == "fmt")
        {
            if (!doFmt(t))
                std::cout << "bad-op\n";
        }
        else
            std::cout << "bad-op\n";
    }
    return 0;
}

int main()
{
    ompl::msg::setLogLevel(ompl::msg::LOG_NONE);
    std::string line;
    if (!vp::readLine(line))
        return 2;
    auto hdr = vp::tokens(line);
    if (hdr.size() == 2 && hdr[0] == "soln")
        return mainAB(hdr[1]);
    if (hdr.size() == 1 && hdr[0] == "solnrun")
        return mainRun();
    std::cout << "bad-header\n";
    return 2;
}
