// C14 harness: drives the real DubinsStateSpace / ReedsSheppStateSpace of libompl (built from the
// current tree) through the line protocol.  Poses are `x y yaw` as u64 bit patterns.
//
// header `dubins rho=<bits> sym=<0|1> lo=<bits> hi=<bits>`      (also understood by drv_dubins)
//   path <s1> <s2>       -> `<W> <t> <p> <q> len=<l>` | `nopath`          DubinsStateSpace::dubins(s1, s2)
//   dab <d> <a> <b>      -> same                                          the free function ::dubins(d, alpha, beta)
//   dist <s1> <s2>       -> `d=<bits>` | `d=none`                          distance(s1, s2)
//   interp <s1> <s2> <t> -> `<x> <y> <yaw>` | `none`                       interpolate(s1, s2, t, out)
//   icache <s1> <s2> <n> <t1..tn> -> `<pose> | <pose> | …`             the caching overload interpolate(from, to, t, firstTime, path, state)
//                                                                         called n times with the same firstTime / path variables
//   endp <s1> <s2>       -> `rev=<b> <W> <t> <p> <q> | <x> <y> <yaw>`      the path interpolate() stores (after the
//                                                                         symmetric choice) and interpolate(from, path, 1.0, out, rho)
// header `rs rho=<bits> lo=<bits> hi=<bits>`                     (also understood by drv_dubins: Model/ReedsShepp.lean)
//   rspath <s1> <s2>     -> `<letters> <l0> .. <l4> len=<l>`               reedsShepp(s1, s2): 5 segment letters (L,S,R,N), signed lengths
//   rsinterp <s1> <s2> <t> -> `<x> <y> <yaw>`                              interpolate(s1, s2, t, out)
//   rscache <s1> <s2> <n> <t1..tn> -> `<pose> | <pose> | …`            the caching overload of ReedsSheppStateSpace::interpolate, as icache
//   rsend <s1> <s2>      -> `<x> <y> <yaw>`                                interpolate(from, reedsShepp(s1,s2), 1.0, out)  (protected; derived class)
//   both <s1> <s2>       -> `rs=<d> rsrev=<d> dub=<d> dubrev=<d>`          RS distance both ways, Dubins distance (same rho) both ways
// Aliasing (round 10): the interpolating ops accept a suffix on the op token, `interp@f` / `interp@t` (likewise icache, endp, ipath,
// rsinterp, rscache, rsend, rsipath, owinterp[r], vinterp, vointerp[r]): the OUTPUT state passed to the real code IS the `from` state
// (`@f`) resp. the `to` state (`@t`) instead of a separate scratch state, as StateSpace::interpolate allows ("overlapping memory").
// For the caching overloads from/to are re-set to <s1>/<s2> before every call of a sequence (firstTime / path are kept).
//   ipath <s1> <s2> <t>   -> `<x> <y> <yaw>` | `nopath`     interpolate(from, <the path interpolate() stores>, t, out, rho)  (path overload, any t)
//   rsipath <s1> <s2> <t> -> `<x> <y> <yaw>` | `nopath`     interpolate(from, reedsShepp(s1,s2), t, out)
// stdout is flushed after every line so that, if the process dies (sanitizer report, an `assert` of the
// inline header code), the check reads off which operation did it.  The cached libompl is built with
// -DNDEBUG, so the solvers' own asserts are compiled out: the check's oracle evaluates those identities.
// No hooks in /repo.
#include "common/proto.h"
#include <limits>
#include <ompl/base/spaces/DubinsStateSpace.h>
#include <ompl/base/spaces/ReedsSheppStateSpace.h>
#include <ompl/base/spaces/OwenStateSpace.h>
#include <ompl/base/spaces/VanaStateSpace.h>
#include <ompl/base/spaces/VanaOwenStateSpace.h>
#include <ompl/base/spaces/Dubins3DMotionValidator.h>
#include <ompl/base/SpaceInformation.h>

namespace ob = ompl::base;
using DSS = ob::DubinsStateSpace;
using RSS = ob::ReedsSheppStateSpace;
using Pose = ob::SE2StateSpace::StateType;

// defined (non-static, global namespace) in DubinsStateSpace.cpp
DSS::DubinsPath dubins(double d, double alpha, double beta);

struct RSX : RSS
{
    explicit RSX(double rho) : RSS(rho)
    {
    }
    using RSS::interpolate;
    void interpPath(const ob::State *from, const ReedsSheppPath &p, double t, ob::State *out) const
    {
        RSS::interpolate(from, p, t, out);
    }
};

static std::optional<double> kv(const std::string &key, const std::string &tok)
{
    if (tok.rfind(key + "=", 0) != 0)
        return std::nullopt;
    return vp::parseBits(tok.substr(key.size() + 1));
}

static bool setPose(Pose *s, const std::vector<std::string> &t, size_t i)
{
    auto x = vp::parseBits(t[i]), y = vp::parseBits(t[i + 1]), th = vp::parseBits(t[i + 2]);
    if (!x || !y || !th)
        return false;
    s->setXY(*x, *y);
    s->setYaw(*th);
    return true;
}

static std::string showPose(const Pose *s)
{
    return vp::bits(s->getX()) + " " + vp::bits(s->getY()) + " " + vp::bits(s->getYaw());
}

static bool isDefault(const DSS::DubinsPath &p)
{
    return p.length_[1] == std::numeric_limits<double>::max();
}

static bool rsDefault(const RSS::ReedsSheppPath &p)
{
    return p.length() == std::numeric_limits<double>::max();
}

static std::string wordName(const DSS::DubinsPath &p)
{
    static const char *names[6] = {"LSL", "RSR", "RSL", "LSR", "RLR", "LRL"};
    for (int i = 0; i < 6; ++i)
        if (p.type_ == &DSS::dubinsPathType()[i])
            return names[i];
    // a path type outside the table: print the letters
    std::string s = "?";
    for (int i = 0; i < 3; ++i)
        s += p.type_->at(i) == DSS::DUBINS_LEFT ? 'L' : p.type_->at(i) == DSS::DUBINS_STRAIGHT ? 'S' : 'R';
    return s;
}

static std::string showPath(const DSS::DubinsPath &p)
{
    return wordName(p) + " " + vp::bits(p.length_[0]) + " " + vp::bits(p.length_[1]) + " " + vp::bits(p.length_[2]);
}

static std::string showRes(const DSS::DubinsPath &p)
{
    if (isDefault(p))
        return "nopath";
    return showPath(p) + " len=" + vp::bits(p.length());
}

static void out(const std::string &s)
{
    std::cout << s << std::endl;
}

// `op@f` / `op@t`: splits the alias suffix off the op token; returns false for an unknown suffix
static bool splitAlias(std::string &op, char &alias)
{
    alias = 'n';
    auto at = op.find('@');
    if (at == std::string::npos)
        return true;
    std::string a = op.substr(at + 1);
    op.erase(at);
    if (a != "f" && a != "t")
        return false;
    alias = a[0];
    return true;
}

static bool aliasable(const std::string &op)
{
    static const char *ops[] = {"interp", "icache", "endp", "ipath", "rsinterp", "rscache", "rsend", "rsipath", "owinterp", "owinterpr",
                                "vinterp", "vointerp", "vointerpr"};
    for (auto o : ops)
        if (op == o)
            return true;
    return false;
}

// ---- real motion validators over a recording validity checker -------------------------------------------------------
// `<op> <2|3> <s1> <s2> <bound>`: valid iff coordinate `axis` of the asked state is <= bound.  Prints the verdict, nd, the
// longest valid segment length, every asked state in call order, lastValid (fraction and state) and the counter increments.
template <class Space, class MV, class ShowFn>
static std::string runValidator(const std::shared_ptr<Space> &space, MV &mv, std::vector<std::string> &asked, bool three, const ob::State *s1,
                                const ob::State *s2, ob::State *scratch, ShowFn show, bool havePath)
{
    // a degenerate path (e.g. a Vana path whose radius multiplier ran up to 1e8) makes nd millions: not driven
    if (havePath && space->validSegmentCount(s1, s2) > 5000)
        return "skipped nd=" + std::to_string(space->validSegmentCount(s1, s2));
    asked.clear();
    unsigned v0 = mv.getValidMotionCount(), i0 = mv.getInvalidMotionCount();
    bool res;
    std::string lv = "none";
    if (!three)
        res = mv.checkMotion(s1, s2);
    else
    {
        std::pair<ob::State *, double> last(scratch, -1.);
        space->copyState(scratch, s1);
        res = mv.checkMotion(s1, s2, last);
        if (last.second != -1.)
            lv = vp::bits(last.second) + ":" + show(scratch);
    }
    std::string q;
    for (auto &a : asked)
        q += (q.empty() ? "" : ";") + a;
    return std::string("res=") + (res ? "1" : "0") + " nd=" + (havePath ? std::to_string(space->validSegmentCount(s1, s2)) : std::string("-")) +
           " L=" + vp::bits(space->getLongestValidSegmentLength()) + " q=" + std::to_string(asked.size()) + " " + (q.empty() ? "-" : q) + " lv=" + lv +
           " dv=" + std::to_string(mv.getValidMotionCount() - v0) + " di=" + std::to_string(mv.getInvalidMotionCount() - i0);
}

static std::string showSE2(const ob::State *st)
{
    auto q = st->as<Pose>();
    return vp::bits(q->getX()) + "," + vp::bits(q->getY()) + "," + vp::bits(q->getYaw());
}

static int runDubins(double rho, bool sym, double lo, double hi)
{
    auto space = std::make_shared<DSS>(rho, sym);
    DSS &sp = *space;
    ob::RealVectorBounds b(2);
    b.setLow(lo);
    b.setHigh(hi);
    sp.setBounds(b);
    auto si = std::make_shared<ob::SpaceInformation>(space);
    double bound = 0;
    std::vector<std::string> asked;
    si->setStateValidityChecker([&](const ob::State *st) {
        asked.push_back(showSE2(st));
        return st->as<Pose>()->getX() <= bound;
    });
    si->setup();
    ob::DubinsMotionValidator mv(si);
    auto *s1 = sp.allocState()->as<Pose>();
    auto *s2 = sp.allocState()->as<Pose>();
    auto *o = sp.allocState()->as<Pose>();
    std::string line;
    while (vp::readLine(line))
    {
        auto t = vp::tokens(line);
        if (t.empty())
            continue;
        std::string op = t[0];
        char alias;
        if (!splitAlias(op, alias) || (alias != 'n' && !aliasable(op)))
        {
            out("bad-op");
            continue;
        }
        auto *dst = alias == 'f' ? s1 : alias == 't' ? s2 : o;
        if ((op == "dmv" && t.size() == 9 || op == "dmvr" && t.size() == 10) && (t[1] == "2" || t[1] == "3") && setPose(s1, t, 2) && setPose(s2, t, 5) &&
            vp::parseBits(t[8]))
        {
            // the real DubinsMotionValidator (valid iff x <= bound); `dmvr` carries the recorded L for drv_dubins (ignored here)
            bound = *vp::parseBits(t[8]);
            bool have = !isDefault(sp.dubins(s1, s2)) || (sym && !isDefault(sp.dubins(s2, s1)));
            out(have ? runValidator(space, mv, asked, t[1] == "3", s1, s2, o, showSE2, true) : std::string("nopath"));
        }
        else if (op == "path" && t.size() == 7 && setPose(s1, t, 1) && setPose(s2, t, 4))
            out(showRes(sp.dubins(s1, s2)));
        else if (op == "dab" && t.size() == 4 && vp::parseBits(t[1]) && vp::parseBits(t[2]) && vp::parseBits(t[3]))
            out(showRes(::dubins(*vp::parseBits(t[1]), *vp::parseBits(t[2]), *vp::parseBits(t[3]))));
        else if (op == "dist" && t.size() == 7 && setPose(s1, t, 1) && setPose(s2, t, 4))
        {
            bool none = isDefault(sp.dubins(s1, s2)) || (sym && isDefault(sp.dubins(s2, s1)));
            out(none ? "d=none" : "d=" + vp::bits(sp.distance(s1, s2)));
        }
        else if (op == "interp" && t.size() == 8 && setPose(s1, t, 1) && setPose(s2, t, 4) && vp::parseBits(t[7]))
        {
            double tt = *vp::parseBits(t[7]);
            bool inner = !(tt >= 1.) && !(tt <= 0.);
            if (inner && isDefault(sp.dubins(s1, s2)) && !(sym && !isDefault(sp.dubins(s2, s1))))
            {
                out("none");
                continue;
            }
            sp.interpolate(s1, s2, tt, dst);
            out(showPose(dst));
        }
        else if (op == "icache" && t.size() >= 8 && setPose(s1, t, 1) && setPose(s2, t, 4) && vp::parseNat(t[7]) &&
                 t.size() == 8 + *vp::parseNat(t[7]))
        {
            // the caching overload interpolate(from, to, t, firstTime, path, state), called repeatedly with the same firstTime / path
            bool first = true, ok = true;
            DSS::DubinsPath path;
            std::string res;
            for (size_t i = 8; i < t.size() && ok; ++i)
            {
                auto tt = vp::parseBits(t[i]);
                if (!tt)
                {
                    ok = false;
                    break;
                }
                setPose(s1, t, 1);  // from / to are restored before every call (the output may alias one of them)
                setPose(s2, t, 4);
                sp.interpolate(s1, s2, *tt, first, path, dst);
                if (!first && isDefault(path))
                {
                    res += (res.empty() ? "" : " | ") + std::string("nopath");
                    break;
                }
                res += (res.empty() ? "" : " | ") + showPose(dst);
            }
            out(ok ? res : "bad-op");
        }
        else if (op == "endp" && t.size() == 7 && setPose(s1, t, 1) && setPose(s2, t, 4))
        {
            bool first = true;
            DSS::DubinsPath path;
            sp.interpolate(s1, s2, 0.5, first, path, o);  // stores the chosen path
            if (isDefault(path))
            {
                out("nopath");
                continue;
            }
            sp.interpolate(s1, path, 1.0, dst, rho);
            out(std::string("rev=") + (path.reverse_ ? "1 " : "0 ") + showPath(path) + " | " + showPose(dst));
        }
        else if (op == "ipath" && t.size() == 8 && setPose(s1, t, 1) && setPose(s2, t, 4) && vp::parseBits(t[7]))
        {
            bool first = true;
            DSS::DubinsPath path;
            sp.interpolate(s1, s2, 0.5, first, path, o);  // stores the chosen path
            if (isDefault(path))
            {
                out("nopath");
                continue;
            }
            sp.interpolate(s1, path, *vp::parseBits(t[7]), dst, rho);
            out(showPose(dst));
        }
        else
            out("bad-op");
    }
    sp.freeState(s1);
    sp.freeState(s2);
    sp.freeState(o);
    return 0;
}

static int runRS(double rho, double lo, double hi)
{
    auto space = std::make_shared<RSX>(rho);
    RSX &sp = *space;
    ob::RealVectorBounds b(2);
    b.setLow(lo);
    b.setHigh(hi);
    sp.setBounds(b);
    auto si = std::make_shared<ob::SpaceInformation>(space);
    double bound = 0;
    std::vector<std::string> asked;
    si->setStateValidityChecker([&](const ob::State *st) {
        asked.push_back(showSE2(st));
        return st->as<Pose>()->getX() <= bound;
    });
    si->setup();
    ob::ReedsSheppMotionValidator mv(si);
    auto *s1 = sp.allocState()->as<Pose>();
    auto *s2 = sp.allocState()->as<Pose>();
    auto *o = sp.allocState()->as<Pose>();
    std::string line;
    while (vp::readLine(line))
    {
        auto t = vp::tokens(line);
        if (t.empty())
            continue;
        std::string op = t[0];
        char alias;
        if (!splitAlias(op, alias) || (alias != 'n' && !aliasable(op)))
        {
            out("bad-op");
            continue;
        }
        auto *dst = alias == 'f' ? s1 : alias == 't' ? s2 : o;
        if ((op == "rsmv" && t.size() == 9 || op == "rsmvr" && t.size() == 10) && (t[1] == "2" || t[1] == "3") && setPose(s1, t, 2) && setPose(s2, t, 5) &&
            vp::parseBits(t[8]))
        {
            // the real ReedsSheppMotionValidator (valid iff x <= bound)
            bound = *vp::parseBits(t[8]);
            out(!rsDefault(sp.reedsShepp(s1, s2)) ? runValidator(space, mv, asked, t[1] == "3", s1, s2, o, showSE2, true) : std::string("nopath"));
        }
        else if (op == "rspath" && t.size() == 7 && setPose(s1, t, 1) && setPose(s2, t, 4))
        {
            auto p = sp.reedsShepp(s1, s2);
            if (rsDefault(p))
            {
                out("nopath");
                continue;
            }
            std::string s;
            for (int i = 0; i < 5; ++i)
                s += p.type_[i] == RSS::RS_LEFT ? 'L' : p.type_[i] == RSS::RS_RIGHT ? 'R' : p.type_[i] == RSS::RS_STRAIGHT ? 'S' : 'N';
            for (double l : p.length_)
                s += " " + vp::bits(l);
            out(s + " len=" + vp::bits(p.length()));
        }
        else if (op == "rsinterp" && t.size() == 8 && setPose(s1, t, 1) && setPose(s2, t, 4) && vp::parseBits(t[7]))
        {
            double tt = *vp::parseBits(t[7]);
            if (!(tt >= 1.) && !(tt <= 0.) && rsDefault(sp.reedsShepp(s1, s2)))
            {
                out("none");
                continue;
            }
            sp.interpolate(s1, s2, tt, dst);
            out(showPose(dst));
        }
        else if (op == "rscache" && t.size() >= 8 && setPose(s1, t, 1) && setPose(s2, t, 4) && vp::parseNat(t[7]) &&
                 t.size() == 8 + *vp::parseNat(t[7]))
        {
            // the caching overload interpolate(from, to, t, firstTime, path, state), called repeatedly with the same firstTime / path
            bool first = true, ok = true;
            RSS::ReedsSheppPath path;
            std::string res;
            for (size_t i = 8; i < t.size() && ok; ++i)
            {
                auto tt = vp::parseBits(t[i]);
                if (!tt)
                {
                    ok = false;
                    break;
                }
                setPose(s1, t, 1);  // from / to are restored before every call (the output may alias one of them)
                setPose(s2, t, 4);
                sp.interpolate(s1, s2, *tt, first, path, dst);
                if (!first && rsDefault(path))
                {
                    res += (res.empty() ? "" : " | ") + std::string("nopath");
                    break;
                }
                res += (res.empty() ? "" : " | ") + showPose(dst);
            }
            out(ok ? res : "bad-op");
        }
        else if (op == "rsend" && t.size() == 7 && setPose(s1, t, 1) && setPose(s2, t, 4))
        {
            auto p = sp.reedsShepp(s1, s2);
            if (rsDefault(p))
            {
                out("nopath");
                continue;
            }
            sp.interpPath(s1, p, 1.0, dst);
            out(showPose(dst));
        }
        else if (op == "rsipath" && t.size() == 8 && setPose(s1, t, 1) && setPose(s2, t, 4) && vp::parseBits(t[7]))
        {
            auto p = sp.reedsShepp(s1, s2);
            if (rsDefault(p))
            {
                out("nopath");
                continue;
            }
            sp.interpPath(s1, p, *vp::parseBits(t[7]), dst);
            out(showPose(dst));
        }
        else if (op == "both" && t.size() == 7 && setPose(s1, t, 1) && setPose(s2, t, 4))
        {
            auto d = [&](const ob::State *a, const ob::State *b) {
                return rsDefault(sp.reedsShepp(a, b)) ? std::string("none") : vp::bits(sp.distance(a, b));
            };
            auto u = [&](const ob::State *a, const ob::State *b) {
                return isDefault(DSS::dubins(a, b, rho)) ? std::string("none") : vp::bits(DSS::distance(a, b, rho));
            };
            out("rs=" + d(s1, s2) + " rsrev=" + d(s2, s1) + " dub=" + u(s1, s2) + " dubrev=" + u(s2, s1));
        }
        else
            out("bad-op");
    }
    sp.freeState(s1);
    sp.freeState(s2);
    sp.freeState(o);
    return 0;
}

// header `owen rho=<bits> pitch=<bits> lo=<bits> hi=<bits>`  (states are `x y z yaw`)
//   owpath <s1> <s2>       -> `cat=<L|M|H|?> <W> <t> <p> <q> r=<turnRadius> dz=<deltaZ> phi=<phi> k=<numTurns> len=<length()>` | `nopath`
//   owdist <s1> <s2>       -> `d=<bits>`                       distance (getMaximumExtent() when there is no path)
//   owinterp <s1> <s2> <t> -> `<x> <y> <z> <yaw>`              interpolate(s1, s2, t, out)
// getPath uses boost's TOMS748 root bracketing (not modelled): drv_dubins takes the printed root (`r` for high-altitude,
// `phi` for medium-altitude paths) as a recorded answer in the `…r` variants of these ops and recomputes everything else:
//   owpathr <s1> <s2> <root>, owinterpr <s1> <s2> <t> <root>   (this harness ignores <root> and prints what the real code computes)
using OSS = ob::OwenStateSpace;

static bool setPose4(OSS::StateType *s, const std::vector<std::string> &t, size_t i)
{
    auto x = vp::parseBits(t[i]), y = vp::parseBits(t[i + 1]), z = vp::parseBits(t[i + 2]), th = vp::parseBits(t[i + 3]);
    if (!x || !y || !z || !th)
        return false;
    (*s)[0] = *x;
    (*s)[1] = *y;
    (*s)[2] = *z;
    s->yaw() = *th;
    return true;
}

static int runOwen(double rho, double pitch, double lo, double hi)
{
    auto space = std::make_shared<OSS>(rho, pitch);
    OSS &sp = *space;
    ob::RealVectorBounds b(3);
    b.setLow(lo);
    b.setHigh(hi);
    sp.setBounds(b);
    // for `owmv`: the real Dubins3DMotionValidator<OwenStateSpace> over a recording validity checker (valid iff z <= zmax)
    auto si = std::make_shared<ob::SpaceInformation>(space);
    double zmax = 0;
    std::vector<std::string> asked;
    si->setStateValidityChecker([&](const ob::State *st) {
        auto q = st->as<OSS::StateType>();
        asked.push_back(vp::bits((*q)[0]) + "," + vp::bits((*q)[1]) + "," + vp::bits((*q)[2]) + "," + vp::bits(q->yaw()));
        return (*q)[2] <= zmax;
    });
    si->setup();
    ob::Dubins3DMotionValidator<OSS> mv(si);
    auto *s1 = sp.allocState()->as<OSS::StateType>();
    auto *s2 = sp.allocState()->as<OSS::StateType>();
    auto *o = sp.allocState()->as<OSS::StateType>();
    std::string line;
    while (vp::readLine(line))
    {
        auto t = vp::tokens(line);
        if (t.empty())
            continue;
        std::string op = t[0];
        char alias;
        if (!splitAlias(op, alias) || (alias != 'n' && !aliasable(op)))
        {
            out("bad-op");
            continue;
        }
        auto *dst = alias == 'f' ? s1 : alias == 't' ? s2 : o;
        bool pathOp = (op == "owpath" && t.size() == 9) || (op == "owpathr" && t.size() == 10 && vp::parseBits(t[9]));
        bool interpOp = (op == "owinterp" && t.size() == 10) || (op == "owinterpr" && t.size() == 11 && vp::parseBits(t[10]));
        if (pathOp && setPose4(s1, t, 1) && setPose4(s2, t, 5))
        {
            auto p = sp.getPath(s1, s2);
            if (!p || isDefault(p->path_))
            {
                out("nopath");
                continue;
            }
            out(std::string("cat=") + static_cast<char>(p->category()) + " " + showPath(p->path_) + " r=" + vp::bits(p->turnRadius_) +
                " dz=" + vp::bits(p->deltaZ_) + " phi=" + vp::bits(p->phi_) + " k=" + std::to_string(p->numTurns_) +
                " len=" + vp::bits(p->length()));
        }
        else if ((op == "owmv" && t.size() == 11 || op == "owmvr" && t.size() == 13) && (t[1] == "2" || t[1] == "3") && setPose4(s1, t, 2) &&
                 setPose4(s2, t, 6) && vp::parseBits(t[10]))
        {
            // `owmv <2|3> <s1> <s2> <zmax>` (+ `<root|none> <L>` recorded answers for drv_dubins in the `owmvr` form; ignored here)
            zmax = *vp::parseBits(t[10]);
            if (sp.getPath(s1, s2) && sp.validSegmentCount(s1, s2) > 5000)
            {
                out("skipped nd=" + std::to_string(sp.validSegmentCount(s1, s2)));
                continue;
            }
            asked.clear();
            unsigned v0 = mv.getValidMotionCount(), i0 = mv.getInvalidMotionCount();
            bool res;
            std::string lv = "none";
            if (t[1] == "2")
                res = mv.checkMotion(s1, s2);
            else
            {
                std::pair<ob::State *, double> last(o, -1.);
                (*o)[0] = (*o)[1] = (*o)[2] = 0;
                o->yaw() = 0;
                res = mv.checkMotion(s1, s2, last);
                if (last.second != -1.)
                    lv = vp::bits(last.second) + ":" + vp::bits((*o)[0]) + "," + vp::bits((*o)[1]) + "," + vp::bits((*o)[2]) + "," + vp::bits(o->yaw());
            }
            auto p = sp.getPath(s1, s2);
            std::string q;
            for (auto &a : asked)
                q += (q.empty() ? "" : ";") + a;
            out(std::string("res=") + (res ? "1" : "0") + " nd=" + (p ? std::to_string(sp.validSegmentCount(s1, s2)) : std::string("-")) + " L=" +
                vp::bits(sp.getLongestValidSegmentLength()) + " q=" + std::to_string(asked.size()) + " " + (q.empty() ? "-" : q) + " lv=" + lv +
                " dv=" + std::to_string(mv.getValidMotionCount() - v0) + " di=" + std::to_string(mv.getInvalidMotionCount() - i0));
        }
        else if (op == "owdist" && t.size() == 9 && setPose4(s1, t, 1) && setPose4(s2, t, 5))
            out("d=" + vp::bits(sp.distance(s1, s2)));
        else if (interpOp && setPose4(s1, t, 1) && setPose4(s2, t, 5) && vp::parseBits(t[9]))
        {
            auto p = sp.getPath(s1, s2);
            if (p && isDefault(p->path_))
            {
                out("nopath");
                continue;
            }
            sp.interpolate(s1, s2, *vp::parseBits(t[9]), dst);
            out(vp::bits((*dst)[0]) + " " + vp::bits((*dst)[1]) + " " + vp::bits((*dst)[2]) + " " + vp::bits(dst->yaw()));
        }
        else
            out("bad-op");
    }
    sp.freeState(s1);
    sp.freeState(s2);
    sp.freeState(o);
    return 0;
}

// header `vana rho=<bits> pitch=<bits> lo=<bits> hi=<bits>`  (states are `x y z pitch yaw`; pitch range [-pitch, pitch])
//   vpath <s1> <s2>       -> `rh=<horizontalRadius> rv=<verticalRadius> XY <W> <t> <p> <q> SZ <W> <t> <p> <q> len=<length()>` | `nopath`
//   vinterp <s1> <s2> <t> -> `<x> <y> <z> <pitch> <yaw>`      interpolate(s1, s2, t, out)
// VanaStateSpace is deterministic (doubling search + step optimisation): drv_dubins recomputes everything.
using VSS = ob::VanaStateSpace;

static bool setPose5(VSS::StateType *s, const std::vector<std::string> &t, size_t i)
{
    double v[5];
    for (int k = 0; k < 5; ++k)
    {
        auto x = vp::parseBits(t[i + k]);
        if (!x)
            return false;
        v[k] = *x;
    }
    (*s)[0] = v[0];
    (*s)[1] = v[1];
    (*s)[2] = v[2];
    s->pitch() = v[3];
    s->yaw() = v[4];
    return true;
}

static int runVana(double rho, double pitch, double lo, double hi)
{
    auto space = std::make_shared<VSS>(rho, pitch);
    VSS &sp = *space;
    ob::RealVectorBounds b(3);
    b.setLow(lo);
    b.setHigh(hi);
    sp.setBounds(b);
    auto show5 = [](const ob::State *st) {
        auto q = st->as<VSS::StateType>();
        return vp::bits((*q)[0]) + "," + vp::bits((*q)[1]) + "," + vp::bits((*q)[2]) + "," + vp::bits(q->pitch()) + "," + vp::bits(q->yaw());
    };
    auto si = std::make_shared<ob::SpaceInformation>(space);
    double bound = 0;
    std::vector<std::string> asked;
    si->setStateValidityChecker([&](const ob::State *st) {
        asked.push_back(show5(st));
        return (*st->as<VSS::StateType>())[2] <= bound;
    });
    si->setup();
    ob::Dubins3DMotionValidator<VSS> mv(si);
    auto *s1 = sp.allocState()->as<VSS::StateType>();
    auto *s2 = sp.allocState()->as<VSS::StateType>();
    auto *o = sp.allocState()->as<VSS::StateType>();
    std::string line;
    while (vp::readLine(line))
    {
        auto t = vp::tokens(line);
        if (t.empty())
            continue;
        std::string op = t[0];
        char alias;
        if (!splitAlias(op, alias) || (alias != 'n' && !aliasable(op)))
        {
            out("bad-op");
            continue;
        }
        auto *dst = alias == 'f' ? s1 : alias == 't' ? s2 : o;
        if ((op == "vmv" && t.size() == 13 || op == "vmvr" && t.size() == 14) && (t[1] == "2" || t[1] == "3") && setPose5(s1, t, 2) && setPose5(s2, t, 7) &&
            vp::parseBits(t[12]))
        {
            // the real Dubins3DMotionValidator<VanaStateSpace> (valid iff z <= bound)
            bound = *vp::parseBits(t[12]);
            out(runValidator(space, mv, asked, t[1] == "3", s1, s2, o, show5, static_cast<bool>(sp.getPath(s1, s2))));
        }
        else if (op == "vpath" && t.size() == 11 && setPose5(s1, t, 1) && setPose5(s2, t, 6))
        {
            auto p = sp.getPath(s1, s2);
            if (!p || isDefault(p->pathXY_) || isDefault(p->pathSZ_))
            {
                out("nopath");
                continue;
            }
            out("rh=" + vp::bits(p->horizontalRadius_) + " rv=" + vp::bits(p->verticalRadius_) + " XY " + showPath(p->pathXY_) + " SZ " +
                showPath(p->pathSZ_) + " len=" + vp::bits(p->length()));
        }
        else if (op == "vinterp" && t.size() == 12 && setPose5(s1, t, 1) && setPose5(s2, t, 6) && vp::parseBits(t[11]))
        {
            sp.interpolate(s1, s2, *vp::parseBits(t[11]), dst);
            out(vp::bits((*dst)[0]) + " " + vp::bits((*dst)[1]) + " " + vp::bits((*dst)[2]) + " " + vp::bits(dst->pitch()) + " " + vp::bits(dst->yaw()));
        }
        else
            out("bad-op");
    }
    sp.freeState(s1);
    sp.freeState(s2);
    sp.freeState(o);
    return 0;
}

// header `vanaowen rho=<bits> pitch=<bits> lo=<bits> hi=<bits>`  (states are `x y z pitch yaw`)
//   vopath <s1> <s2>        -> `cat=<c> rh=<> rv=<> dz=<> phi=<> k=<n> XY <W> <t> <p> <q> SZ <W> <t> <p> <q> sz0=<x>,<y>,<yaw> len=<length()>` | `nopath`
//   vointerp <s1> <s2> <t>  -> `<x> <y> <z> <pitch> <yaw>`
//   vointerpr <s1> <s2> <t> <path fields…>  -> same (the extra tokens are the recorded path for drv_dubins; ignored here)
// getPath runs root searches inside its radius search (not modelled): drv_dubins takes the whole printed path as a recorded
// answer and recomputes `interpolate` from it.
using VOS = ob::VanaOwenStateSpace;

static bool setPose5o(VOS::StateType *s, const std::vector<std::string> &t, size_t i)
{
    double v[5];
    for (int k = 0; k < 5; ++k)
    {
        auto x = vp::parseBits(t[i + k]);
        if (!x)
            return false;
        v[k] = *x;
    }
    (*s)[0] = v[0];
    (*s)[1] = v[1];
    (*s)[2] = v[2];
    s->pitch() = v[3];
    s->yaw() = v[4];
    return true;
}

static int runVanaOwen(double rho, double pitch, double lo, double hi)
{
    auto space = std::make_shared<VOS>(rho, pitch);
    VOS &sp = *space;
    ob::RealVectorBounds b(3);
    b.setLow(lo);
    b.setHigh(hi);
    sp.setBounds(b);
    auto show5 = [](const ob::State *st) {
        auto q = st->as<VOS::StateType>();
        return vp::bits((*q)[0]) + "," + vp::bits((*q)[1]) + "," + vp::bits((*q)[2]) + "," + vp::bits(q->pitch()) + "," + vp::bits(q->yaw());
    };
    auto si = std::make_shared<ob::SpaceInformation>(space);
    double bound = 0;
    std::vector<std::string> asked;
    si->setStateValidityChecker([&](const ob::State *st) {
        asked.push_back(show5(st));
        return (*st->as<VOS::StateType>())[2] <= bound;
    });
    si->setup();
    ob::Dubins3DMotionValidator<VOS> mv(si);
    auto *s1 = sp.allocState()->as<VOS::StateType>();
    auto *s2 = sp.allocState()->as<VOS::StateType>();
    auto *o = sp.allocState()->as<VOS::StateType>();
    std::string line;
    while (vp::readLine(line))
    {
        auto t = vp::tokens(line);
        if (t.empty())
            continue;
        std::string op = t[0];
        char alias;
        if (!splitAlias(op, alias) || (alias != 'n' && !aliasable(op)))
        {
            out("bad-op");
            continue;
        }
        auto *dst = alias == 'f' ? s1 : alias == 't' ? s2 : o;
        if ((op == "vomv" && t.size() == 13 || op == "vomvr" && t.size() > 14) && (t[1] == "2" || t[1] == "3") && setPose5o(s1, t, 2) && setPose5o(s2, t, 7) &&
            vp::parseBits(t[12]))
        {
            // the real Dubins3DMotionValidator<VanaOwenStateSpace> (valid iff z <= bound); `vomvr` carries L and the recorded path (ignored here)
            bound = *vp::parseBits(t[12]);
            out(runValidator(space, mv, asked, t[1] == "3", s1, s2, o, show5, static_cast<bool>(sp.getPath(s1, s2))));
        }
        else if (op == "vopath" && t.size() == 11 && setPose5o(s1, t, 1) && setPose5o(s2, t, 6))
        {
            auto p = sp.getPath(s1, s2);
            if (!p || isDefault(p->pathXY_) || isDefault(p->pathSZ_))
            {
                out("nopath");
                continue;
            }
            out(std::string("cat=") + static_cast<char>(p->category()) + " rh=" + vp::bits(p->horizontalRadius_) + " rv=" +
                vp::bits(p->verticalRadius_) + " dz=" + vp::bits(p->deltaZ_) + " phi=" + vp::bits(p->phi_) + " k=" +
                std::to_string(p->numTurns_) + " XY " + showPath(p->pathXY_) + " SZ " + showPath(p->pathSZ_) + " sz0=" +
                vp::bits(p->startSZ_->getX()) + "," + vp::bits(p->startSZ_->getY()) + "," + vp::bits(p->startSZ_->getYaw()) +
                " len=" + vp::bits(p->length()));
        }
        else if ((op == "vointerp" && t.size() == 12 || op == "vointerpr" && t.size() > 12) && setPose5o(s1, t, 1) && setPose5o(s2, t, 6) &&
                 vp::parseBits(t[11]))
        {
            sp.interpolate(s1, s2, *vp::parseBits(t[11]), dst);
            out(vp::bits((*dst)[0]) + " " + vp::bits((*dst)[1]) + " " + vp::bits((*dst)[2]) + " " + vp::bits(dst->pitch()) + " " + vp::bits(dst->yaw()));
        }
        else
            out("bad-op");
    }
    sp.freeState(s1);
    sp.freeState(s2);
    sp.freeState(o);
    return 0;
}

int main()
{
    std::string line;
    if (!vp::readLine(line))
        return 2;
    auto h = vp::tokens(line);
    if (h.size() == 5 && h[0] == "dubins" && kv("rho", h[1]) && (h[2] == "sym=0" || h[2] == "sym=1") && kv("lo", h[3]) &&
        kv("hi", h[4]))
        return runDubins(*kv("rho", h[1]), h[2] == "sym=1", *kv("lo", h[3]), *kv("hi", h[4]));
    // optional 5th token `zero=<bits>`: tells drv_dubins the ZERO constant of the ReedsSheppStateSpace.cpp under test (ignored here)
    if (h.size() == 5 && h[0] == "rs" && h[4].rfind("zero=", 0) == 0)
        h.pop_back();
    if (h.size() == 4 && h[0] == "rs" && kv("rho", h[1]) && kv("lo", h[2]) && kv("hi", h[3]))
        return runRS(*kv("rho", h[1]), *kv("lo", h[2]), *kv("hi", h[3]));
    if (h.size() == 5 && h[0] == "vanaowen" && kv("rho", h[1]) && kv("pitch", h[2]) && kv("lo", h[3]) && kv("hi", h[4]))
        return runVanaOwen(*kv("rho", h[1]), *kv("pitch", h[2]), *kv("lo", h[3]), *kv("hi", h[4]));
    // optional 6th token `lastarc=<0|1>`: tells drv_dubins which validity test of decoupled() the source under test has (ignored here)
    if (h.size() == 6 && h[0] == "vana" && h[5].rfind("lastarc=", 0) == 0)
        h.pop_back();
    if (h.size() == 5 && h[0] == "vana" && kv("rho", h[1]) && kv("pitch", h[2]) && kv("lo", h[3]) && kv("hi", h[4]))
        return runVana(*kv("rho", h[1]), *kv("pitch", h[2]), *kv("lo", h[3]), *kv("hi", h[4]));
    // optional 6th token `absphi=<0|1>`: tells drv_dubins whether PathType::length() of the source under test uses |phi_| (ignored here)
    if (h.size() == 6 && h[0] == "owen" && h[5].rfind("absphi=", 0) == 0)
        h.pop_back();
    if (h.size() == 5 && h[0] == "owen" && kv("rho", h[1]) && kv("pitch", h[2]) && kv("lo", h[3]) && kv("hi", h[4]))
        return runOwen(*kv("rho", h[1]), *kv("pitch", h[2]), *kv("lo", h[3]), *kv("hi", h[4]));
    std::cout << "bad-header\n";
    return 2;
}
