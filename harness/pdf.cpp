// C12 harness: drives the real ompl::PDF<int> from /repo/src through the line protocol.
// The element payload is the handle number (order of creation).  `private` is opened for this
// translation unit only (harness side, no source hook) to read data_, tree_ and Element::index_:
// after every op the dump lists the element order, each element's index_ field and every tree row
// as u64 bit patterns.
// Compiled with -D_GLIBCXX_ASSERTIONS -D_GLIBCXX_SANITIZE_VECTOR (see checks/c12.py) so that a
// vector read past size() aborts deterministically even when it stays inside the capacity.
#include "common/proto.h"
#include <vector>
#include <sstream>
#include <memory>
#include "ompl/util/Exception.h"
#define private public
#include "ompl/datastructures/PDF.h"
#undef private

using P = ompl::PDF<int>;

static std::vector<P::Element *> handles;  // creation order; nullptr once removed

static std::string dump(P &p)
{
    std::string s = "n=" + std::to_string(p.size());
    s += " ord=";
    for (size_t i = 0; i < p.data_.size(); ++i)
        s += (i ? "," : "") + std::to_string(p.data_[i]->data_);
    s += " ix=";
    for (size_t i = 0; i < p.data_.size(); ++i)
        s += (i ? "," : "") + std::to_string(p.data_[i]->index_);
    s += " rows=" + std::to_string(p.tree_.size());
    for (const auto &row : p.tree_)
    {
        s += " [" + std::to_string(row.size()) + ":";
        for (size_t j = 0; j < row.size(); ++j)
            s += (j ? "," : "") + vp::bits(row[j]);
        s += "]";
    }
    return s;
}

int main()
{
    std::string line;
    if (!vp::readLine(line))
        return 2;
    auto hdr = vp::tokens(line);
    // `pdf old` selects the pre-fix descent in the *model*; the real code is whatever the tree has.
    if (!((hdr.size() == 1 && hdr[0] == "pdf") || (hdr.size() == 2 && hdr[0] == "pdf" && hdr[1] == "old")))
    {
        std::cout << "bad-header\n";
        return 2;
    }
    auto pdfp = std::make_unique<P>();   // replaceable: `ctor` puts a PDF(data, weights) object under test
#define pdf (*pdfp)
    auto fin = [&](const std::string &res) { std::cout << res << " | " << dump(pdf) << std::endl; };
    auto alive = [&](size_t h) { return h < handles.size() && handles[h] != nullptr; };

    while (vp::readLine(line))
    {
        auto t = vp::tokens(line);
        if (t.empty())
            continue;
        const std::string &op = t[0];
        if (op == "add" && t.size() == 2 && vp::parseBits(t[1]))
        {
            double w = *vp::parseBits(t[1]);
            try
            {
                P::Element *e = pdf.add((int)handles.size(), w);
                handles.push_back(e);
                fin("h=" + std::to_string(e->data_));
            }
            catch (const ompl::Exception &)
            {
                fin("err-neg");
            }
        }
        else if (op == "upd" && t.size() == 3 && vp::parseNat(t[1]) && vp::parseBits(t[2]))
        {
            size_t h = *vp::parseNat(t[1]);
            if (!alive(h)) { fin("dead"); continue; }
            try
            {
                pdf.update(handles[h], *vp::parseBits(t[2]));
                fin("ok");
            }
            catch (const ompl::Exception &)
            {
                fin("err");
            }
        }
        else if (op == "rm" && t.size() == 2 && vp::parseNat(t[1]))
        {
            size_t h = *vp::parseNat(t[1]);
            if (!alive(h)) { fin("dead"); continue; }
            pdf.remove(handles[h]);
            handles[h] = nullptr;
            fin("ok");
        }
        else if (op == "smp" && t.size() == 2 && vp::parseBits(t[1]))
        {
            double r = *vp::parseBits(t[1]);
            bool empty = pdf.empty();
            try
            {
                int d = pdf.sample(r);
                fin("h=" + std::to_string(d));
            }
            catch (const ompl::Exception &)
            {
                fin(empty ? "err-empty" : "err-range");
            }
        }
        else if (op == "w" && t.size() == 2 && vp::parseNat(t[1]))
        {
            size_t h = *vp::parseNat(t[1]);
            if (!alive(h)) { fin("dead"); continue; }
            fin("w=" + vp::bits(pdf.getWeight(handles[h])));
        }
        else if (op == "emp" && t.size() == 1)
        {
            fin(std::string("e=") + (pdf.empty() ? "1" : "0") + " sz=" + std::to_string(pdf.size()) +
                " els=" + std::to_string(pdf.getElements().size()));
        }
        else if (op == "at" && t.size() == 2 && vp::parseNat(t[1]))
        {
            size_t i = *vp::parseNat(t[1]);
            if (i >= pdf.size())
                fin("oob");  // operator[] is unchecked: not called out of range
            else
                fin("d=" + std::to_string(pdf[(unsigned int)i]));
        }
        else if (op == "print" && t.size() == 1)
        {
            // printTree's text goes after ` || ` (stripped before the model comparison, checked by the oracle)
            std::ostringstream os;
            pdf.printTree(os);
            std::string txt = os.str(), flat;
            for (char c : txt)
                flat += (c == '\n') ? '/' : c;
            std::cout << "ok | " << dump(pdf) << " || " << flat << std::endl;
        }
        else if (op == "ctor")
        {
            // PDF(data, weights) replaces the structure under test; the history then continues on the constructed object
            size_t i = 1;
            auto xs = vp::takeCounted(t, i);
            bool ok = xs && i == t.size();
            std::vector<double> ws;
            std::vector<int> ds;
            if (ok)
                for (auto &x : *xs)
                {
                    auto v = vp::parseBits(x);
                    if (!v) { ok = false; break; }
                    ds.push_back((int)ws.size());
                    ws.push_back(*v);
                }
            if (!ok) { std::cout << "bad-op" << std::endl; continue; }
            try
            {
                auto fresh = std::make_unique<P>(ds, ws);
                pdfp = std::move(fresh);
                handles.clear();
                for (auto *e : pdf.getElements())
                    handles.push_back(e);
                fin("ok");
            }
            catch (const ompl::Exception &)
            {
                fin("err-neg");
            }
        }
        else if (op == "bulk")
        {
            size_t i = 1;
            auto xs = vp::takeCounted(t, i);
            bool ok = xs && i == t.size();
            std::vector<double> ws;
            std::vector<int> ds;
            if (ok)
                for (auto &x : *xs)
                {
                    auto v = vp::parseBits(x);
                    if (!v) { ok = false; break; }
                    ds.push_back((int)ws.size());
                    ws.push_back(*v);
                }
            if (!ok) { std::cout << "bad-op" << std::endl; continue; }
            try
            {
                P tmp(ds, ws);   // the (data, weights) constructor
                fin("bulk " + dump(tmp));
            }
            catch (const ompl::Exception &)
            {
                fin("err-neg");
            }
        }
        else if (op == "clear" && t.size() == 1)
        {
            for (auto &e : handles) e = nullptr;
            pdf.clear();
            fin("ok");
        }
        else
            std::cout << "bad-op" << std::endl;
    }
    return 0;
}
