// C12 harness: drives the real ompl::PDF<int> from /repo/src through the line protocol.
// The element payload is the handle number (order of creation).  `private` is opened for this
// translation unit only (harness side, no source hook) to read data_, tree_ and Element::index_:
// after every op the dump lists the element order, each element's index_ field and every tree row
// as u64 bit patterns.
// Compiled with -D_GLIBCXX_ASSERTIONS -D_GLIBCXX_SANITIZE_VECTOR (see checks/c12.py) so that a
// vector read past size() aborts deterministically even when it stays inside the capacity.
#include "common/proto.h"
#include <vector>
#include "ompl/util/Exception.h"
#define private public
#include "ompl/datastructures/PDF.h"
#undef private

using P = ompl::PDF<int>;

static std::vector<P::Element *> handles;  // creation order; nullptr once removed

static std::string dump(P &p)
{
    std::string s = "n=" + std::to_string(p.size());
    s += " ord=";
    for (size_t i = 0; i < p.data_.size(); ++i)
        s += (i ? "," : "") + std::to_string(p.data_[i]->data_);
    s += " ix=";
    for (size_t i = 0; i < p.data_.size(); ++i)
        s += (i ? "," : "") + std::to_string(p.data_[i]->index_);
    s += " rows=" + std::to_string(p.tree_.size());
    for (const auto &row : p.tree_)
    {
        s += " [" + std::to_string(row.size()) + ":";
        for (size_t j = 0; j < row.size(); ++j)
            s += (j ? "," : "") + vp::bits(row[j]);
        s += "]";
    }
    return s;
}

int main()
{
    std::string line;
    if (!vp::readLine(line))
        return 2;
    auto hdr = vp::tokens(line);
    // `pdf old` selects the pre-fix descent in the *model*; the real code is whatever the tree has.
    if (!((hdr.size() == 1 && hdr[0] == "pdf") || (hdr.size() == 2 && hdr[0] == "pdf" && hdr[1] == "old")))
    {
        std::cout << "bad-header\n";
        return 2;
    }
    P pdf;
    auto fin = [&](const std::string &res) { std::cout << res << " | " << dump(pdf) << std::endl; };
    auto alive = [&](size_t h) { return h < handles.size() && handles[h] != nullptr; };

    while (vp::readLine(line))
    {
        auto t = vp::tokens(line);
        if (t.empty())
            continue;
        const std::string &op = t[0];
        if (op == "add" && t.size() == 2 && vp::parseBits(t[1]))
        {
            double w = *vp::parseBits(t[1]);
            try
            {
                P::Element *e = pdf.add((int)handles.size(), w);
                handles.push_back(e);
                fin("h=" + std::to_string(e->data_));
            }
            catch (const ompl::Exception &)
            {
                fin("err-neg");
            }
        }
        else if (op == "upd" && t.size() == 3 && vp::parseNat(t[1]) && vp::parseBits(t[2]))
        {
            size_t h = *vp::parseNat(t[1]);
            if (!alive(h)) { fin("dead"); continue; }
            try
            {
                pdf.update(handles[h], *vp::parseBits(t[2]));
                fin("ok");
            }
            catch (const ompl::Exception &)
            {
                fin("err");
            }
        }
        else if (op == "rm" && t.size() == 2 && vp::parseNat(t[1]))
        {
            size_t h = *vp::parseNat(t[1]);
            if (!alive(h)) { fin("dead"); continue; }
            pdf.remove(handles[h]);
            handles[h] = nullptr;
            fin("ok");
        }
        else if (op == "smp" && t.size() == 2 && vp::parseBits(t[1]))
        {
            double r = *vp::parseBits(t[1]);
            bool empty = pdf.empty();
            try
            {
                int d = pdf.sample(r);
                fin("h=" + std::to_string(d));
            }
            catch (const ompl::Exception &)
            {
                fin(empty ? "err-empty" : "err-range");
            }
        }
        else if (op == "w" && t.size() == 2 && vp::parseNat(t[1]))
        {
            size_t h = *vp::parseNat(t[1]);
            if (!alive(h)) { fin("dead"); continue; }
            fin("w=" + vp::bits(pdf.getWeight(handles[h])));
        }
        else if (op == "clear" && t.size() == 1)
        {
            for (auto &e : handles) e = nullptr;
            pdf.clear();
            fin("ok");
        }
        else
            std::cout << "bad-op" << std::endl;
    }
    return 0;
}
