// C13 (round 3) harness: runs the REAL ompl::geometric::KPIECE1 on an R^n box environment and prints, at every
// evaluation of the termination condition (= once per loop iteration) and at the end, the full planner state: the
// tree (motion ids in order of creation, parents, state bits) and the discretization (cell table and both heap arrays
// as in harness/discretization.cpp), plus one record per iteration of every oracle answer the planner received (the
// state that ended up in xstate and where it came from, the three-argument checkMotion answer with lastValid, the goal
// distance and the projection coordinate of the added state).  checks/c13.py turns the records into the script of the
// Lean model (lean/OmplModel/Driver/KPIECE1.lean) and compares the two state sequences line by line.
// `private`/`protected` are opened for KPIECE1.h (and the discretization/grid/heap headers it includes) in this
// translation unit only: disc_, its grid and heaps are read, and the planner's rng_ and disc_.rng_ are reseeded with
// setLocalSeed before solve() (the Lean driver replays both streams with the RNG model of C20).
//
// input: `kpiece` | `dim n` | `bounds lo*n hi*n` | `boxes k (lo*n hi*n)*k` | `res r` | `start s*n` (repeatable) |
//        `goal s*n` | `thr t` | `range r` | `goalbias b` | `bf b` | `fsf f` | `mvf f` | `seeds planner disc global` |
//        `iters k` | `go`        (doubles as u64 bit patterns)
#include "common/proto.h"
#include <Eigen/Core>
#include <algorithm>
#include <map>
#include <memory>
#include <vector>
#include "ompl/base/Planner.h"
#include "ompl/base/PlannerData.h"
#include "ompl/base/ProblemDefinition.h"
#include "ompl/base/SpaceInformation.h"
#include "ompl/base/DiscreteMotionValidator.h"
#include "ompl/base/goals/GoalState.h"
#include "ompl/base/goals/GoalSampleableRegion.h"
#include "ompl/base/spaces/RealVectorStateSpace.h"
#include "ompl/base/spaces/RealVectorStateProjections.h"
#include "ompl/geometric/PathGeometric.h"
#include "ompl/util/Console.h"
#include "ompl/util/RandomNumbers.h"
#define private public
#define protected public
#include "ompl/datastructures/BinaryHeap.h"
#include "ompl/datastructures/GridB.h"
#include "ompl/geometric/planners/kpiece/Discretization.h"
#include "ompl/geometric/planners/kpiece/KPIECE1.h"
#undef private
#undef protected

namespace ob = ompl::base;
namespace og = ompl::geometric;

static unsigned N = 2;

static std::string sbits(const ob::State *s)
{
    const auto *rv = s->as<ob::RealVectorStateSpace::StateType>();
    std::string out;
    for (unsigned i = 0; i < N; ++i)
        out += (i ? "," : "") + vp::bits(rv->values[i]);
    return out;
}

struct Rec
{
    char tag = '?';
    std::string x, exs, xs, frac, dist = "-", coord = "-";
    const ob::State *exPtr = nullptr;
    int cm = -1;
    bool haveDist = false;
};
static Rec cur;
static bool curOpen = false;

class RecSampler : public ob::StateSampler
{
public:
    RecSampler(const ob::StateSpace *sp, ob::StateSamplerPtr inner) : ob::StateSampler(sp), inner_(std::move(inner)) {}
    void sampleUniform(ob::State *s) override { inner_->sampleUniform(s); }
    void sampleUniformNear(ob::State *s, const ob::State *near, double d) override
    {
        inner_->sampleUniformNear(s, near, d);
        cur.tag = 'n';
    }
    void sampleGaussian(ob::State *s, const ob::State *mean, double sd) override { inner_->sampleGaussian(s, mean, sd); }

private:
    ob::StateSamplerPtr inner_;
};

class RecGoal : public ob::GoalSampleableRegion
{
public:
    RecGoal(const ob::SpaceInformationPtr &si, std::shared_ptr<ob::GoalState> inner)
      : ob::GoalSampleableRegion(si), inner_(std::move(inner))
    {
    }
    double distanceGoal(const ob::State *st) const override
    {
        double d = inner_->distanceGoal(st);
        cur.dist = vp::bits(d);
        cur.haveDist = true;
        return d;
    }
    void sampleGoal(ob::State *st) const override
    {
        inner_->sampleGoal(st);
        cur.tag = 'g';
    }
    unsigned int maxSampleCount() const override { return inner_->maxSampleCount(); }

private:
    std::shared_ptr<ob::GoalState> inner_;
};

class RecMV : public ob::MotionValidator
{
public:
    RecMV(const ob::SpaceInformationPtr &si) : ob::MotionValidator(si), inner_(si) {}
    bool checkMotion(const ob::State *s1, const ob::State *s2) const override { return inner_.checkMotion(s1, s2); }
    bool checkMotion(const ob::State *s1, const ob::State *s2, std::pair<ob::State *, double> &lastValid) const override
    {
        cur.x = sbits(s2);
        cur.exs = sbits(s1);
        cur.exPtr = s1;
        bool r = inner_.checkMotion(s1, s2, lastValid);
        cur.cm = r ? 1 : 0;
        cur.frac = vp::bits(lastValid.second);
        cur.xs = sbits(s2);   // lastValid.first is the planner's xstate == s2
        curOpen = true;
        return r;
    }

private:
    ob::DiscreteMotionValidator inner_;
};

using D = og::Discretization<og::KPIECE1::Motion>;
static std::map<const void *, long> motionId;   // Motion* -> id (creation order)
static std::map<const void *, long> stateOwner; // State* -> motion id
static std::map<const void *, long> cellId;
static long nextCell = 0;

static std::string joinC(const std::vector<std::string> &v)
{
    if (v.empty())
        return "-";
    std::string s;
    for (size_t i = 0; i < v.size(); ++i)
        s += (i ? "," : "") + v[i];
    return s;
}

// assign ids to motions not seen yet: start motions by matching the problem's start states in order, later motions
// one at a time (an iteration creates at most one)
static void discover(og::KPIECE1 &p, const std::vector<std::string> &startStates, bool first)
{
    std::vector<D::Cell *> cells;
    p.disc_.grid_.getCells(cells);
    std::vector<og::KPIECE1::Motion *> fresh;
    for (auto *c : cells)
    {
        if (!cellId.count(c))
            cellId[c] = -1;
        for (auto *m : c->data->motions)
            if (!motionId.count(m))
                fresh.push_back(m);
    }
    if (first)
    {
        std::vector<bool> used(fresh.size(), false);
        for (auto &ss : startStates)
            for (size_t j = 0; j < fresh.size(); ++j)
                if (!used[j] && sbits(fresh[j]->state) == ss)
                {
                    used[j] = true;
                    long id = (long)motionId.size();
                    motionId[fresh[j]] = id;
                    stateOwner[fresh[j]->state] = id;
                    break;
                }
    }
    else
        for (auto *m : fresh)
        {
            long id = (long)motionId.size();
            motionId[m] = id;
            stateOwner[m->state] = id;
        }
    // cells are numbered in order of creation = order of the first motion they received
    std::vector<std::pair<long, D::Cell *>> order;
    for (auto *c : cells)
        if (cellId[c] < 0)
        {
            long mn = -1;
            for (auto *m : c->data->motions)
            {
                auto it = motionId.find(m);
                if (it != motionId.end() && (mn < 0 || it->second < mn))
                    mn = it->second;
            }
            order.emplace_back(mn, c);
        }
    std::sort(order.begin(), order.end());
    for (auto &o : order)
        cellId[o.second] = nextCell++;
}

static std::string dump(og::KPIECE1 &p)
{
    auto &d = p.disc_;
    auto &g = d.grid_;
    unsigned dim = g.getDimension();
    std::vector<D::Cell *> cells;
    g.getCells(cells);
    std::sort(cells.begin(), cells.end(), [](D::Cell *a, D::Cell *b) { return cellId.at(a) < cellId.at(b); });
    std::string s = "size=" + std::to_string(d.size_) + " iter=" + std::to_string(d.iteration_) +
                    " bf=" + vp::bits(d.selectBorderFraction_) + " tbl=" + std::to_string(g.size());
    s += " | n=" + std::to_string(g.size());
    auto mid = [](const void *m) {
        auto it = motionId.find(m);
        return it == motionId.end() ? std::string("?") : std::to_string(it->second);
    };
    for (auto *c : cells)
    {
        std::vector<std::string> xs, ms;
        for (unsigned i = 0; i < dim; ++i)
            xs.push_back(std::to_string(c->coord[i]));
        for (auto *m : c->data->motions)
            ms.push_back(mid(m));
        s += " " + std::to_string(cellId.at(c)) + ":" + joinC(xs) + ":" + std::to_string(c->neighbors) + ":" +
             (c->border ? "1" : "0") + ":" + joinC(ms) + ":" + vp::bits(c->data->coverage) + ":" +
             std::to_string(c->data->selections) + ":" + vp::bits(c->data->score) + ":" + std::to_string(c->data->iteration) +
             ":" + vp::bits(c->data->importance);
    }
    std::vector<std::string> hi, he;
    for (auto *e : g.internal_.vector_)
        hi.push_back(std::to_string(cellId.at(static_cast<D::Cell *>(e->data))));
    for (auto *e : g.external_.vector_)
        he.push_back(std::to_string(cellId.at(static_cast<D::Cell *>(e->data))));
    s += " | I=" + joinC(hi) + " E=" + joinC(he);
    // the tree, by motion id
    std::vector<const og::KPIECE1::Motion *> byId(motionId.size(), nullptr);
    for (auto &kv : motionId)
        byId[kv.second] = static_cast<const og::KPIECE1::Motion *>(kv.first);
    s += " | tree n=" + std::to_string(byId.size());
    for (auto *m : byId)
        s += " " + (m->parent ? mid(m->parent) : std::string("-1")) + ":" + sbits(m->state);
    return s;
}

int main()
{
    ompl::msg::setLogLevel(ompl::msg::LOG_NONE);
    std::string line;
    if (!vp::readLine(line) || vp::tokens(line) != std::vector<std::string>{"kpiece"})
    {
        std::cout << "bad-header\n";
        return 2;
    }
    std::vector<double> lo, hi, goalv;
    std::vector<std::vector<double>> boxes, starts;
    double res = 0.01, thr = 0.1, range = 0.0, goalbias = 0.05, bf = 0.9, fsf = 0.5, mvf = 0.2;
    unsigned long seedP = 1, seedD = 2, seedG = 3, iters = 10;
    auto dbl = [](const std::string &t) { return *vp::parseBits(t); };
    try
    {
        while (vp::readLine(line))
        {
            auto t = vp::tokens(line);
            if (t.empty())
                continue;
            const std::string &op = t[0];
            if (op == "go")
                break;
            else if (op == "dim" && t.size() == 2)
                N = (unsigned)std::stoul(t[1]);
            else if (op == "bounds" && t.size() == 1 + 2 * N)
            {
                for (unsigned i = 0; i < N; ++i) lo.push_back(dbl(t[1 + i]));
                for (unsigned i = 0; i < N; ++i) hi.push_back(dbl(t[1 + N + i]));
            }
            else if (op == "boxes" && t.size() >= 2 && t.size() == 2 + std::stoul(t[1]) * 2 * N)
            {
                size_t k = std::stoul(t[1]);
                for (size_t b = 0; b < k; ++b)
                {
                    std::vector<double> bx;
                    for (unsigned i = 0; i < 2 * N; ++i) bx.push_back(dbl(t[2 + b * 2 * N + i]));
                    boxes.push_back(bx);
                }
            }
            else if (op == "res" && t.size() == 2) res = dbl(t[1]);
            else if (op == "start" && t.size() == 1 + N)
            {
                std::vector<double> s;
                for (unsigned i = 0; i < N; ++i) s.push_back(dbl(t[1 + i]));
                starts.push_back(s);
            }
            else if (op == "goal" && t.size() == 1 + N)
                for (unsigned i = 0; i < N; ++i) goalv.push_back(dbl(t[1 + i]));
            else if (op == "thr" && t.size() == 2) thr = dbl(t[1]);
            else if (op == "range" && t.size() == 2) range = dbl(t[1]);
            else if (op == "goalbias" && t.size() == 2) goalbias = dbl(t[1]);
            else if (op == "bf" && t.size() == 2) bf = dbl(t[1]);
            else if (op == "fsf" && t.size() == 2) fsf = dbl(t[1]);
            else if (op == "mvf" && t.size() == 2) mvf = dbl(t[1]);
            else if (op == "seeds" && t.size() == 4)
            {
                seedP = std::stoul(t[1]);
                seedD = std::stoul(t[2]);
                seedG = std::stoul(t[3]);
            }
            else if (op == "iters" && t.size() == 2) iters = std::stoul(t[1]);
            else
            {
                std::cout << "bad-op " << line << "\n";
                return 2;
            }
        }
    }
    catch (...)
    {
        std::cout << "bad-op\n";
        return 2;
    }
    if (lo.size() != N || goalv.size() != N || (N != 2 && N != 3))
    {
        std::cout << "bad-problem\n";
        return 2;
    }
    ompl::RNG::setSeed(seedG);
    auto space = std::make_shared<ob::RealVectorStateSpace>(N);
    ob::RealVectorBounds b(N);
    for (unsigned i = 0; i < N; ++i)
    {
        b.setLow(i, lo[i]);
        b.setHigh(i, hi[i]);
    }
    space->setBounds(b);
    if (N == 3)
    {
        // R^3: the default projection would be a RANDOM linear map (drawn from the global RNG); an orthogonal projection
        // on the first two components with the same default cell sizes (extent / 20) is registered instead.  Explicit
        // cell sizes make it `userConfigured()`, otherwise StateSpace::setup() replaces it by the random one.
        std::vector<double> cellSizes{(hi[0] - lo[0]) / 20.0, (hi[1] - lo[1]) / 20.0};
        space->registerDefaultProjection(std::make_shared<ob::RealVectorOrthogonalProjectionEvaluator>(
            space.get(), cellSizes, std::vector<unsigned int>{0, 1}));
    }
    space->setStateSamplerAllocator([](const ob::StateSpace *sp) -> ob::StateSamplerPtr {
        return std::make_shared<RecSampler>(sp, sp->allocDefaultStateSampler());
    });
    auto si = std::make_shared<ob::SpaceInformation>(space);
    si->setStateValidityChecker([&boxes](const ob::State *s) {
        const auto *rv = s->as<ob::RealVectorStateSpace::StateType>();
        for (auto &bx : boxes)
        {
            bool in = true;
            for (unsigned i = 0; i < N; ++i)
                if (rv->values[i] < bx[i] || rv->values[i] > bx[N + i])
                    in = false;
            if (in)
                return false;
        }
        return true;
    });
    si->setStateValidityCheckingResolution(res);
    si->setMotionValidator(std::make_shared<RecMV>(si));
    si->setup();
    auto pdef = std::make_shared<ob::ProblemDefinition>(si);
    std::vector<std::string> okStarts;
    for (size_t k = 0; k < starts.size(); ++k)
    {
        ob::ScopedState<> st(space);
        for (unsigned i = 0; i < N; ++i)
            st[i] = starts[k][i];
        pdef->addStartState(st);
    }
    auto gs = std::make_shared<ob::GoalState>(si);
    {
        ob::ScopedState<> g(space);
        for (unsigned i = 0; i < N; ++i)
            g[i] = goalv[i];
        gs->setState(g);
        gs->setThreshold(thr);
    }
    auto goal = std::make_shared<RecGoal>(si, gs);
    goal->setThreshold(thr);
    pdef->setGoal(goal);
    int rc = 0;
    {
        og::KPIECE1 planner(si);
        if (range > 0.0)
            planner.setRange(range);
        planner.setGoalBias(goalbias);
        planner.setBorderFraction(bf);
        planner.setFailedExpansionCellScoreFactor(fsf);
        planner.setMinValidPathFraction(mvf);
        planner.setProblemDefinition(pdef);
        planner.setup();
        auto proj = planner.getProjectionEvaluator();
        auto coordOf = [&](const ob::State *s) {
            Eigen::VectorXi c(proj->getDimension());
            proj->computeCoordinates(s, c);
            std::vector<std::string> xs;
            for (int i = 0; i < c.size(); ++i)
                xs.push_back(std::to_string(c[i]));
            return joinC(xs);
        };
        std::cout << "cfg pdim=" << proj->getDimension() << " range=" << vp::bits(planner.getRange()) << std::endl;
        for (size_t k = 0; k < starts.size(); ++k)
        {
            const ob::State *st = pdef->getStartState(k);
            bool okb = si->satisfiesBounds(st);
            bool ok = okb && si->isValid(st);
            std::cout << "start i=" << k << " ok=" << (ok ? 1 : 0) << " state=" << sbits(st) << " coord=" << coordOf(st)
                      << std::endl;
            if (ok)
                okStarts.push_back(sbits(st));
        }
        planner.rng_.setLocalSeed(seedP);
        planner.disc_.rng_.setLocalSeed(seedD);
        unsigned long evals = 0;
        auto flushRec = [&]() {
            if (!curOpen)
                return;
            bool keep = cur.cm == 1 || dbl(cur.frac) > mvf;
            auto it = stateOwner.find(cur.exPtr);
            std::cout << "rec tag=" << cur.tag << " x=" << cur.x << " ex=" << (it == stateOwner.end() ? -1 : it->second)
                      << " exs=" << cur.exs << " cm=" << cur.cm << " frac=" << cur.frac << " xs=" << cur.xs
                      << " keep=" << (keep ? 1 : 0) << " dist=" << (cur.haveDist ? cur.dist : std::string("-"));
            if (keep)
            {
                // the projection coordinate of the state left in xstate (== the added motion's state)
                ob::ScopedState<> tmp(space);
                auto toks = cur.xs;
                size_t pos = 0;
                for (unsigned i = 0; i < N; ++i)
                {
                    size_t nx = toks.find(',', pos);
                    tmp[i] = dbl(toks.substr(pos, nx == std::string::npos ? std::string::npos : nx - pos));
                    pos = nx + 1;
                }
                std::cout << " coord=" << coordOf(tmp.get());
            }
            else
                std::cout << " coord=-";
            std::cout << std::endl;
            cur = Rec();
            curOpen = false;
        };
        ob::PlannerTerminationCondition ptc([&]() {
            ++evals;
            flushRec();
            discover(planner, okStarts, evals == 1);
            std::cout << "st " << dump(planner) << std::endl;
            return evals > iters;
        });
        ob::PlannerStatus status = planner.solve(ptc);
        bool brokeOut = curOpen;
        flushRec();
        discover(planner, okStarts, evals == 0);
        std::string path = "-";
        bool approx = false;
        std::string dif = "-";
        if (pdef->hasSolution())
        {
            auto *pg = pdef->getSolutionPath()->as<og::PathGeometric>();
            path.clear();
            for (size_t i = 0; i < pg->getStateCount(); ++i)
                path += (i ? ";" : "") + sbits(pg->getState(i));
            approx = pdef->hasApproximateSolution();
            dif = vp::bits(pdef->getSolutionDifference());
        }
        std::cout << "final status=" << status.asString() << " nsol=" << pdef->getSolutionCount() << " approx=" << (approx ? 1 : 0)
                  << " dif=" << dif << " broke=" << (brokeOut ? 1 : 0) << " evals=" << evals << " path=" << path << std::endl;
        std::cout << "st " << dump(planner) << std::endl;
        ob::PlannerData pd(si);
        planner.getPlannerData(pd);
        std::cout << "pd v=" << pd.numVertices() << " e=" << pd.numEdges() << " s=" << pd.numStartVertices()
                  << " g=" << pd.numGoalVertices() << std::endl;
    }
    return rc;
}
