// C18, finding F480: the *unmodified* src/ompl/base/src/PlannerTerminationCondition.cpp of the tree under test is
// compiled into this program with -fsanitize=float-cast-overflow (the shared libompl is not instrumented), so the
// conversions periodicEval() makes from the period - `count = 0.5 + period_ / 0.001` (double -> unsigned int) and
// time::seconds()'s `(long)sec` - are checked for every period a script hands to the public constructor or to
// timedPlannerTerminationCondition(duration, interval).  One line per input: `ok` once the poller thread has
// called the predicate (count and s are computed before the first call) and the condition has been destroyed.
// A conversion out of range makes UBSan stop the program (exit code 98, message on stderr).
#include "common/proto.h"
#include <atomic>
#include <chrono>
#include <thread>
#include <ompl/util/Console.h>
#include <ompl/base/PlannerTerminationCondition.h>
#include <ompl/base/src/PlannerTerminationCondition.cpp>

namespace ob = ompl::base;

int main()
{
    ompl::msg::noOutputHandler();
    std::string line;
    while (vp::readLine(line))
    {
        auto t = vp::tokens(line);
        if (t.empty())
            continue;
        if (t[0] == "poll" && t.size() == 2 && vp::parseBits(t[1]))
        {
            std::atomic<int> calls{0};
            {
                ob::PlannerTerminationCondition c([&calls] { ++calls; return false; }, *vp::parseBits(t[1]));
                auto t0 = std::chrono::steady_clock::now();
                while (*vp::parseBits(t[1]) > 0.0 && calls.load() == 0 &&
                       std::chrono::steady_clock::now() - t0 < std::chrono::seconds(10))
                    std::this_thread::sleep_for(std::chrono::microseconds(200));
                c.terminate();
            }
            std::cout << "ok\n";
        }
        else if (t[0] == "timedp" && t.size() == 3 && vp::parseBits(t[1]) && vp::parseBits(t[2]))
        {
            {
                ob::PlannerTerminationCondition c = ob::timedPlannerTerminationCondition(*vp::parseBits(t[1]), *vp::parseBits(t[2]));
                std::this_thread::sleep_for(std::chrono::milliseconds(20));
                c.terminate();
            }
            std::cout << "ok\n";
        }
        else
            std::cout << "bad-op\n";
        std::cout.flush();
    }
    return 0;
}
