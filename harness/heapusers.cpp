// C11 engine "heapusers": the USERS of ompl::BinaryHeap named by the property's anchors, driven through their public
// APIs, with the underlying heap array dumped after every operation.
//
//   gridb    ompl::GridB<CellData*, MoreImportant> with a neighbour-count-dependent importance callback (the shape of
//            KPIECE's Discretization::computeImportance), default and lowered interior limits, bounds set/unset
//   disc     ompl::geometric::Discretization<Motion> (addMotion / removeMotion / selectMotion / updateCell)
//   rq       eitstar::ReverseQueue standalone (cost- and effort-ordered), keys changed through the State fields it reads
//   fq       eitstar::ForwardQueue standalone (NOT a BinaryHeap in this tree: an unordered_map scanned by peek/pop; only
//            its size/lookup bookkeeping and "pop(inf) returns a least-effort edge" are observed)
//   planner  BIT*/ABIT*/AIT*/EIT*/EIRM* on 2-D box problems; `solve k` runs until the k-th poll of the termination
//            condition and the planner's queues are dumped after each return
//   ranks    a BinaryHeap<long> whose array is injected as given (no build): the targeted search of the check replays a
//            dumped rank array on the real percolate code (remove some slots, pop everything)
//
// A dump of one heap is `H <name> n=<size> live=<user's own live count|-> hk=<handles ok 0|1|-> swo=<0|1> : r:p[:id] … ;
// drain=<ranks>`: for each slot the element's RANK under the heap's comparator (stable sort of a copy of the contents
// with that comparator; ties share a rank; `swo` says whether "lt(a,b) <-> rank a < rank b" held for the pairs tested, i.e.
// the comparator behaves as a strict weak order on the contents) and its position field.  `drain` is what popping
// everything yields: a second BinaryHeap (same template, instantiated over slot numbers with the user's comparator applied
// to the user's data) gets the same array order injected and is popped until empty, so the user's heap is not disturbed.
//
// `private`/`protected` are opened for the heap/grid/queue/planner headers in this translation unit only (harness side;
// no /repo edit).  All operations on the users go through their public API.
#include "common/proto.h"
#include <Eigen/Core>
#include <algorithm>
#include <array>
#include <atomic>
#include <cmath>
#include <functional>
#include <limits>
#include <list>
#include <map>
#include <memory>
#include <mutex>
#include <numeric>
#include <set>
#include <sstream>
#include <thread>
#include <tuple>
#include <unordered_map>
#include <unordered_set>
#include <utility>
#include <vector>
#include "ompl/base/Cost.h"
#include "ompl/base/OptimizationObjective.h"
#include "ompl/base/Planner.h"
#include "ompl/base/PlannerData.h"
#include "ompl/base/ProblemDefinition.h"
#include "ompl/base/SpaceInformation.h"
#include "ompl/base/goals/GoalState.h"
#include "ompl/base/goals/GoalStates.h"
#include "ompl/base/objectives/PathLengthOptimizationObjective.h"
#include "ompl/base/samplers/InformedStateSampler.h"
#include "ompl/base/spaces/RealVectorStateSpace.h"
#include "ompl/datastructures/NearestNeighbors.h"
#include "ompl/geometric/PathGeometric.h"
#include "ompl/util/Console.h"
#include "ompl/util/Exception.h"
#include "ompl/util/RandomNumbers.h"
#define private public
#define protected public
#include "ompl/datastructures/BinaryHeap.h"
#include "ompl/datastructures/GridB.h"
#include "ompl/geometric/planners/kpiece/Discretization.h"
#include "ompl/geometric/planners/informedtrees/BITstar.h"
#include "ompl/geometric/planners/informedtrees/ABITstar.h"
#include "ompl/geometric/planners/informedtrees/bitstar/Vertex.h"
#include "ompl/geometric/planners/informedtrees/bitstar/SearchQueue.h"
#include "ompl/geometric/planners/informedtrees/AITstar.h"
#include "ompl/geometric/planners/informedtrees/EITstar.h"
#include "ompl/geometric/planners/informedtrees/EIRMstar.h"
#include "ompl/geometric/planners/informedtrees/eitstar/Edge.h"
#include "ompl/geometric/planners/informedtrees/eitstar/State.h"
#include "ompl/geometric/planners/informedtrees/eitstar/Vertex.h"
#include "ompl/geometric/planners/informedtrees/eitstar/ForwardQueue.h"
#include "ompl/geometric/planners/informedtrees/eitstar/ReverseQueue.h"
#undef private
#undef protected
#include "common/planning.h"

namespace ob = ompl::base;
namespace og = ompl::geometric;

// ------------------------------------------------------------------------------------------------ generic heap dump
template <class T, class Judge>
static void ranksOf(const std::vector<T> &data, Judge judge, std::vector<unsigned> &rank, bool &swo)
{
    const size_t n = data.size();
    std::vector<size_t> idx(n);
    std::iota(idx.begin(), idx.end(), 0);
    std::stable_sort(idx.begin(), idx.end(), [&](size_t a, size_t b) { return judge(data[a], data[b]); });
    rank.assign(n, 0);
    unsigned r = 0;
    for (size_t k = 0; k < n; ++k)
    {
        if (k > 0 && judge(data[idx[k - 1]], data[idx[k]]))
            ++r;
        rank[idx[k]] = r;
    }
    swo = true;
    auto test = [&](size_t i, size_t j) {
        if (judge(data[i], data[j]) != (rank[i] < rank[j]))
            swo = false;
    };
    if (n <= 160)
    {
        for (size_t i = 0; i < n; ++i)
            for (size_t j = 0; j < n; ++j)
                test(i, j);
    }
    else
    {
        uint64_t s = 0x9E3779B97F4A7C15ull ^ n;
        for (int k = 0; k < 30000; ++k)
        {
            s = s * 6364136223846793005ull + 1442695040888963407ull;
            size_t i = (s >> 33) % n;
            s = s * 6364136223846793005ull + 1442695040888963407ull;
            size_t j = (s >> 33) % n;
            test(i, j);
        }
        for (size_t k = 0; k + 1 < n; ++k)
        {
            test(idx[k], idx[k + 1]);
            test(idx[k + 1], idx[k]);
        }
    }
}

// pop a copy: the same BinaryHeap template over slot numbers, array order injected as is (no build)
template <class T, class Own>
static std::vector<size_t> drainCopy(const std::vector<T> &data, Own own)
{
    using IdxCmp = std::function<bool(size_t, size_t)>;
    using IH = ompl::BinaryHeap<size_t, IdxCmp>;
    IH h(IdxCmp([&](size_t a, size_t b) { return own(data[a], data[b]); }));
    for (size_t i = 0; i < data.size(); ++i)
        h.vector_.push_back(h.newElement(i, i));
    std::vector<size_t> out;
    while (!h.empty())
    {
        out.push_back(h.top()->data);
        h.pop();
    }
    return out;
}

// `live` < 0: the user exposes no count of its own; hk < 0: handles not checked
template <class Heap, class Own, class Judge, class IdFn>
static std::string dumpHeap(const std::string &name, Heap &h, Own own, Judge judge, long live, int hk, bool drain, IdFn idOf)
{
    using T = decltype(h.vector_[0]->data);
    std::vector<typename std::decay<T>::type> data;
    data.reserve(h.vector_.size());
    for (auto *e : h.vector_)
        data.push_back(e->data);
    std::vector<unsigned> rank;
    bool swo = true;
    ranksOf(data, judge, rank, swo);
    std::string s = "H " + name + " n=" + std::to_string(h.size()) + " live=" + (live < 0 ? std::string("-") : std::to_string(live)) +
                    " hk=" + (hk < 0 ? std::string("-") : std::to_string(hk)) + " swo=" + (swo ? "1" : "0") + " :";
    for (size_t i = 0; i < data.size(); ++i)
    {
        s += " " + std::to_string(rank[i]) + ":" + std::to_string(h.vector_[i]->position);
        std::string id = idOf(data[i]);
        if (!id.empty())
            s += ":" + id;
    }
    s += " ; drain=";
    if (!drain || data.empty())
        s += "-";
    else
    {
        auto order = drainCopy(data, own);
        for (size_t k = 0; k < order.size(); ++k)
            s += (k ? "," : "") + std::to_string(rank[order[k]]);
    }
    return s;
}

static long needInt(const std::string &s)
{
    auto v = vp::parseInt(s);
    if (!v)
        throw std::runtime_error("int");
    return *v;
}

static std::map<std::string, std::string> kv(const std::vector<std::string> &t, size_t from)
{
    std::map<std::string, std::string> m;
    for (size_t i = from; i < t.size(); ++i)
    {
        auto p = t[i].find('=');
        if (p != std::string::npos)
            m[t[i].substr(0, p)] = t[i].substr(p + 1);
    }
    return m;
}

static std::vector<long> csvInts(const std::string &s)
{
    std::vector<long> out;
    std::string cur;
    for (char c : s + ",")
        if (c == ',')
        {
            if (!cur.empty())
                out.push_back(needInt(cur));
            cur.clear();
        }
        else
            cur += c;
    return out;
}

// ================================================================================================ gridb
namespace gridb
{
    struct CD
    {
        double score{1.0};
        double coverage{1.0};
        unsigned selections{1};
        double importance{0.0};
    };
    struct MoreImportant
    {
        bool operator()(const CD *a, const CD *b) const
        {
            return a->importance > b->importance;
        }
    };
    using Grid = ompl::GridB<CD *, MoreImportant>;
    using Cell = Grid::Cell;
    using CellX = Grid::CellX;

    static void computeImportance(Cell *cell, void *)
    {
        CD &cd = *cell->data;
        cd.importance = cd.score / ((cell->neighbors + 1) * cd.coverage * cd.selections);
    }

    static std::string coordId(const Grid::Coord &c)
    {
        std::string s;
        for (int i = 0; i < c.size(); ++i)
            s += (i ? "," : "") + std::to_string(c[i]);
        return s;
    }

    template <class G>
    static std::string dumpGrid(G &g, bool drain = true)
    {
        std::vector<typename G::Cell *> cells;
        g.getCells(cells);
        long nInt = 0, nExt = 0;
        std::set<const void *> inI, inE;
        for (auto *e : g.internal_.vector_)
            inI.insert(e);
        for (auto *e : g.external_.vector_)
            inE.insert(e);
        int hk = 1;
        for (auto *c : cells)
        {
            (c->border ? nExt : nInt)++;
            auto *cx = static_cast<typename G::CellX *>(c);
            const void *he = cx->heapElement;
            if (c->border)
            {
                if (!inE.count(he))
                    hk = 0;
                else
                {
                    auto *el = reinterpret_cast<typename G::externalBHeap::Element *>(cx->heapElement);
                    if (el->data != cx || el->position >= g.external_.vector_.size() || g.external_.vector_[el->position] != el)
                        hk = 0;
                }
            }
            else
            {
                if (!inI.count(he))
                    hk = 0;
                else
                {
                    auto *el = reinterpret_cast<typename G::internalBHeap::Element *>(cx->heapElement);
                    if (el->data != cx || el->position >= g.internal_.vector_.size() || g.internal_.vector_[el->position] != el)
                        hk = 0;
                }
            }
        }
        auto id = [](typename G::CellX *c) { return coordId(c->coord); };
        return dumpHeap("int", g.internal_, g.internal_.lt_, g.internal_.lt_, nInt, hk, drain, id) + " | " +
               dumpHeap("ext", g.external_, g.external_.lt_, g.external_.lt_, nExt, hk, drain, id);
    }

    static int run(const std::vector<std::string> &hdr)
    {
        auto m = kv(hdr, 1);
        unsigned dim = needInt(m.at("dim"));
        Grid g(dim);
        // cb=1 (default): the KPIECE configuration - the key `importance` is written by the registered cell-update callback only.
        // cb=0: NO callback is registered (the configuration of tests/datastructures/gridb.cpp): the order reads what the USER wrote,
        //       so the harness writes `importance` itself whenever the script writes a cell's data (add / upd / poke); a `poke` is then
        //       an in-place key change that the user must follow by update(cell) or updateAll().
        const bool cb = !m.count("cb") || m.at("cb") != "0";
        if (cb)
            g.onCellUpdate(&computeImportance, nullptr);
        auto userKey = [&](CD &d) {
            if (!cb)
                d.importance = d.score / (d.coverage * d.selections);
        };
        if (m.at("limit") != "default")
            g.setInteriorCellNeighborLimit(needInt(m.at("limit")));
        if (m.at("bounds") != "none")
        {
            auto p = m.at("bounds").find(':');
            auto lo = csvInts(m.at("bounds").substr(0, p)), hi = csvInts(m.at("bounds").substr(p + 1));
            Grid::Coord l(dim), u(dim);
            for (unsigned i = 0; i < dim; ++i)
            {
                l[i] = lo.at(i);
                u[i] = hi.at(i);
            }
            g.setBounds(l, u);
        }
        auto fin = [&](const std::string &res) { std::cout << res << " | " << dumpGrid(g) << "\n"; };
        std::string line;
        while (vp::readLine(line))
        {
            auto t = vp::tokens(line);
            if (t.empty())
                continue;
            try
            {
                const std::string &op = t[0];
                auto coordAt = [&](size_t from) {
                    Grid::Coord c(dim);
                    for (unsigned i = 0; i < dim; ++i)
                        c[i] = needInt(t.at(from + i));
                    return c;
                };
                auto dataAt = [&](size_t from, CD &d) {
                    d.score = (double)needInt(t.at(from));
                    d.coverage = (double)needInt(t.at(from + 1));
                    d.selections = (unsigned)needInt(t.at(from + 2));
                    if (d.coverage <= 0 || d.selections == 0)
                        throw std::runtime_error("data");
                };
                if (op == "add" && t.size() == 1 + dim + 3)
                {
                    auto c = coordAt(1);
                    if (g.getCell(c))
                    {
                        fin("exists");
                        continue;
                    }
                    CD d;
                    dataAt(1 + dim, d);
                    userKey(d);
                    Cell *cell = g.createCell(c);
                    cell->data = new CD(d);
                    g.add(cell);
                    fin("ok");
                }
                else if (op == "rm" && t.size() == 1 + dim)
                {
                    Cell *cell = g.getCell(coordAt(1));
                    if (!cell)
                    {
                        fin("absent");
                        continue;
                    }
                    g.remove(cell);
                    delete cell->data;
                    g.destroyCell(cell);
                    fin("ok");
                }
                else if ((op == "upd" || op == "poke") && t.size() == 1 + dim + 3)
                {
                    Cell *cell = g.getCell(coordAt(1));
                    if (!cell)
                    {
                        fin("absent");
                        continue;
                    }
                    CD d;
                    dataAt(1 + dim, d);
                    cell->data->score = d.score;
                    cell->data->coverage = d.coverage;
                    cell->data->selections = d.selections;
                    userKey(*cell->data);
                    if (op == "upd")
                        g.update(cell);
                    fin("ok");
                }
                else if (op == "updall" && t.size() == 1)
                {
                    g.updateAll();
                    fin("ok");
                }
                else if (op == "orphan" && t.size() == 1 + dim)
                {
                    // createCell (neighbours are told) but never add; then remove() (neighbours are told again) and destroy
                    auto c = coordAt(1);
                    if (g.getCell(c))
                    {
                        fin("exists");
                        continue;
                    }
                    Cell *cell = g.createCell(c);
                    cell->data = nullptr;
                    bool r = g.remove(cell);
                    g.destroyCell(cell);
                    fin(r ? "removed" : "ok");
                }
                else if (op == "clear" && t.size() == 1)
                {
                    for (auto it = g.begin(); it != g.end(); ++it)
                        delete it->second->data;
                    g.clear();
                    fin("ok");
                }
                else if (op == "top" && t.size() == 1)
                {
                    Cell *a = g.topInternal(), *b = g.topExternal();
                    fin("ti=" + (a ? coordId(a->coord) : std::string("-")) + " te=" + (b ? coordId(b->coord) : std::string("-")));
                }
                else
                    std::cout << "bad-op\n";
            }
            catch (const std::exception &)
            {
                std::cout << "bad-op\n";
            }
        }
        for (auto it = g.begin(); it != g.end(); ++it)
            delete it->second->data;
        g.clear();
        return 0;
    }
}  // namespace gridb

// ================================================================================================ disc
namespace disc
{
    struct Motion
    {
        long id{-1};
    };
    using D = og::Discretization<Motion>;

    static int run(const std::vector<std::string> &hdr)
    {
        auto m = kv(hdr, 1);
        unsigned dim = needInt(m.at("dim"));
        std::map<long, std::pair<Motion *, D::Coord>> motions;
        D d([&](Motion *mo) {
            motions.erase(mo->id);
            delete mo;
        });
        d.setDimension(dim);
        if (m.at("limit") != "default")
            d.grid_.setInteriorCellNeighborLimit(needInt(m.at("limit")));
        long nextId = 0;
        auto fin = [&](const std::string &res) {
            std::cout << res << " size=" << d.getMotionCount() << " cells=" << d.getCellCount() << " | " << gridb::dumpGrid(d.grid_) << "\n";
        };
        std::string line;
        while (vp::readLine(line))
        {
            auto t = vp::tokens(line);
            if (t.empty())
                continue;
            try
            {
                const std::string &op = t[0];
                if (op == "addm" && t.size() == 1 + dim + 1)
                {
                    D::Coord c(dim);
                    for (unsigned i = 0; i < dim; ++i)
                        c[i] = needInt(t[1 + i]);
                    auto *mo = new Motion();
                    mo->id = nextId++;
                    motions[mo->id] = {mo, c};
                    unsigned created = d.addMotion(mo, c, (double)needInt(t[1 + dim]));
                    fin("m=" + std::to_string(mo->id) + " created=" + std::to_string(created));
                }
                else if (op == "rmm" && t.size() == 2)
                {
                    auto it = motions.find(needInt(t[1]));
                    if (it == motions.end())
                    {
                        fin("dead");
                        continue;
                    }
                    Motion *mo = it->second.first;
                    bool found = d.removeMotion(mo, it->second.second);
                    motions.erase(mo->id);
                    delete mo;
                    fin(found ? "ok" : "notfound");
                }
                else if (op == "sel" && t.size() == 3)
                {
                    if (d.getCellCount() == 0)
                    {
                        fin("empty");
                        continue;
                    }
                    d.rng_.setLocalSeed((std::uint_fast32_t)needInt(t[1]));
                    Motion *sm = nullptr;
                    D::Cell *sc = nullptr;
                    d.selectMotion(sm, sc);
                    long pct = needInt(t[2]);
                    if (pct > 0)
                    {
                        sc->data->score *= (double)pct / 100.0;
                        d.updateCell(sc);
                    }
                    fin("cell=" + gridb::coordId(sc->coord) + " m=" + std::to_string(sm->id));
                }
                else if (op == "iter" && t.size() == 1)
                {
                    d.countIteration();
                    fin("ok");
                }
                else if (op == "clear" && t.size() == 1)
                {
                    d.clear();
                    fin("ok");
                }
                else
                    std::cout << "bad-op\n";
            }
            catch (const std::exception &)
            {
                std::cout << "bad-op\n";
            }
        }
        d.clear();
        return 0;
    }
}  // namespace disc

// ================================================================================================ EIT* queues standalone
namespace eitq
{
    namespace eit = og::eitstar;
    using StatePtr = std::shared_ptr<eit::State>;

    struct World
    {
        std::shared_ptr<ob::RealVectorStateSpace> space;
        std::shared_ptr<ob::SpaceInformation> si;
        std::shared_ptr<ob::OptimizationObjective> obj;
        std::vector<StatePtr> states;
        std::vector<std::shared_ptr<eit::Vertex>> rverts;  // keeps the reverse vertices (and their queue lookups) alive
        std::map<size_t, size_t> indexOfId;

        World()
        {
            space = std::make_shared<ob::RealVectorStateSpace>(1);
            space->setBounds(0.0, 100.0);
            si = std::make_shared<ob::SpaceInformation>(space);
            si->setStateValidityChecker([](const ob::State *) { return true; });
            si->setup();  // longest valid segment = 1 -> validSegmentCount(a, b) = |a - b| on the integer lattice
            obj = std::make_shared<ob::PathLengthOptimizationObjective>(si);
        }

        size_t addState(long x, long ctg, long etg, long lbctc, long lbetc, long inadm)
        {
            auto s = std::make_shared<eit::State>(si, obj);
            s->raw()->as<ob::RealVectorStateSpace::StateType>()->values[0] = (double)x;
            s->setAdmissibleCostToGo(ob::Cost((double)ctg));
            s->setEstimatedCostToGo(ob::Cost((double)ctg));
            s->setLowerBoundCostToGo(ob::Cost((double)ctg));
            s->setEstimatedEffortToGo((std::size_t)etg);
            s->setLowerBoundCostToCome(ob::Cost((double)lbctc));
            s->setCurrentCostToCome(ob::Cost((double)lbctc));
            s->setLowerBoundEffortToCome((unsigned)lbetc);
            s->setInadmissibleEffortToCome((unsigned)inadm);
            indexOfId[s->getId()] = states.size();
            states.push_back(s);
            rverts.push_back(s->asReverseVertex());
            return states.size() - 1;
        }

        std::string edgeId(const eit::Edge &e) const
        {
            return std::to_string(indexOfId.at(e.source->getId())) + ">" + std::to_string(indexOfId.at(e.target->getId()));
        }

        bool setField(size_t i, const std::string &f, long v)
        {
            auto &s = states.at(i);
            if (f == "actg")
                s->setAdmissibleCostToGo(ob::Cost((double)v));
            else if (f == "ectg")
                s->setEstimatedCostToGo(ob::Cost((double)v));
            else if (f == "eetg")
                s->setEstimatedEffortToGo((std::size_t)v);
            else if (f == "lbctc")
                s->setLowerBoundCostToCome(ob::Cost((double)v));
            else if (f == "cctc")
                s->setCurrentCostToCome(ob::Cost((double)v));
            else if (f == "lbetc")
                s->setLowerBoundEffortToCome((unsigned)v);
            else if (f == "inadm")
                s->setInadmissibleEffortToCome((unsigned)v);
            else
                return false;
            return true;
        }
    };

    static std::string dumpRQ(World &w, eit::ReverseQueue &q, const std::string &name, bool handles, bool ids)
    {
        int hk = -1;
        if (handles)
        {
            hk = 1;
            size_t total = 0;
            for (size_t i = 0; i < w.rverts.size(); ++i)
                for (auto *e : w.rverts[i]->outgoingReverseQueueLookup_)
                {
                    ++total;
                    if (e->position >= q.queue_.vector_.size() || q.queue_.vector_[e->position] != e ||
                        std::get<4>(e->data).source->getId() != w.states[i]->getId())
                        hk = 0;
                }
            if (total != q.queue_.vector_.size())
                hk = 0;
        }
        return dumpHeap(name, q.queue_, q.queue_.lt_, q.queue_.lt_, (long)q.size(), hk, true,
                        [&](const std::tuple<ob::Cost, ob::Cost, unsigned, unsigned, eit::Edge> &d) {
                            return ids ? w.edgeId(std::get<4>(d)) : std::string();
                        });
    }

    // the stored 4-keys in array order and the handle lookups in vector order (for the lock-step with the Lean model of
    // ReverseQueue, drv_revqueue); costs are integer-valued doubles in this world
    static std::string dumpKL(World &w, eit::ReverseQueue &q)
    {
        auto num = [](double v) {
            if (v != std::floor(v) || std::fabs(v) > 1e15)
                return std::string("x") + vp::bits(v);
            return std::to_string((long long)v);
        };
        std::string s = "K n=" + std::to_string(q.queue_.vector_.size());
        for (auto *e : q.queue_.vector_)
            s += " " + w.edgeId(std::get<4>(e->data)) + ":" + num(std::get<0>(e->data).value()) + ":" + num(std::get<1>(e->data).value()) +
                 ":" + std::to_string(std::get<2>(e->data)) + ":" + std::to_string(std::get<3>(e->data));
        s += " | L";
        for (size_t i = 0; i < w.rverts.size(); ++i)
        {
            auto &lk = w.rverts[i]->outgoingReverseQueueLookup_;
            if (lk.empty())
                continue;
            s += " " + std::to_string(i) + "=";
            for (size_t k = 0; k < lk.size(); ++k)
            {
                // read through the handle only if it is a live element of the queue (a dangling handle prints "?")
                bool liveH = std::find(q.queue_.vector_.begin(), q.queue_.vector_.end(), lk[k]) != q.queue_.vector_.end();
                s += (k ? "," : "") + (liveH ? w.edgeId(std::get<4>(lk[k]->data)) : std::string("?"));
            }
        }
        return s;
    }

    static int runRQ(const std::vector<std::string> &hdr)
    {
        auto m = kv(hdr, 1);
        World w;
        eit::ReverseQueue q(w.obj, w.space, m.at("order") == "cost");
        auto fin = [&](const std::string &res) {
            std::cout << res << " | " << dumpRQ(w, q, "rq", true, true) << " | " << dumpKL(w, q) << "\n";
        };
        std::string line;
        while (vp::readLine(line))
        {
            auto t = vp::tokens(line);
            if (t.empty())
                continue;
            try
            {
                const std::string &op = t[0];
                if (op == "st" && t.size() == 7)
                {
                    size_t i = w.addState(needInt(t[1]), needInt(t[2]), needInt(t[3]), needInt(t[4]), needInt(t[5]), needInt(t[6]));
                    fin("s=" + std::to_string(i));
                }
                else if (op == "set" && t.size() == 4)
                {
                    if (!w.setField(needInt(t[1]), t[2], needInt(t[3])))
                        throw std::runtime_error("field");
                    fin("ok");
                }
                else if (op == "wl" && t.size() == 3)
                {
                    w.states.at(needInt(t[1]))->whitelist(w.states.at(needInt(t[2])));
                    fin("ok");
                }
                else if (op == "cc" && t.size() == 4)
                {
                    auto &s = w.states.at(needInt(t[1]));
                    auto &tg = w.states.at(needInt(t[2]));
                    long nck = needInt(t[3]);
                    if (nck < 0 || (unsigned long)nck > w.space->validSegmentCount(s->raw(), tg->raw()))
                        throw std::runtime_error("checks");
                    tg->setIncomingCollisionCheckResolution(s, (std::size_t)nck);
                    fin("ok");
                }
                else if (op == "ins" && t.size() == 3)
                {
                    q.insertOrUpdate(eit::Edge(w.states.at(needInt(t[1])), w.states.at(needInt(t[2]))));
                    fin("ok");
                }
                else if (op == "insv")
                {
                    size_t i = 1;
                    auto xs = vp::takeCounted(t, i);
                    if (!xs || i != t.size() || xs->size() % 2)
                        throw std::runtime_error("insv");
                    std::vector<eit::Edge> es;
                    for (size_t j = 0; j < xs->size(); j += 2)
                        es.emplace_back(w.states.at(needInt((*xs)[j])), w.states.at(needInt((*xs)[j + 1])));
                    q.insertOrUpdate(es);
                    fin("ok");
                }
                else if (op == "pop" && t.size() == 1)
                {
                    if (q.empty())
                    {
                        fin("empty");
                        continue;
                    }
                    eit::Edge e = q.pop();
                    fin("e=" + w.edgeId(e));
                }
                else if (op == "peek" && t.size() == 1)
                {
                    if (q.empty())
                    {
                        fin("empty");
                        continue;
                    }
                    fin("e=" + w.edgeId(q.peek()) + " eff=" + std::to_string(q.peekEffort()));
                }
                else if (op == "rmv" && t.size() == 2)
                {
                    q.removeOutgoingEdges(w.rverts.at(needInt(t[1])));
                    fin("ok");
                }
                else if (op == "clear" && t.size() == 1)
                {
                    q.clear();
                    fin("ok");
                }
                else if (op == "rebuild" && t.size() == 1)
                {
                    q.rebuild();
                    fin("ok");
                }
                else if (op == "order" && t.size() == 2 && (t[1] == "cost" || t[1] == "effort"))
                {
                    if (!q.empty())
                    {
                        fin("nonempty");
                        continue;
                    }
                    q.setCostQueueOrder(t[1] == "cost");
                    fin("ok");
                }
                else
                    std::cout << "bad-op\n";
            }
            catch (const std::exception &)
            {
                std::cout << "bad-op\n";
            }
        }
        q.clear();
        return 0;
    }

    static std::string dumpFQ(World *w, eit::ForwardQueue &q)
    {
        // hash order must not leak: sort by (source id, target id)
        std::vector<std::pair<std::pair<size_t, size_t>, std::string>> rows;
        for (const auto &el : q.queue_)
        {
            const auto &k = el.second.first;
            const auto &e = el.second.second;
            std::string id = w ? w->edgeId(e) : std::to_string(e.source->getId()) + ">" + std::to_string(e.target->getId());
            rows.push_back({el.first, id + ":" + vp::bits(k.lowerBoundCost.value()) + ":" + vp::bits(k.estimatedCost.value()) + ":" +
                                          std::to_string(k.estimatedEffort)});
        }
        std::sort(rows.begin(), rows.end());
        std::string s = "F n=" + std::to_string(q.size()) + " :";
        for (auto &r : rows)
            s += " " + r.second;
        // the container's iteration order (begin() and the tie-breaks of min/max_element depend on it) is an INPUT of the
        // front-selection rule as coded; it is handed to the model as such and never compared with anything
        s += " | O";
        for (const auto &el : q.queue_)
        {
            const auto &e = el.second.second;
            s += " " + (w ? w->edgeId(e) : std::to_string(e.source->getId()) + ">" + std::to_string(e.target->getId()));
        }
        return s;
    }

    static int runFQ(const std::vector<std::string> &)
    {
        World w;
        eit::ForwardQueue q(w.obj, w.space);
        auto fin = [&](const std::string &res) { std::cout << res << " | " << dumpFQ(&w, q) << "\n"; };
        auto factor = [](const std::string &s) {
            if (s == "inf")
                return std::numeric_limits<double>::infinity();
            return (double)needInt(s);
        };
        std::string line;
        while (vp::readLine(line))
        {
            auto t = vp::tokens(line);
            if (t.empty())
                continue;
            try
            {
                const std::string &op = t[0];
                if (op == "st" && t.size() == 7)
                {
                    size_t i = w.addState(needInt(t[1]), needInt(t[2]), needInt(t[3]), needInt(t[4]), needInt(t[5]), needInt(t[6]));
                    fin("s=" + std::to_string(i));
                }
                else if (op == "set" && t.size() == 4)
                {
                    if (!w.setField(needInt(t[1]), t[2], needInt(t[3])))
                        throw std::runtime_error("field");
                    fin("ok");
                }
                else if (op == "ins" && t.size() == 3)
                {
                    q.insertOrUpdate(eit::Edge(w.states.at(needInt(t[1])), w.states.at(needInt(t[2]))));
                    fin("ok");
                }
                else if (op == "upd" && t.size() == 3)
                {
                    q.updateIfExists(eit::Edge(w.states.at(needInt(t[1])), w.states.at(needInt(t[2]))));
                    fin("ok");
                }
                else if (op == "rm" && t.size() == 3)
                {
                    try
                    {
                        q.remove(eit::Edge(w.states.at(needInt(t[1])), w.states.at(needInt(t[2]))));
                        fin("ok");
                    }
                    catch (const std::out_of_range &)
                    {
                        fin("absent");
                    }
                }
                else if ((op == "pop" || op == "peek") && t.size() == 2)
                {
                    if (q.empty())
                    {
                        fin("empty");
                        continue;
                    }
                    eit::Edge e = op == "pop" ? q.pop(factor(t[1])) : q.peek(factor(t[1]));
                    fin("e=" + w.edgeId(e));
                }
                else if (op == "clear" && t.size() == 1)
                {
                    q.clear();
                    fin("ok");
                }
                else if (op == "rebuild" && t.size() == 1)
                {
                    q.rebuild();
                    fin("ok");
                }
                else
                    std::cout << "bad-op\n";
            }
            catch (const std::exception &)
            {
                std::cout << "bad-op\n";
            }
        }
        q.clear();
        return 0;
    }
}  // namespace eitq

// ================================================================================================ planners
namespace plan
{
    // validity checker that, every `every`-th call, lets the harness look at the planner's queues FROM INSIDE the planner's
    // loops (sample validation, the collision checks of the edge just taken from the queue, sparse checks of the reverse
    // search): these calls happen between queue operations, never in the middle of one
    class DumpingChecker : public ob::StateValidityChecker
    {
    public:
        DumpingChecker(const ob::SpaceInformationPtr &si, vp::Env env, unsigned long every, unsigned long cap)
          : ob::StateValidityChecker(si), env_(std::move(env)), every_(every), cap_(cap)
        {
        }
        bool isValid(const ob::State *state) const override
        {
            std::vector<double> r;
            si_->getStateSpace()->copyToReals(r, state);
            bool v = si_->satisfiesBounds(state) && !env_.collides(r);
            ++calls_;
            if (every_ && hook && !inHook_ && calls_ % every_ == 0 && emitted_ < cap_)
            {
                inHook_ = true;
                ++emitted_;
                std::cout << "cb " << calls_ << " | " << hook() << "\n";
                inHook_ = false;
            }
            return v;
        }
        std::function<std::string()> hook;
        void newSolve() const
        {
            emitted_ = 0;
        }

    private:
        vp::Env env_;
        unsigned long every_, cap_;
        mutable unsigned long calls_{0}, emitted_{0};
        mutable bool inHook_{false};
    };

    static std::string dumpBIT(og::BITstar &p)
    {
        auto &sq = *p.queuePtr_;
        auto &h = sq.edgeQueue_;
        // handles: every queued edge is in the out-lookup of its parent and the in-lookup of its child, and nowhere twice
        int hk = 1;
        for (auto *e : h.vector_)
        {
            auto &par = e->data.second.first;
            auto &chi = e->data.second.second;
            if (std::count(par->edgeQueueOutLookup_.begin(), par->edgeQueueOutLookup_.end(), e) != 1 ||
                std::count(chi->edgeQueueInLookup_.begin(), chi->edgeQueueInLookup_.end(), e) != 1)
                hk = 0;
        }
        using T = og::BITstar::SearchQueue::SortKeyAndVertexPtrPair;
        return dumpHeap("bit.edge", h, h.lt_, h.lt_, (long)sq.numEdges(), hk, true, [](const T &) { return std::string(); });
    }

    static std::string dumpAIT(og::AITstar &p)
    {
        auto &f = p.forwardQueue_;
        auto &r = p.reverseQueue_;
        int hkF = 1;
        for (auto *e : f.vector_)
        {
            auto out = e->data.getParent()->getForwardQueueOutgoingLookup();
            auto in = e->data.getChild()->getForwardQueueIncomingLookup();
            if (std::count(out.begin(), out.end(), e) != 1 || std::count(in.begin(), in.end(), e) != 1)
                hkF = 0;
        }
        int hkR = 1;
        for (auto *e : r.vector_)
            if (e->data.second->getReverseQueuePointer() != e)
                hkR = 0;
        // the vertex queue's functor breaks ties of the stored key by LIVE vertex state (isVertexBetter: "inconsistent target
        // of a queued edge first"), which is neither asymmetric nor fixed between updates; the order the queue claims is
        // the lexicographic order of the stored 2-key, of which the functor is a refinement on ties only: judge by that.
        auto obj = p.objective_;
        auto keyOnly = [obj](const og::aitstar::KeyVertexPair &a, const og::aitstar::KeyVertexPair &b) {
            return std::lexicographical_compare(a.first.cbegin(), a.first.cend(), b.first.cbegin(), b.first.cend(),
                                                [&](const ob::Cost &x, const ob::Cost &y) { return obj->isCostBetterThan(x, y); });
        };
        return dumpHeap("ait.fwd", f, f.lt_, f.lt_, -1, hkF, true, [](const og::aitstar::Edge &) { return std::string(); }) + " | " +
               dumpHeap("ait.rev", r, r.lt_, keyOnly, -1, hkR, true, [](const og::aitstar::KeyVertexPair &) { return std::string(); });
    }

    static std::string dumpEIT(og::EITstar &p)
    {
        std::string s;
        if (p.reverseQueue_)
        {
            auto &q = p.reverseQueue_->queue_;
            using T = std::tuple<ob::Cost, ob::Cost, unsigned, unsigned, og::eitstar::Edge>;
            // handles: every queued edge is in the lookup of its source's reverse vertex exactly once
            int hk = 1;
            for (auto *e : q.vector_)
            {
                auto &src = std::get<4>(e->data).source;
                if (!src->hasReverseVertex())
                {
                    hk = 0;
                    continue;
                }
                auto &lk = src->asReverseVertex()->outgoingReverseQueueLookup_;
                if (std::count(lk.begin(), lk.end(), e) != 1)
                    hk = 0;
            }
            s += dumpHeap("eit.rev", q, q.lt_, q.lt_, (long)p.reverseQueue_->size(), hk, true, [](const T &) { return std::string(); });
        }
        else
            s += "H eit.rev n=0 live=0 hk=- swo=1 : ; drain=-";
        if (p.forwardQueue_)
            s += " | " + eitq::dumpFQ(nullptr, *p.forwardQueue_);
        return s;
    }

    static int run(const std::vector<std::string> &hdr)
    {
        auto m = kv(hdr, 1);
        const std::string name = m.at("name");
        ompl::RNG::setSeed((std::uint_fast32_t)needInt(m.at("seed")));
        // boxes=x0,y0,x1,y1[,x0,y0,x1,y1…] in tenths (closed boxes are obstacles)
        vp::Env env;
        env.pdim = 2;
        if (m.count("boxes") && m.at("boxes") != "none")
        {
            auto bv = csvInts(m.at("boxes"));
            if (bv.size() % 4)
                throw std::runtime_error("boxes");
            for (size_t i = 0; i < bv.size(); i += 4)
            {
                vp::Box b;
                b.lo = {bv[i] / 10.0, bv[i + 1] / 10.0};
                b.hi = {bv[i + 2] / 10.0, bv[i + 3] / 10.0};
                env.boxes.push_back(b);
            }
        }
        auto space = std::make_shared<ob::RealVectorStateSpace>(2);
        space->setBounds((double)needInt(m.at("lo")), (double)needInt(m.at("hi")));
        auto si = std::make_shared<ob::SpaceInformation>(space);
        auto checker = std::make_shared<DumpingChecker>(si, env, m.count("cb") ? (unsigned long)needInt(m.at("cb")) : 0UL,
                                                        m.count("cbcap") ? (unsigned long)needInt(m.at("cbcap")) : 40UL);
        si->setStateValidityChecker(checker);
        si->setStateValidityCheckingResolution(0.02);
        si->setup();
        auto pdef = std::make_shared<ob::ProblemDefinition>(si);
        auto sv = csvInts(m.at("start")), gv = csvInts(m.at("goal"));
        ob::ScopedState<> st(space), gl(space);
        st[0] = sv.at(0) / 10.0;
        st[1] = sv.at(1) / 10.0;
        gl[0] = gv.at(0) / 10.0;
        gl[1] = gv.at(1) / 10.0;
        pdef->setStartAndGoalStates(st, gl);
        pdef->setOptimizationObjective(std::make_shared<ob::PathLengthOptimizationObjective>(si));
        std::shared_ptr<ob::Planner> planner;
        og::BITstar *bit = nullptr;
        og::AITstar *ait = nullptr;
        og::EITstar *eit = nullptr;
        long batch = m.count("batch") ? needInt(m.at("batch")) : 20;
        if (name == "BITstar" || name == "ABITstar")
        {
            auto p = name == "BITstar" ? std::make_shared<og::BITstar>(si) : std::static_pointer_cast<og::BITstar>(std::make_shared<og::ABITstar>(si));
            p->setSamplesPerBatch(batch);
            bit = p.get();
            planner = p;
        }
        else if (name == "AITstar")
        {
            auto p = std::make_shared<og::AITstar>(si);
            p->setBatchSize(batch);
            ait = p.get();
            planner = p;
        }
        else if (name == "EITstar" || name == "EIRMstar")
        {
            auto p = name == "EITstar" ? std::make_shared<og::EITstar>(si) : std::static_pointer_cast<og::EITstar>(std::make_shared<og::EIRMstar>(si));
            p->setBatchSize(batch);
            eit = p.get();
            planner = p;
        }
        else
        {
            std::cout << "bad-header\n";
            return 2;
        }
        // non-default planner parameters (k-nearest vs r-disc graphs, pruning on/off, …): `par=name:value,name:value`
        if (m.count("par") && m.at("par") != "-")
        {
            std::string cur;
            for (char c : m.at("par") + ",")
                if (c == ',')
                {
                    auto p = cur.find(':');
                    if (p != std::string::npos && planner->params().hasParam(cur.substr(0, p)))
                        planner->params().setParam(cur.substr(0, p), cur.substr(p + 1));
                    cur.clear();
                }
                else
                    cur += c;
        }
        planner->setProblemDefinition(pdef);
        planner->setup();
        auto dump = [&]() { return bit ? dumpBIT(*bit) : ait ? dumpAIT(*ait) : dumpEIT(*eit); };
        checker->hook = dump;
        // only AIT* needs it (re-tested on the current tree): BIT*/ABIT*/EIT*/EIRM* return from solve() after the optimum
        const bool guard = name == "AITstar" && (!m.count("guard") || m.at("guard") != "0");
        std::string line;
        while (vp::readLine(line))
        {
            auto t = vp::tokens(line);
            if (t.empty())
                continue;
            try
            {
                if (t[0] == "solve" && t.size() == 2)
                {
                    // once the straight start-goal segment itself is the solution the informed set has measure zero and the
                    // planners' rejection sampling never returns (not a heap matter): do not call solve() again
                    checker->newSolve();
                    if (guard && pdef->hasExactSolution() &&
                        pdef->getSolutionPath()->length() <= si->distance(st.get(), gl.get()) * (1.0 + 1e-12))
                    {
                        std::cout << "status=optimal-skip | " << dump() << "\n";
                        continue;
                    }
                    auto c = std::make_shared<vp::EvalCounter>();
                    c->fireAt = (unsigned long)needInt(t[1]);
                    auto stt = planner->solve(vp::evalCountPtc(c));
                    std::cout << "status=" << vp::statusName(stt) << " | " << dump() << "\n";
                }
                else if (t[0] == "clear" && t.size() == 1)
                {
                    // history: clear() (queues reset), then the following solve() starts over on the same problem
                    planner->clear();
                    pdef->clearSolutionPaths();
                    planner->setup();
                    std::cout << "cleared | " << dump() << "\n";
                }
                else
                    std::cout << "bad-op\n";
            }
            catch (const std::exception &e)
            {
                std::cout << "exception " << e.what() << "\n";
            }
        }
        return 0;
    }
}  // namespace plan

// ================================================================================================ ranks (targeted search)
namespace ranks
{
    static int run()
    {
        std::string line;
        while (vp::readLine(line))
        {
            auto t = vp::tokens(line);
            try
            {
                if (t.size() >= 2 && t[0] == "X")
                {
                    size_t n = needInt(t[1]);
                    using Hp = ompl::BinaryHeap<long, std::function<bool(long, long)>>;
                    Hp h(std::function<bool(long, long)>([](long a, long b) { return a < b; }));
                    if (t.size() < 2 + n + 1 || t[2 + n] != "|")
                        throw std::runtime_error("shape");
                    std::vector<Hp::Element *> el;
                    for (size_t i = 0; i < n; ++i)
                    {
                        auto *e = h.newElement(needInt(t[2 + i]), i);
                        h.vector_.push_back(e);
                        el.push_back(e);
                    }
                    size_t i = 3 + n;
                    auto xs = vp::takeCounted(t, i);
                    if (!xs || i != t.size())
                        throw std::runtime_error("slots");
                    std::set<size_t> seen;
                    for (auto &x : *xs)
                    {
                        size_t s = needInt(x);
                        if (s >= n || !seen.insert(s).second)
                            throw std::runtime_error("slot");
                        h.remove(el[s]);
                    }
                    bool top = true;
                    for (auto *e : h.vector_)
                        if (e->data < h.vector_[0]->data)
                            top = false;
                    std::vector<long> pops;
                    while (!h.empty())
                    {
                        pops.push_back(h.top()->data);
                        h.pop();
                    }
                    bool sorted = std::is_sorted(pops.begin(), pops.end());
                    std::string s = std::string("top=") + (top ? "1" : "0") + " sorted=" + (sorted ? "1" : "0") + " pops=";
                    if (pops.empty())
                        s += "-";
                    for (size_t k = 0; k < pops.size(); ++k)
                        s += (k ? "," : "") + std::to_string(pops[k]);
                    std::cout << s << "\n";
                }
                else
                    std::cout << "bad-op\n";
            }
            catch (const std::exception &)
            {
                std::cout << "bad-op\n";
            }
        }
        return 0;
    }
}  // namespace ranks

int main()
{
    vp::quietLogs();
    std::string line;
    if (!vp::readLine(line))
        return 2;
    auto hdr = vp::tokens(line);
    try
    {
        if (!hdr.empty() && hdr[0] == "gridb")
            return gridb::run(hdr);
        if (!hdr.empty() && hdr[0] == "disc")
            return disc::run(hdr);
        if (!hdr.empty() && hdr[0] == "rq")
            return eitq::runRQ(hdr);
        if (!hdr.empty() && hdr[0] == "fq")
            return eitq::runFQ(hdr);
        if (!hdr.empty() && hdr[0] == "planner")
            return plan::run(hdr);
        if (hdr.size() == 1 && hdr[0] == "ranks")
            return ranks::run();
    }
    catch (const std::exception &e)
    {
        std::cout << "bad-header " << e.what() << "\n";
        return 2;
    }
    std::cout << "bad-header\n";
    return 2;
}
