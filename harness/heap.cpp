// C11 harness: drives the real ompl::BinaryHeap from /repo/src through the line protocol.
// Keys carry a unique serial in their low 10 bits (key = value*1024 + serial) and every comparator
// ignores those bits, so ties are plentiful and yet each element is identifiable by its data.
// `private` is opened for this translation unit only (harness side, no source hook) to read
// vector_ and Element::position: the dump lists handle:key in array order and reports whether
// every element's position field equals its index.
#include "common/proto.h"
#include <functional>
#include <map>
#include <vector>
#include <cassert>
#define private public
#include "ompl/datastructures/BinaryHeap.h"
#undef private

using Cmp = std::function<bool(long, long)>;
using H = ompl::BinaryHeap<long, Cmp>;

static std::vector<H::Element *> handles;   // creation order; nullptr once dead
static std::map<H::Element *, size_t> idOf;
static std::vector<std::string> events;

// Elements created inside insert(vector)/buildFrom are discovered through the heap afterwards.
static void afterInsert(H::Element *e, void *)
{
    // handle numbers are assigned in creation order == callback order for insert paths
    idOf[e] = handles.size();
    handles.push_back(e);
    events.push_back("I" + std::to_string(idOf[e]));
}
static void beforeRemove(H::Element *e, void *)
{
    // (find, not at: a callback fired for an element the harness has already retired must show up as a stray event, not abort)
    auto it = idOf.find(e);
    events.push_back("R" + (it == idOf.end() ? std::string("?") : std::to_string(it->second)));
}

static std::string dump(H &h)
{
    std::string s = "n=" + std::to_string(h.size());
    std::string pf;
    bool ps = true;
    for (size_t i = 0; i < h.vector_.size(); ++i)
    {
        H::Element *e = h.vector_[i];
        auto it = idOf.find(e);
        s += " " + (it == idOf.end() ? std::string("?") : std::to_string(it->second)) + ":" + std::to_string(e->data);
        if (e->position != i)
            ps = false;
        pf += (i ? "," : "") + std::to_string(e->position);   // the position FIELD, compared with the model's table
    }
    s += ps ? " ps=1" : " ps=0";
    s += " pf=" + pf;
    return s;
}

int main()
{
    std::string line;
    if (!vp::readLine(line))
        return 2;
    auto hdr = vp::tokens(line);
    // optional third token `ev=0`: NO callback is registered on the heap (onAfterInsert / onBeforeRemove never called); the harness
    // then numbers the elements itself (return value of insert; unique data for insert(vector)) and every `ev=` list must be empty
    bool registered = true;
    if (hdr.size() == 3 && (hdr[2] == "ev=0" || hdr[2] == "ev=1"))
    {
        registered = hdr[2] == "ev=1";
        hdr.pop_back();
    }
    Cmp cmp;
    if (hdr.size() == 2 && hdr[0] == "heap" && hdr[1] == "cmp=less")
        cmp = [](long a, long b) { return a / 1024 < b / 1024; };
    else if (hdr.size() == 2 && hdr[0] == "heap" && hdr[1] == "cmp=greater")
        cmp = [](long a, long b) { return a / 1024 > b / 1024; };
    else if (hdr.size() == 2 && hdr[0] == "heap" && hdr[1] == "cmp=div4")
        cmp = [](long a, long b) { return a / 4096 < b / 4096; };
    else if (hdr.size() == 2 && hdr[0] == "heap" && hdr[1] == "cmp=tie")
        cmp = [](long, long) { return false; };   // everything equivalent: a strict weak order with one class
    else if (hdr.size() == 2 && hdr[0] == "heap" && hdr[1] == "cmp=mod7")
        cmp = [](long a, long b) { return (a / 1024) % 7 < (b / 1024) % 7; };
    else
    {
        std::cout << "bad-header\n";
        return 2;
    }
    H heap(cmp);
    if (registered)
    {
        heap.onAfterInsert(afterInsert, nullptr);
        heap.onBeforeRemove(beforeRemove, nullptr);
    }
    auto adopt = [&](H::Element *e) {   // ev=0: what afterInsert would have done, minus the event
        idOf[e] = handles.size();
        handles.push_back(e);
    };

    auto evs = [&]() {
        std::string s;
        for (size_t i = 0; i < events.size(); ++i)
            s += (i ? "," : "") + events[i];
        events.clear();
        return s;
    };
    // callbacks fired by an operation whose result line does not list them (pop, update, rebuild, buildFrom, sort, clear,
    // top) are reported as `stray=` after the dump; the model never fires one there
    auto fin = [&](const std::string &res) {
        std::cout << res << " | " << dump(heap);
        if (!events.empty())
            std::cout << " stray=" << evs();
        std::cout << "\n";
    };
    auto kill = [&](H::Element *e) {
        handles[idOf.at(e)] = nullptr;
        idOf.erase(e);
    };

    while (vp::readLine(line))
    {
        auto t = vp::tokens(line);
        if (t.empty())
            continue;
        const std::string &op = t[0];
        if (op == "ins" && t.size() == 2 && vp::parseInt(t[1]))
        {
            H::Element *e = heap.insert(*vp::parseInt(t[1]));
            if (!registered)
                adopt(e);
            fin("h=" + std::to_string(idOf.at(e)) + " ev=" + evs());
        }
        else if (op == "insl")
        {
            size_t i = 1;
            auto xs = vp::takeCounted(t, i);
            bool ok = xs && i == t.size();
            std::vector<long> ks;
            if (ok)
                for (auto &x : *xs)
                {
                    auto v = vp::parseInt(x);
                    if (!v) { ok = false; break; }
                    ks.push_back(*v);
                }
            if (!ok) { std::cout << "bad-op\n"; continue; }
            heap.insert(ks);
            if (!registered)
                for (long k : ks)   // list order = creation order; data values are unique
                    for (H::Element *e : heap.vector_)
                        if (e->data == k && !idOf.count(e))
                        {
                            adopt(e);
                            break;
                        }
            fin("ok ev=" + evs());
        }
        else if (op == "rm" && t.size() == 2 && vp::parseNat(t[1]))
        {
            size_t h = *vp::parseNat(t[1]);
            if (h >= handles.size() || !handles[h]) { fin("dead"); continue; }
            H::Element *e = handles[h];
            heap.remove(e);
            std::string ev = evs();
            kill(e);
            fin("ok ev=" + ev);
        }
        else if (op == "set" && t.size() == 3 && vp::parseNat(t[1]) && vp::parseInt(t[2]))
        {
            size_t h = *vp::parseNat(t[1]);
            if (h >= handles.size() || !handles[h]) { fin("dead"); continue; }
            handles[h]->data = *vp::parseInt(t[2]);
            heap.update(handles[h]);
            fin("ok");
        }
        else if (op == "pop" && t.size() == 1)
        {
            if (heap.empty()) { fin("empty"); continue; }
            H::Element *e = heap.top();
            heap.pop();
            kill(e);   // e is only a map key here
            fin("ok");
        }
        else if (op == "top" && t.size() == 1)
        {
            H::Element *e = heap.top();
            if (!e) fin("none");
            else fin(std::to_string(idOf.at(e)) + ":" + std::to_string(e->data));
        }
        else if (op == "build")
        {
            size_t i = 1;
            auto xs = vp::takeCounted(t, i);
            bool ok = xs && i == t.size();
            std::vector<long> ks;
            if (ok)
                for (auto &x : *xs)
                {
                    auto v = vp::parseInt(x);
                    if (!v) { ok = false; break; }
                    ks.push_back(*v);
                }
            if (!ok) { std::cout << "bad-op\n"; continue; }
            // buildFrom clears (deleting every element) and creates fresh elements without firing
            // the insert callback; the new elements get handle numbers in list order (found by
            // their unique data).
            for (auto &e : handles) e = nullptr;
            idOf.clear();
            heap.buildFrom(ks);
            {
                size_t base = handles.size();
                handles.resize(base + ks.size(), nullptr);
                for (H::Element *e : heap.vector_)
                    for (size_t j = 0; j < ks.size(); ++j)
                        if (ks[j] == e->data && !handles[base + j])
                        {
                            handles[base + j] = e;
                            idOf[e] = base + j;
                            break;
                        }
            }
            fin("ok");
        }
        else if (op == "poke")
        {
            size_t i = 1;
            auto xs = vp::takeCounted(t, i);
            bool ok = xs && i == t.size() && xs->size() % 2 == 0;
            std::vector<std::pair<size_t, long>> chg;
            if (ok)
                for (size_t j = 0; j < xs->size(); j += 2)
                {
                    auto h = vp::parseNat((*xs)[j]);
                    auto k = vp::parseInt((*xs)[j + 1]);
                    if (!h || !k) { ok = false; break; }
                    chg.emplace_back(*h, *k);
                }
            if (!ok) { std::cout << "bad-op\n"; continue; }
            bool alive = true;
            for (auto &c : chg)
                if (c.first >= handles.size() || !handles[c.first]) alive = false;
            if (!alive) { fin("dead"); continue; }
            for (auto &c : chg) handles[c.first]->data = c.second;
            heap.rebuild();
            fin("ok");
        }
        else if (op == "sort")
        {
            size_t i = 1;
            auto xs = vp::takeCounted(t, i);
            bool ok = xs && i == t.size();
            std::vector<long> ks;
            if (ok)
                for (auto &x : *xs)
                {
                    auto v = vp::parseInt(x);
                    if (!v) { ok = false; break; }
                    ks.push_back(*v);
                }
            if (!ok) { std::cout << "bad-op\n"; continue; }
            heap.sort(ks);
            std::string s = "sorted";
            for (long k : ks) s += " " + std::to_string(k);
            fin(s);
        }
        else if (op == "clear" && t.size() == 1)
        {
            for (auto &e : handles) e = nullptr;
            idOf.clear();
            heap.clear();
            fin("ok");
        }
        else
            std::cout << "bad-op\n";
    }
    return 0;
}
