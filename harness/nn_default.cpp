// C10 harness 2: which nearest-neighbour structure a planner gets.
//
//   nndefault
//   sel <space> <planner>
//
// <space>   rv3 | so2 | so3 | se2 | se3 | dubins | rs | mobius | klein | <leaf>+<leaf> (a plain CompoundStateSpace)
// <planner> mt0 | mt1 (a test planner whose specs say multithreaded = 0/1) | RRT | RRTConnect | pRRT | PRM | pSBL
//
// Calls the real tools::SelfConfig::getDefaultNearestNeighbors<int>(planner) and reports the dynamic type
// of what it returns (dynamic_cast; SqrtApprox is tested before its base class Linear), together with
// what the real space claims:  `mt=<specs.multithreaded> metric=<isMetricSpace()> comps=<claims of the
// components of a compound, else the claim itself> kind=<gnat|gnatnts|sqrt|linear|other>`.
#include "common/proto.h"
#include <iostream>
#include <typeinfo>
#include <memory>
#include <string>
#include "ompl/base/Planner.h"
#include "ompl/base/SpaceInformation.h"
#include "ompl/base/StateSpace.h"
#include "ompl/base/spaces/RealVectorStateSpace.h"
#include "ompl/base/spaces/SO2StateSpace.h"
#include "ompl/base/spaces/SO3StateSpace.h"
#include "ompl/base/spaces/SE2StateSpace.h"
#include "ompl/base/spaces/SE3StateSpace.h"
#include "ompl/base/spaces/DubinsStateSpace.h"
#include "ompl/base/spaces/ReedsSheppStateSpace.h"
#include "ompl/base/spaces/special/MobiusStateSpace.h"
#include "ompl/base/spaces/special/KleinBottleStateSpace.h"
#include "ompl/datastructures/NearestNeighbors.h"
#include "ompl/datastructures/NearestNeighborsLinear.h"
#include "ompl/datastructures/NearestNeighborsSqrtApprox.h"
#include "ompl/datastructures/NearestNeighborsGNAT.h"
#include "ompl/datastructures/NearestNeighborsGNATNoThreadSafety.h"
#include "ompl/geometric/planners/rrt/RRT.h"
#include "ompl/geometric/planners/rrt/RRTConnect.h"
#include "ompl/geometric/planners/rrt/pRRT.h"
#include "ompl/geometric/planners/prm/PRM.h"
#include "ompl/geometric/planners/sbl/pSBL.h"
#include "ompl/tools/config/SelfConfig.h"
#include "ompl/util/Console.h"

namespace ob = ompl::base;
namespace og = ompl::geometric;

class TestPlanner : public ob::Planner
{
public:
    TestPlanner(const ob::SpaceInformationPtr &si, bool mt) : ob::Planner(si, "test")
    {
        specs_.multithreaded = mt;
    }
    ob::PlannerStatus solve(const ob::PlannerTerminationCondition &) override
    {
        return ob::PlannerStatus::UNKNOWN;
    }
};

static ob::StateSpacePtr leaf(const std::string &n)
{
    if (n == "rv3")
    {
        auto s = std::make_shared<ob::RealVectorStateSpace>(3);
        s->setBounds(-1, 1);
        return s;
    }
    if (n == "so2") return std::make_shared<ob::SO2StateSpace>();
    if (n == "so3") return std::make_shared<ob::SO3StateSpace>();
    if (n == "se2")
    {
        auto s = std::make_shared<ob::SE2StateSpace>();
        ob::RealVectorBounds b(2);
        b.setLow(-1); b.setHigh(1);
        s->setBounds(b);
        return s;
    }
    if (n == "se3")
    {
        auto s = std::make_shared<ob::SE3StateSpace>();
        ob::RealVectorBounds b(3);
        b.setLow(-1); b.setHigh(1);
        s->setBounds(b);
        return s;
    }
    if (n == "dubins" || n == "rs")
    {
        std::shared_ptr<ob::SE2StateSpace> s;
        if (n == "dubins") s = std::make_shared<ob::DubinsStateSpace>();
        else s = std::make_shared<ob::ReedsSheppStateSpace>();
        ob::RealVectorBounds b(2);
        b.setLow(-1); b.setHigh(1);
        s->setBounds(b);
        return s;
    }
    if (n == "mobius") return std::make_shared<ob::MobiusStateSpace>();
    if (n == "klein") return std::make_shared<ob::KleinBottleStateSpace>();
    return nullptr;
}

static ob::StateSpacePtr makeSpace(const std::string &n)
{
    auto p = n.find('+');
    if (p == std::string::npos) return leaf(n);
    auto a = leaf(n.substr(0, p)), b = leaf(n.substr(p + 1));
    if (!a || !b) return nullptr;
    auto c = std::make_shared<ob::CompoundStateSpace>();
    c->addSubspace(a, 1.0);
    c->addSubspace(b, 1.0);
    c->lock();
    return c;
}

int main()
{
    std::string line;
    if (!vp::readLine(line)) return 2;
    if (vp::tokens(line) != std::vector<std::string>{"nndefault"}) { std::cout << "bad-header\n"; return 2; }
    ompl::msg::noOutputHandler();
    while (vp::readLine(line))
    {
        auto t = vp::tokens(line);
        if (t.empty()) continue;
        if (t.size() != 3 || t[0] != "sel") { std::cout << "bad-op\n"; continue; }
        auto space = makeSpace(t[1]);
        if (!space) { std::cout << "bad-op\n"; continue; }
        auto si = std::make_shared<ob::SpaceInformation>(space);
        ob::PlannerPtr pl;
        if (t[2] == "mt0") pl = std::make_shared<TestPlanner>(si, false);
        else if (t[2] == "mt1") pl = std::make_shared<TestPlanner>(si, true);
        else if (t[2] == "RRT") pl = std::make_shared<og::RRT>(si);
        else if (t[2] == "RRTConnect") pl = std::make_shared<og::RRTConnect>(si);
        else if (t[2] == "pRRT") pl = std::make_shared<og::pRRT>(si);
        else if (t[2] == "PRM") pl = std::make_shared<og::PRM>(si);
        else if (t[2] == "pSBL") pl = std::make_shared<og::pSBL>(si);
        else { std::cout << "bad-op\n"; continue; }
        std::unique_ptr<ompl::NearestNeighbors<int>> nn(ompl::tools::SelfConfig::getDefaultNearestNeighbors<int>(pl.get()));
        std::string kind = "other";
        if (dynamic_cast<ompl::NearestNeighborsGNAT<int> *>(nn.get())) kind = "gnat";
        else if (dynamic_cast<ompl::NearestNeighborsGNATNoThreadSafety<int> *>(nn.get())) kind = "gnatnts";
        else if (dynamic_cast<ompl::NearestNeighborsSqrtApprox<int> *>(nn.get())) kind = "sqrt";
        else if (dynamic_cast<ompl::NearestNeighborsLinear<int> *>(nn.get())) kind = "linear";
        std::string comps;
        // the all_of rule is CompoundStateSpace's own; subclasses (Moebius, Klein, Dubins, ...) may override it
        if (auto *c = (typeid(*space) == typeid(ob::CompoundStateSpace)) ? static_cast<ob::CompoundStateSpace *>(space.get()) : nullptr)
        {
            for (unsigned i = 0; i < c->getSubspaceCount(); ++i)
                comps += (i ? "," : "") + std::string(c->getSubspace(i)->isMetricSpace() ? "1" : "0");
        }
        else
            comps = space->isMetricSpace() ? "1" : "0";
        std::cout << "mt=" << (pl->getSpecs().multithreaded ? 1 : 0) << " metric=" << (space->isMetricSpace() ? 1 : 0)
                  << " comps=" << comps << " kind=" << kind << "\n";
    }
    return 0;
}
