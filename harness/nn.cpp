// C10 harness: drives the four real nearest-neighbour structures of /repo/src through the line
// protocol (DESIGN Appendix A, engine `nn`).
//
//   nn kind=<linear|sqrt|gnat|gnatnts> metric=<abs1|abs3|l1|linf|table6>
//      [deg=<d> min=<d> max=<d> leaf=<n> cache=<n> rebal=<0|1> seed=<n> noise=<0|1>]        (gnat kinds)
//   integrity | print (gnat kinds: integrityCheck(), operator<<)
//   noisefree  (release the heap-layout noise blocks, see below)
//   add <pt> | addv <k> <pt>*k | rm <pt> | clear | size | list
//   nst <pt> | nk <pt> <k> | nr <pt> <r> | sorted (reportsSortedResults) | setdist <metric> (same dimension)
//   kc <k> <rows> <cols> <n> <pt>*n   (any kind; k >= 1): GreedyKCenters<P>::kcenters(data, k, centers, dists) called
//      directly with a caller matrix `dists(rows, cols)` pre-filled with -7; answer (no `| sz=` part):
//      u=<u64 draw of the first centre> c=<centres> dims=<rows>x<cols after> resized=<0|1>
//      m=<dists(j,i) for j < n, i < centers.size(); rows separated by `;`> untouched=<cells still -7 | na if resized>
//
// <pt> is one integer for abs1/table6 and two for l1/linf.  All metrics are integer valued, so the
// doubles the code computes are exact and are printed as integers.
//
// One result vector is reused across all nearestK/nearestR calls (pre-filled with the previous answer, or
// with two sentinel elements 987654321,987654321 when that is empty); likewise for list().
// Every output line is  `<result> | sz=<size()> ls=<list() in the order returned>`  and, for the GNAT
// kinds,  ` | <tree dump>`:  the protected tree is walked in preorder after every operation
// (`private`/`protected` are opened for this translation unit only; no hook in /repo):
//   G size=<size_> rebuild=<rebuildSize_|max> off=<offset_> nrem=<|removed_|> stale=<k> draws=<n> <u64>*n
//   N <pt> <rm> deg=<degree_> rad=<min> <max> nr=<len> (<min> <max>)*len nd=<n> (<pt> <rm>)*n nc=<c>  ...children
// `stale` counts the addresses in removed_ that are not the address of any element currently in
// the tree.  `draws` are the uniform01 values (u64 bits) GreedyKCenters' RNG produced during the
// operation (recovered by replaying a copy of the generator until the states agree).
#include "common/proto.h"
#include <algorithm>
#include <cassert>
#include <chrono>
#include <cmath>
#include <cstdlib>
#include <functional>
#include <iostream>
#include <limits>
#include <map>
#include <memory>
#include <mutex>
#include <queue>
#include <random>
#include <set>
#include <sstream>
#include <string>
#include <unordered_set>
#include <utility>
#include <vector>
#include <Eigen/Core>
#include "ompl/util/Exception.h"
#include "ompl/util/Console.h"
#include "ompl/util/ProlateHyperspheroid.h"
#define private public
#define protected public
#include "ompl/util/RandomNumbers.h"
#include "ompl/datastructures/Permutation.h"
#include "ompl/datastructures/GreedyKCenters.h"
#include "ompl/datastructures/NearestNeighbors.h"
#include "ompl/datastructures/NearestNeighborsLinear.h"
#include "ompl/datastructures/NearestNeighborsSqrtApprox.h"
#include "ompl/datastructures/NearestNeighborsGNAT.h"
#include "ompl/datastructures/NearestNeighborsGNATNoThreadSafety.h"
#undef private
#undef protected

struct P
{
    long x{0}, y{0};
    bool operator==(const P &o) const { return x == o.x && y == o.y; }
    bool operator!=(const P &o) const { return !(*this == o); }
};
static std::ostream &operator<<(std::ostream &o, const P &p) { return o << p.x << "," << p.y; }

static int dim = 1;
static const long TABLE6[6][6] = {
    {0, 1, 3, 4, 3, 2}, {1, 0, 2, 3, 2, 3}, {3, 2, 0, 1, 4, 5},
    {4, 3, 1, 0, 3, 4}, {3, 2, 4, 3, 0, 1}, {2, 3, 5, 4, 1, 0}};

static std::string ptStr(const P &p)
{
    return dim == 1 ? std::to_string(p.x) : std::to_string(p.x) + " " + std::to_string(p.y);
}
static std::string numStr(double d)
{
    if (d == std::numeric_limits<double>::infinity()) return "inf";
    if (d == -std::numeric_limits<double>::infinity()) return "-inf";
    if (d == std::floor(d) && std::fabs(d) < 9e15) return std::to_string((long long)d);
    return "x" + vp::bits(d);   // a non-integral value is never expected; it will not parse downstream
}

using Dist = std::function<double(const P &, const P &)>;
using NN = ompl::NearestNeighbors<P>;
using Gnat = ompl::NearestNeighborsGNAT<P>;
using GnatN = ompl::NearestNeighborsGNATNoThreadSafety<P>;

template <class G>
static void collect(const typename G::Node *n, std::set<const P *> &addr)
{
    addr.insert(&n->pivot_);
    for (const P &d : n->data_) addr.insert(&d);
    for (auto *c : n->children_) collect<G>(c, addr);
}
template <class G>
static void dumpNode(const G &g, const typename G::Node *n, std::string &s)
{
    s += " N " + ptStr(n->pivot_) + " " + (g.removed_.count(&n->pivot_) ? "1" : "0");
    s += " deg=" + std::to_string(n->degree_);
    s += " rad=" + numStr(n->minRadius_) + " " + numStr(n->maxRadius_);
    s += " nr=" + std::to_string(n->minRange_.size());
    for (size_t i = 0; i < n->minRange_.size(); ++i)
        s += " " + numStr(n->minRange_[i]) + " " + numStr(n->maxRange_.at(i));
    s += " nd=" + std::to_string(n->data_.size());
    for (const P &d : n->data_) s += " " + ptStr(d) + " " + (g.removed_.count(&d) ? "1" : "0");
    s += " nc=" + std::to_string(n->children_.size());
    for (auto *c : n->children_) dumpNode(g, c, s);
}
static size_t offsetOf(const Gnat &g) { return g.offset_; }
static size_t offsetOf(const GnatN &) { return 0; }

template <class G>
static std::string dumpGnat(const G &g, const std::mt19937 &before)
{
    std::string s = "G size=" + std::to_string(g.size_);
    s += " rebuild=" + (g.rebuildSize_ == std::numeric_limits<std::size_t>::max() ? std::string("max") : std::to_string(g.rebuildSize_));
    s += " off=" + std::to_string(offsetOf(g));
    s += " nrem=" + std::to_string(g.removed_.size());
    std::set<const P *> addr;
    if (g.tree_) collect<G>(g.tree_, addr);
    size_t stale = 0;
    for (const P *p : g.removed_)
        if (!addr.count(p)) ++stale;
    s += " stale=" + std::to_string(stale);
    // recover the RNG draws of this operation
    std::mt19937 gen = before;
    std::uniform_real_distribution<> uni(0, 1);
    std::vector<double> us;
    while (!(gen == g.pivotSelector_.rng_.generator_) && us.size() < 100000) us.push_back(uni(gen));
    if (us.size() >= 100000) { s += " draws=-1"; }
    else
    {
        s += " draws=" + std::to_string(us.size());
        for (double u : us) s += " " + vp::bits(u);
    }
    if (g.tree_) dumpNode(g, g.tree_, s);
    return s;
}

int main()
{
    std::string line;
    if (!vp::readLine(line)) return 2;
    auto hdr = vp::tokens(line);
    std::map<std::string, std::string> kv;
    if (hdr.empty() || hdr[0] != "nn") { std::cout << "bad-header\n"; return 2; }
    for (size_t i = 1; i < hdr.size(); ++i)
    {
        auto p = hdr[i].find('=');
        if (p == std::string::npos) { std::cout << "bad-header\n"; return 2; }
        kv[hdr[i].substr(0, p)] = hdr[i].substr(p + 1);
    }
    std::string kind = kv["kind"], metric = kv["metric"];
    Dist df;
    if (metric == "abs1") { dim = 1; df = [](const P &a, const P &b) { return (double)std::labs(a.x - b.x); }; }
    else if (metric == "l1") { dim = 2; df = [](const P &a, const P &b) { return (double)(std::labs(a.x - b.x) + std::labs(a.y - b.y)); }; }
    else if (metric == "linf") { dim = 2; df = [](const P &a, const P &b) { return (double)std::max(std::labs(a.x - b.x), std::labs(a.y - b.y)); }; }
    else if (metric == "table6") { dim = 1; df = [](const P &a, const P &b) { return (double)TABLE6[a.x][b.x]; }; }
    else if (metric == "abs3") { dim = 1; df = [](const P &a, const P &b) { return (double)((std::labs(a.x - b.x) + 2) / 3); }; }
    else { std::cout << "bad-header\n"; return 2; }
    // the metrics `setdist` may switch between (same dimension, same point domain)
    auto metricByName = [&](const std::string &m, Dist &out) -> bool {
        if (m == "abs1" && dim == 1 && metric != "table6") { out = [](const P &a, const P &b) { return (double)std::labs(a.x - b.x); }; return true; }
        if (m == "abs3" && dim == 1 && metric != "table6") { out = [](const P &a, const P &b) { return (double)((std::labs(a.x - b.x) + 2) / 3); }; return true; }
        if (m == "l1" && dim == 2) { out = [](const P &a, const P &b) { return (double)(std::labs(a.x - b.x) + std::labs(a.y - b.y)); }; return true; }
        if (m == "linf" && dim == 2) { out = [](const P &a, const P &b) { return (double)std::max(std::labs(a.x - b.x), std::labs(a.y - b.y)); }; return true; }
        return false;
    };
    const bool table = metric == "table6";

    auto num = [&](const char *k, long dflt) -> long {
        auto it = kv.find(k);
        if (it == kv.end()) return dflt;
        auto v = vp::parseNat(it->second);
        if (!v) { std::cout << "bad-header\n"; std::exit(2); }
        return (long)*v;
    };
    ompl::msg::noOutputHandler();
    std::unique_ptr<NN> nn;
    Gnat *gnat = nullptr;
    GnatN *gnatn = nullptr;
    if (kind == "linear") nn.reset(new ompl::NearestNeighborsLinear<P>());
    else if (kind == "sqrt") nn.reset(new ompl::NearestNeighborsSqrtApprox<P>());
    else if (kind == "gnat" || kind == "gnatnts")
    {
        ompl::RNG::setSeed((std::uint_fast32_t)(num("seed", 0) + 1));
        long deg = num("deg", 8), mn = num("min", 4), mx = num("max", 12), leaf = num("leaf", 50), cache = num("cache", 500), rebal = num("rebal", 0);
        if (kind == "gnat") nn.reset(gnat = new Gnat(deg, mn, mx, leaf, cache, rebal != 0));
        else nn.reset(gnatn = new GnatN(deg, mn, mx, leaf, cache, rebal != 0));
    }
    else { std::cout << "bad-header\n"; return 2; }
    if (!gnat && !gnatn && kv.count("seed")) ompl::RNG::setSeed((std::uint_fast32_t)(num("seed", 0) + 1));
    nn->setDistanceFunction(df);
    std::unique_ptr<ompl::GreedyKCenters<P>> kcsel;

    // heap-layout noise (header `noise=1`): blocks of the sizes the GNAT allocates (nodes, leaf buffers) are
    // allocated up front; the op `noisefree` releases them, so that (with the allocator in reuse mode) later
    // tree allocations land BELOW earlier ones.  Nothing the property talks about may depend on this.
    std::vector<void *> noiseBlocks;
    if (num("noise", 0) != 0)
    {
        std::vector<size_t> sizes = {sizeof(Gnat::Node), sizeof(GnatN::Node)};
        for (size_t c = 1; c <= 24; ++c) sizes.push_back(c * sizeof(P));
        for (int rep = 0; rep < 6; ++rep)
            for (size_t sz : sizes) noiseBlocks.push_back(::operator new(sz));
    }

    // parse a point starting at token i
    auto pt = [&](const std::vector<std::string> &t, size_t &i, P &out) -> bool {
        if (i + dim > t.size()) return false;
        auto a = vp::parseInt(t[i]);
        if (!a) return false;
        out.x = *a; out.y = 0;
        if (dim == 2)
        {
            auto b = vp::parseInt(t[i + 1]);
            if (!b) return false;
            out.y = *b;
        }
        if (table && (out.x < 0 || out.x > 5)) return false;
        if (std::labs(out.x) > 1000000000L || std::labs(out.y) > 1000000000L) return false;
        i += dim;
        return true;
    };
    // ONE result vector is reused for all nearestK / nearestR calls of a script, as planners do: each call
    // receives whatever the previous call left in it; when that is empty it is pre-filled with sentinel
    // elements (never stored, printed with distance 2000000000).  A query that does not clear / overwrite its
    // output parameter therefore shows stale entries.  list() gets the same treatment.
    const P SENT{987654321L, 987654321L};
    std::vector<P> shared, shlist;
    auto prefill = [&](std::vector<P> &v) {
        if (v.empty()) { v.push_back(SENT); v.push_back(SENT); }
    };
    auto sdist = [&](const P &q, const P &x) -> double { return x == SENT ? 2000000000.0 : df(q, x); };
    auto answer = [&](const P &q, const std::vector<P> &nbh) {
        std::string s = "k=" + std::to_string(nbh.size()) + " d=";
        for (size_t i = 0; i < nbh.size(); ++i) s += (i ? "," : "") + numStr(sdist(q, nbh[i]));
        s += " e=";
        for (size_t i = 0; i < nbh.size(); ++i) s += (i ? " " : "") + ptStr(nbh[i]);
        return s;
    };
    std::mt19937 before;
    auto snap = [&]() {
        if (gnat) before = gnat->pivotSelector_.rng_.generator_;
        if (gnatn) before = gnatn->pivotSelector_.rng_.generator_;
    };
    auto fin = [&](const std::string &res) {
        std::vector<P> &lst = shlist;
        lst.push_back(SENT);
        nn->list(lst);
        std::string s = res + " | sz=" + std::to_string(nn->size()) + " ls=" + std::to_string(lst.size());
        for (const P &p : lst) s += " " + ptStr(p);
        if (gnat) s += " | " + dumpGnat(*gnat, before);
        if (gnatn) s += " | " + dumpGnat(*gnatn, before);
        std::cout << s << "\n";
    };

    while (vp::readLine(line))
    {
        auto t = vp::tokens(line);
        if (t.empty()) continue;
        const std::string &op = t[0];
        size_t i = 1;
        P p;
        snap();
        if (op == "add" && pt(t, i, p) && i == t.size())
        {
            nn->add(p);
            fin("ok");
        }
        else if (op == "addv")
        {
            auto k = t.size() > 1 ? vp::parseNat(t[1]) : std::nullopt;
            std::vector<P> ps;
            bool ok = (bool)k;
            i = 2;
            if (ok)
                for (size_t j = 0; j < *k; ++j)
                {
                    if (!pt(t, i, p)) { ok = false; break; }
                    ps.push_back(p);
                }
            if (!ok || i != t.size()) { std::cout << "bad-op\n"; continue; }
            nn->add(ps);
            fin("ok");
        }
        else if (op == "rm" && pt(t, i, p) && i == t.size())
        {
            bool r = nn->remove(p);
            fin(r ? "true" : "false");
        }
        else if (op == "clear" && t.size() == 1)
        {
            nn->clear();
            fin("ok");
        }
        else if (op == "size" && t.size() == 1)
            fin(std::to_string(nn->size()));
        else if ((op == "integrity" || op == "print") && t.size() == 1 && (gnat || gnatn))
        {
            // the two debugging members of the GNATs: integrityCheck() (asserts are ON in this harness; it prints
            // only when it found an inconsistency) and operator<< (must not crash; non-empty iff there is a tree)
            std::ostringstream cap;
            std::streambuf *old = std::cout.rdbuf(cap.rdbuf());
            size_t nrem0 = gnat ? gnat->removed_.size() : gnatn->removed_.size();
            if (op == "integrity") { if (gnat) gnat->integrityCheck(); else gnatn->integrityCheck(); }
            else { if (gnat) cap << *gnat; else cap << *gnatn; }
            std::cout.rdbuf(old);
            size_t nrem1 = gnat ? gnat->removed_.size() : gnatn->removed_.size();
            bool tree = gnat ? gnat->tree_ != nullptr : gnatn->tree_ != nullptr;
            bool ok = nrem0 == nrem1 && (op == "integrity" ? cap.str().empty() : (cap.str().empty() == !tree));
            fin(ok ? "ok" : "debug-member-misbehaved");
        }
        else if (op == "noisefree" && t.size() == 1)
        {
            for (void *b : noiseBlocks) ::operator delete(b);
            noiseBlocks.clear();
            fin("ok");
        }
        else if (op == "sorted" && t.size() == 1)
            fin(nn->reportsSortedResults() ? "1" : "0");
        else if (op == "setdist" && t.size() == 2)
        {
            // setDistanceFunction AFTER elements were added (GNAT: rebuilds the tree with the new function)
            Dist nf;
            if (!metricByName(t[1], nf)) { std::cout << "bad-op\n"; continue; }
            df = nf;
            nn->setDistanceFunction(df);
            bool same = nn->getDistanceFunction()(P{3, 1}, P{8, 5}) == df(P{3, 1}, P{8, 5});
            fin(same ? "ok" : "getDistanceFunction-differs");
        }
        else if (op == "list" && t.size() == 1)
        {
            std::vector<P> lst{SENT};
            nn->list(lst);
            std::sort(lst.begin(), lst.end(), [](const P &a, const P &b) { return a.x != b.x ? a.x < b.x : a.y < b.y; });
            std::string s = "n=" + std::to_string(lst.size());
            for (const P &q : lst) s += " " + ptStr(q);
            fin(s);
        }
        else if (op == "nst" && pt(t, i, p) && i == t.size())
        {
            try
            {
                P r = nn->nearest(p);
                fin("d=" + numStr(df(p, r)) + " e=" + ptStr(r));
            }
            catch (const ompl::Exception &)
            {
                fin("none");
            }
        }
        else if (op == "nk" && pt(t, i, p) && i + 1 == t.size() && vp::parseNat(t[i]))
        {
            std::vector<P> &nbh = shared;
            prefill(nbh);
            nn->nearestK(p, (std::size_t)*vp::parseNat(t[i]), nbh);
            fin(answer(p, nbh));
        }
        else if (op == "nr" && pt(t, i, p) && i + 1 == t.size() && vp::parseInt(t[i]))
        {
            std::vector<P> &nbh = shared;
            prefill(nbh);
            nn->nearestR(p, (double)*vp::parseInt(t[i]), nbh);
            fin(answer(p, nbh));
        }
        else if (op == "kc" && t.size() >= 5)
        {
            auto k = vp::parseNat(t[1]), rows = vp::parseNat(t[2]), cols = vp::parseNat(t[3]), n = vp::parseNat(t[4]);
            std::vector<P> ps;
            bool ok = k && rows && cols && n && *k >= 1 && *n >= 1 && *rows <= 4096 && *cols <= 4096;
            i = 5;
            if (ok)
                for (size_t j = 0; j < *n; ++j)
                {
                    if (!pt(t, i, p)) { ok = false; break; }
                    ps.push_back(p);
                }
            if (!ok || i != t.size()) { std::cout << "bad-op\n"; continue; }
            if (!kcsel) kcsel.reset(new ompl::GreedyKCenters<P>());
            kcsel->setDistanceFunction(df);
            ompl::GreedyKCenters<P>::Matrix dists((Eigen::Index)*rows, (Eigen::Index)*cols);
            dists.setConstant(-7.0);
            std::vector<unsigned int> centers{77u, 78u};      // must be cleared by the callee
            std::mt19937 gen = kcsel->rng_.generator_;
            kcsel->kcenters(ps, (unsigned int)*k, centers, dists);
            std::uniform_real_distribution<> uni(0, 1);
            std::vector<double> us;
            while (!(gen == kcsel->rng_.generator_) && us.size() < 1000) us.push_back(uni(gen));
            std::string s = "u=" + (us.size() == 1 ? vp::bits(us[0]) : "?" + std::to_string(us.size()));
            s += " c=";
            for (size_t a = 0; a < centers.size(); ++a) s += (a ? "," : "") + std::to_string(centers[a]);
            bool resized = (size_t)dists.rows() != *rows || (size_t)dists.cols() != *cols;
            s += " dims=" + std::to_string(dists.rows()) + "x" + std::to_string(dists.cols());
            s += std::string(" resized=") + (resized ? "1" : "0") + " m=";
            bool inside = (size_t)dists.rows() >= ps.size() && (size_t)dists.cols() >= centers.size();
            for (size_t j = 0; j < ps.size() && inside; ++j)
            {
                if (j) s += ";";
                for (size_t a = 0; a < centers.size(); ++a)
                    s += (a ? "," : "") + (dists(j, a) == -7.0 ? std::string("u") : numStr(dists(j, a)));
            }
            if (!inside) s += "matrix-too-small";
            size_t untouched = 0;
            for (Eigen::Index a = 0; a < dists.rows() && !resized; ++a)      // a resized matrix is uninitialised
                for (Eigen::Index b = 0; b < dists.cols(); ++b)
                    if (dists(a, b) == -7.0) ++untouched;
            s += " untouched=" + (resized ? std::string("na") : std::to_string(untouched));
            std::cout << s << "\n";
        }
        else
            std::cout << "bad-op\n";
    }
    for (void *b : noiseBlocks) ::operator delete(b);
    return 0;
}
