// C15 harness: drives the real ompl::ProlateHyperspheroid, GeometricEquations and the informed
// samplers (PathLengthDirectInfSampler, RejectionInfSampler, OrderedInfSampler) from /repo/src
// through the line protocol.  Links libompl.
//
// * `private`/`protected` are opened for this translation unit only, around the informed-sampler
//   headers (no source hook), to reach listPhsPtrs_, summedMeasure_, updatePhsDefinitions,
//   numberOfPhsInclusions, isInAnyPhs, keepSample.
// * The rotation of a PHS lives behind a pimpl; it is recovered column by column through
//   transform() at a large transverse diameter (R does not depend on the diameter).
// * The direct sampler's private RNG draws are made injectable for the model without touching the code: the harness
//   seeds sampler.rng_ (setLocalSeed) and an identically seeded twin ompl::RNG; the per-iteration draw order of
//   samplePhsRejectBounds is fixed (uniform01 for randomPhsPtr if >1 PHS, uniformInBall, uniform01 for keepSample if
//   >1 PHS), so the twin yields the draw stream the real call will consume; the number of iterations the real call
//   made is read off by advancing the twin until its mt19937 state equals the sampler's.
// * Scripted base sampler: a RealVectorStateSpace subclass whose default sampler pops states from a
//   queue (so the rejection loops run in lock-step with the model) or falls back to the real one.
#include "common/proto.h"
#include <algorithm>
#include <atomic>
#include <chrono>
#include <cmath>
#include <boost/math/constants/constants.hpp>
#include <cstdlib>
#include <condition_variable>
#include <deque>
#include <functional>
#include <limits>
#include <list>
#include <map>
#include <memory>
#include <mutex>
#include <queue>
#include <random>
#include <set>
#include <stdexcept>
#include <thread>
#include <vector>
// RNG::generator_ is needed to replay the direct sampler's private draws with a twin generator
#define private public
#define protected public
#include <ompl/util/RandomNumbers.h>
#include <ompl/base/StateSampler.h>
#undef private
#undef protected
#include <ompl/base/State.h>
#include <ompl/base/StateSpace.h>
#include <ompl/base/StateSampler.h>
#include <ompl/base/Cost.h>
#include <ompl/base/spaces/RealVectorStateSpace.h>
#include <ompl/base/spaces/SO2StateSpace.h>
#include <ompl/base/spaces/SO3StateSpace.h>
#include <ompl/base/spaces/SE2StateSpace.h>
#include <ompl/base/spaces/SE3StateSpace.h>
#include <ompl/base/spaces/DubinsStateSpace.h>
#include <ompl/base/spaces/ReedsSheppStateSpace.h>
#include <ompl/base/spaces/WrapperStateSpace.h>
#include <ompl/base/spaces/DiscreteStateSpace.h>
#include <ompl/base/Goal.h>
#include <ompl/util/RandomNumbers.h>
#include <ompl/util/ProlateHyperspheroid.h>
#include <ompl/util/GeometricEquations.h>
#include <ompl/util/Exception.h>
#include <ompl/util/Console.h>
#define private public
#define protected public
#include <ompl/base/samplers/InformedStateSampler.h>
#include <ompl/base/samplers/informed/PathLengthDirectInfSampler.h>
#include <ompl/base/samplers/informed/RejectionInfSampler.h>
#include <ompl/base/samplers/informed/OrderedInfSampler.h>
#undef private
#undef protected
#include <ompl/base/SpaceInformation.h>
#include <ompl/base/ProblemDefinition.h>
#include <ompl/base/OptimizationObjective.h>
#include <ompl/base/objectives/PathLengthOptimizationObjective.h>
#include <ompl/base/objectives/StateCostIntegralObjective.h>
#include <ompl/base/goals/GoalStates.h>
#include <ompl/base/ScopedState.h>

namespace ob = ompl::base;
using vp::bits;

struct Starved : std::runtime_error
{
    Starved() : std::runtime_error("scripted base sampler ran out of draws") {}
};

struct Script
{
    bool on = false;
    std::deque<std::vector<double>> q;
    unsigned long used = 0;
};
static Script g_script;
static bool g_leaky = false;

class ScriptedSampler : public ob::RealVectorStateSampler
{
public:
    ScriptedSampler(const ob::StateSpace *sp) : ob::RealVectorStateSampler(sp) {}
    void sampleUniform(ob::State *st) override
    {
        if (!g_script.on)
        {
            ob::RealVectorStateSampler::sampleUniform(st);
            return;
        }
        if (g_script.q.empty())
            throw Starved();
        auto v = g_script.q.front();
        g_script.q.pop_front();
        ++g_script.used;
        auto *r = st->as<ob::RealVectorStateSpace::StateType>();
        for (size_t i = 0; i < v.size(); ++i)
            r->values[i] = v[i];
    }
};

class ScriptedRV : public ob::RealVectorStateSpace
{
public:
    ScriptedRV(unsigned n) : ob::RealVectorStateSpace(n) {}
    ob::StateSamplerPtr allocDefaultStateSampler() const override
    {
        return std::make_shared<ScriptedSampler>(this);
    }
};

// a CompoundStateSpace whose getType() is set by the deriving class (what SE2StateSpace etc. do): lets the harness present
// every (type, subspace list) combination the constructor of PathLengthDirectInfSampler distinguishes
class TypedCompound : public ob::CompoundStateSpace
{
public:
    TypedCompound(int type)
    {
        type_ = type;
    }
};

// a goal that is NOT a sampleable region
class PlainGoal : public ob::Goal
{
public:
    PlainGoal(const ob::SpaceInformationPtr &si) : ob::Goal(si) {}
    bool isSatisfied(const ob::State *) const override
    {
        return false;
    }
};

static std::string vecBits(const std::vector<double> &v)
{
    std::string s;
    for (size_t i = 0; i < v.size(); ++i)
        s += (i ? "," : "") + bits(v[i]);
    return s;
}

static bool takeVec(const std::vector<std::string> &t, size_t &i, size_t n, std::vector<double> &out)
{
    out.clear();
    for (size_t k = 0; k < n; ++k)
    {
        if (i >= t.size())
            return false;
        auto d = vp::parseBits(t[i++]);
        if (!d)
            return false;
        out.push_back(*d);
    }
    return true;
}

// R (column-major) of a PHS, recovered through transform() at a large transverse diameter; the
// diameter is restored afterwards (restore=0: leave unset is impossible, so callers re-set it).
static std::vector<double> recoverR(ompl::ProlateHyperspheroid &p, const std::vector<double> &f1,
                                    const std::vector<double> &f2)
{
    unsigned n = p.getDimension();
    double cmin = p.getMinTransverseDiameter();
    double big = 1.0 + cmin;
    for (unsigned i = 0; i < n; ++i)
        big += std::fabs(f1[i]) + std::fabs(f2[i]);
    double c0 = 1024.0 * big;
    p.setTransverseDiameter(c0);
    double conj = std::sqrt(c0 * c0 - cmin * cmin);
    std::vector<double> zero(n, 0.0), centre(n), img(n), R(n * n);
    p.transform(zero.data(), centre.data());
    for (unsigned j = 0; j < n; ++j)
    {
        std::vector<double> e(n, 0.0);
        e[j] = 1.0;
        p.transform(e.data(), img.data());
        double d = (j == 0) ? 0.5 * c0 : conj / 2.0;
        for (unsigned i = 0; i < n; ++i)
            R[j * n + i] = (img[i] - centre[i]) / d;
    }
    return R;
}

struct PhsEntry
{
    std::shared_ptr<ompl::ProlateHyperspheroid> p;
    std::vector<double> f1, f2, R;
    bool cset = false;
    double c = 0;
};

struct World
{
    std::vector<PhsEntry> phs;
    // sampler world
    std::string kind;  // rv se2 se3
    unsigned n = 0;
    double lo = 0, hi = 0;
    ob::StateSpacePtr space;
    ob::SpaceInformationPtr si;
    ob::ProblemDefinitionPtr pdef;
    std::vector<std::vector<double>> starts, goals;
    std::shared_ptr<ob::InformedSampler> smp;
    std::shared_ptr<ob::PathLengthDirectInfSampler> direct;   // when smp (or the wrapped one) is direct
    std::shared_ptr<ob::OrderedInfSampler> ord;               // OrderedInfSampler never frees its queue: the harness does
    std::string skind;
    std::vector<ompl::ProlateHyperspheroid *> phsIds;         // initial order of listPhsPtrs_
    ob::State *st = nullptr;
    ompl::RNG rng;
};

static void setInformed(World &w, ob::State *s, const std::vector<double> &x)
{
    if (w.kind == "rv")
    {
        auto *r = s->as<ob::RealVectorStateSpace::StateType>();
        for (unsigned i = 0; i < w.n; ++i)
            r->values[i] = x[i];
    }
    else if (w.kind == "crv")
    {
        auto *r = s->as<ob::CompoundState>()->as<ob::RealVectorStateSpace::StateType>(0);
        for (unsigned i = 0; i < w.n; ++i)
            r->values[i] = x[i];
    }
    else if (w.kind == "se2x")
    {
        auto *r = s->as<ob::CompoundState>()->as<ob::RealVectorStateSpace::StateType>(1);
        r->values[0] = x[0];
        r->values[1] = x[1];
        s->as<ob::CompoundState>()->as<ob::SO2StateSpace::StateType>(0)->value = 0.0;
    }
    else if (w.kind == "se2" || w.kind == "dubins" || w.kind == "rs")
    {
        auto *r = s->as<ob::SE2StateSpace::StateType>();
        r->setXY(x[0], x[1]);
        r->setYaw(0.0);
    }
    else
    {
        auto *r = s->as<ob::SE3StateSpace::StateType>();
        r->setXYZ(x[0], x[1], x[2]);
        r->rotation().setIdentity();
    }
}

static std::vector<double> allReals(World &w, const ob::State *s)
{
    std::vector<double> v;
    w.space->copyToReals(v, s);
    return v;
}

// copyToReals order with the informed (position) reals FIRST — the harness's own knowledge of each space kind, not the sampler's
static std::vector<double> normReals(World &w, const ob::State *s)
{
    auto v = allReals(w, s);
    if (w.kind == "se2x")
        return {v[1], v[2], v[0]};
    return v;
}

// independent recomputation of the direct sampler's heuristic: min over (start, goal) of the focal sum
static double focalMin(World &w, const std::vector<double> &x)
{
    double best = std::numeric_limits<double>::infinity();
    for (auto &s : w.starts)
        for (auto &g : w.goals)
        {
            double a = 0, b = 0;
            for (unsigned i = 0; i < w.n; ++i)
            {
                a += (s[i] - x[i]) * (s[i] - x[i]);
                b += (x[i] - g[i]) * (x[i] - g[i]);
            }
            double v = std::sqrt(a) + std::sqrt(b);
            if (v < best)
                best = v;
        }
    return best;
}

static bool parseCost(const std::string &s, double &c)
{
    if (s == "inf")
    {
        c = std::numeric_limits<double>::infinity();
        return true;
    }
    auto d = vp::parseBits(s);
    if (!d)
        return false;
    c = *d;
    return true;
}

int main()
{
    ompl::msg::setLogLevel(ompl::msg::LOG_NONE);
    std::string line;
    if (!vp::readLine(line))
        return 2;
    auto hdr = vp::tokens(line);
    if (hdr.empty() || hdr[0] != "phs")
    {
        std::cout << "bad-header\n";
        return 2;
    }
    if (hdr.size() >= 2 && hdr[1].rfind("seed=", 0) == 0)
    {
        auto s = vp::parseNat(hdr[1].substr(5));
        if (s && *s > 0)
            ompl::RNG::setSeed(*s);
    }
    World w;

    while (vp::readLine(line))
    {
        auto t = vp::tokens(line);
        if (t.empty())
            continue;
        const std::string &op = t[0];
        try
        {
            if (op == "new" && t.size() >= 2 && vp::parseNat(t[1]))
            {
                size_t n = *vp::parseNat(t[1]), i = 2;
                PhsEntry e;
                if (n < 1 || n > 64 || !takeVec(t, i, n, e.f1) || !takeVec(t, i, n, e.f2) || i != t.size())
                {
                    std::cout << "bad-op\n";
                    continue;
                }
                e.p = std::make_shared<ompl::ProlateHyperspheroid>(n, e.f1.data(), e.f2.data());
                e.R = recoverR(*e.p, e.f1, e.f2);
                // a fresh object so that the probing diameter leaves no trace ("not up to date" is observable)
                e.p = std::make_shared<ompl::ProlateHyperspheroid>(n, e.f1.data(), e.f2.data());
                std::vector<double> centre(n);
                for (size_t k = 0; k < n; ++k)
                    centre[k] = 0.5 * (e.f1[k] + e.f2[k]);
                std::cout << "new id=" << w.phs.size() << " ~cmin=" << bits(e.p->getMinTransverseDiameter())
                          << " dim=" << e.p->getPhsDimension() << "\n";
                w.phs.push_back(e);
            }
            else if (op == "probe" && t.size() == 2 && vp::parseNat(t[1]) && *vp::parseNat(t[1]) < w.phs.size())
            {
                std::cout << "probe R=" << vecBits(w.phs[*vp::parseNat(t[1])].R) << "\n";
            }
            else if (op == "rot" && t.size() >= 2 && vp::parseNat(t[1]) && *vp::parseNat(t[1]) < w.phs.size())
            {
                auto &e = w.phs[*vp::parseNat(t[1])];
                size_t i = 2, n = e.f1.size();
                std::vector<double> R;
                if (!takeVec(t, i, n * n, R) || i != t.size())
                {
                    std::cout << "bad-op\n";
                    continue;
                }
                bool same = true;
                for (size_t k = 0; k < n * n; ++k)
                    if (bits(R[k]) != bits(e.R[k]))
                        same = false;
                std::cout << (same ? "rot hyp=1" : "rot hyp=mismatch") << "\n";
            }
            else if (op == "setc" && t.size() == 3 && vp::parseNat(t[1]) && *vp::parseNat(t[1]) < w.phs.size() &&
                     vp::parseBits(t[2]))
            {
                auto &e = w.phs[*vp::parseNat(t[1])];
                try
                {
                    e.p->setTransverseDiameter(*vp::parseBits(t[2]));
                    e.cset = true;
                    e.c = *vp::parseBits(t[2]);
                    std::cout << "setc ok ~m=" << bits(e.p->getPhsMeasure()) << "\n";
                }
                catch (ompl::Exception &)
                {
                    std::cout << "setc throw\n";
                }
            }
            else if (op == "tf" && t.size() >= 2 && vp::parseNat(t[1]) && *vp::parseNat(t[1]) < w.phs.size())
            {
                auto &e = w.phs[*vp::parseNat(t[1])];
                size_t i = 2, n = e.f1.size();
                std::vector<double> u, x(n);
                if (!takeVec(t, i, n, u) || i != t.size())
                {
                    std::cout << "bad-op\n";
                    continue;
                }
                try
                {
                    e.p->transform(u.data(), x.data());
                    double pl = e.p->getPathLength(x.data());
                    std::cout << "tf ~x=" << vecBits(x) << " ~pl=" << bits(pl) << "\n";
                }
                catch (ompl::Exception &)
                {
                    std::cout << "tf throw\n";
                }
            }
            else if (op == "pt" && t.size() >= 2 && vp::parseNat(t[1]) && *vp::parseNat(t[1]) < w.phs.size())
            {
                auto &e = w.phs[*vp::parseNat(t[1])];
                size_t i = 2, n = e.f1.size();
                std::vector<double> x;
                if (!takeVec(t, i, n, x) || i != t.size())
                {
                    std::cout << "bad-op\n";
                    continue;
                }
                try
                {
                    bool in = e.p->isInPhs(x.data()), on = e.p->isOnPhs(x.data());
                    double pl = e.p->getPathLength(x.data());
                    std::cout << "pt ~pl=" << bits(pl) << " in=" << in << " on=" << on << "\n";
                }
                catch (ompl::Exception &)
                {
                    std::cout << "pt throw\n";
                }
            }
            else if (op == "meas" && t.size() == 3 && vp::parseNat(t[1]) && *vp::parseNat(t[1]) < w.phs.size() &&
                     vp::parseBits(t[2]))
            {
                auto &e = w.phs[*vp::parseNat(t[1])];
                try
                {
                    double m = e.p->getPhsMeasure(*vp::parseBits(t[2]));
                    std::cout << "meas ~m=" << bits(m) << "\n";
                }
                catch (ompl::Exception &)
                {
                    std::cout << "meas throw\n";
                }
            }
            else if (op == "ball" && t.size() == 2 && vp::parseNat(t[1]) && *vp::parseNat(t[1]) <= 400)
            {
                std::cout << "ball ~m=" << bits(ompl::unitNBallMeasure(*vp::parseNat(t[1]))) << "\n";
            }
            else if (op == "surf" && t.size() == 3 && vp::parseNat(t[1]) && *vp::parseNat(t[1]) < w.phs.size() &&
                     vp::parseNat(t[2]))
            {
                // harness-only: RNG::uniformProlateHyperspheroidSurface / uniformProlateHyperspheroid
                auto &e = w.phs[*vp::parseNat(t[1])];
                size_t N = *vp::parseNat(t[2]), n = e.f1.size();
                std::vector<double> x(n);
                double maxrel = 0, maxin = -1e300;
                size_t out = 0;
                if (!e.cset)
                {
                    std::cout << "surf unset\n";
                    continue;
                }
                for (size_t k = 0; k < N; ++k)
                {
                    w.rng.uniformProlateHyperspheroidSurface(e.p, x.data());
                    double pl = e.p->getPathLength(x.data());
                    maxrel = std::max(maxrel, std::fabs(pl - e.c) / e.c);
                }
                for (size_t k = 0; k < N; ++k)
                {
                    w.rng.uniformProlateHyperspheroid(e.p, x.data());
                    double pl = e.p->getPathLength(x.data());
                    if (!e.p->isInPhs(x.data()))
                        ++out;
                    maxin = std::max(maxin, (pl - e.c) / e.c);
                }
                std::cout << "surf maxrel=" << bits(maxrel) << " ballout=" << out << " maxin=" << bits(maxin) << "\n";
            }
            // ------------------------------------------------------------------ sampler world
            else if (op == "space" && t.size() >= 2)
            {
                size_t i = 2;
                if (w.ord)
                    w.ord->clearBatch();
                w.ord.reset();
                if (w.st)
                {
                    w.space->freeState(w.st);
                    w.st = nullptr;
                }
                w.kind = t[1];
                if (w.kind == "rv" || w.kind == "crv")
                {
                    if (t.size() != 5 || !vp::parseNat(t[2]) || !vp::parseBits(t[3]) || !vp::parseBits(t[4]))
                    {
                        std::cout << "bad-op\n";
                        continue;
                    }
                    w.n = *vp::parseNat(t[2]);
                    w.lo = *vp::parseBits(t[3]);
                    w.hi = *vp::parseBits(t[4]);
                    if (w.kind == "rv")
                    {
                        auto sp = std::make_shared<ScriptedRV>(w.n);
                        sp->setBounds(w.lo, w.hi);
                        w.space = sp;
                    }
                    else
                    {
                        // a CompoundStateSpace with ONE real-vector subspace (explicitly accepted by the constructor)
                        auto rv = std::make_shared<ob::RealVectorStateSpace>(w.n);
                        rv->setBounds(w.lo, w.hi);
                        auto cs = std::make_shared<ob::CompoundStateSpace>();
                        cs->addSubspace(rv, 1.0);
                        cs->lock();
                        w.space = cs;
                    }
                }
                else if (w.kind == "se2" || w.kind == "se3" || w.kind == "dubins" || w.kind == "rs" || w.kind == "se2x")
                {
                    if (t.size() != 4 || !vp::parseBits(t[2]) || !vp::parseBits(t[3]))
                    {
                        std::cout << "bad-op\n";
                        continue;
                    }
                    w.lo = *vp::parseBits(t[2]);
                    w.hi = *vp::parseBits(t[3]);
                    w.n = w.kind == "se3" ? 3 : 2;
                    ob::RealVectorBounds b(w.n);
                    b.setLow(w.lo);
                    b.setHigh(w.hi);
                    if (w.kind == "se2")
                    {
                        auto sp = std::make_shared<ob::SE2StateSpace>();
                        sp->setBounds(b);
                        w.space = sp;
                    }
                    else if (w.kind == "dubins")
                    {
                        auto sp = std::make_shared<ob::DubinsStateSpace>();
                        sp->setBounds(b);
                        w.space = sp;
                    }
                    else if (w.kind == "rs")
                    {
                        auto sp = std::make_shared<ob::ReedsSheppStateSpace>();
                        sp->setBounds(b);
                        w.space = sp;
                    }
                    else if (w.kind == "se2x")
                    {
                        // SE(2)-typed compound with the subspaces the other way round: (SO2, R^2), weights as SE2StateSpace
                        auto sp = std::make_shared<TypedCompound>(ob::STATE_SPACE_SE2);
                        auto rv = std::make_shared<ob::RealVectorStateSpace>(2);
                        rv->setBounds(b);
                        sp->addSubspace(std::make_shared<ob::SO2StateSpace>(), 0.5);
                        sp->addSubspace(rv, 1.0);
                        sp->lock();
                        w.space = sp;
                    }
                    else
                    {
                        auto sp = std::make_shared<ob::SE3StateSpace>();
                        sp->setBounds(b);
                        w.space = sp;
                    }
                }
                else
                {
                    std::cout << "bad-op\n";
                    continue;
                }
                (void)i;
                w.si = std::make_shared<ob::SpaceInformation>(w.space);
                w.si->setStateValidityChecker([](const ob::State *) { return true; });
                w.si->setup();
                w.starts.clear();
                w.goals.clear();
                w.smp.reset();
                w.direct.reset();
                double inf = w.kind == "rv" ? w.space->getMeasure()
                                            : w.space->as<ob::CompoundStateSpace>()->getSubspace(w.kind == "se2x" ? 1 : 0)->getMeasure();
                std::cout << "space ok ~inf=" << bits(inf) << " ~tot=" << bits(w.space->getMeasure()) << "\n";
            }
            else if ((op == "starts" || op == "goals") && w.space && t.size() >= 2 && vp::parseNat(t[1]))
            {
                size_t k = *vp::parseNat(t[1]), i = 2;
                std::vector<std::vector<double>> vs;
                bool ok = k >= 1 && k <= 16;
                for (size_t a = 0; ok && a < k; ++a)
                {
                    std::vector<double> v;
                    ok = takeVec(t, i, w.n, v);
                    vs.push_back(v);
                }
                if (!ok || i != t.size())
                {
                    std::cout << "bad-op\n";
                    continue;
                }
                (op == "starts" ? w.starts : w.goals) = vs;
                std::cout << op << " ok\n";
            }
            else if (op == "mk" && w.space && !w.starts.empty() && !w.goals.empty() && t.size() >= 4 &&
                     vp::parseNat(t[2]) && vp::parseBits(t[3]))
            {
                // mk <direct|rej|ord-direct|ord-rej> <numIters> <goal threshold bits> [batch]
                w.skind = t[1];
                unsigned numIters = *vp::parseNat(t[2]);
                double thr = *vp::parseBits(t[3]);
                unsigned batch = t.size() >= 5 && vp::parseNat(t[4]) ? *vp::parseNat(t[4]) : 10;
                w.pdef = std::make_shared<ob::ProblemDefinition>(w.si);
                if (w.st)
                    w.space->freeState(w.st);
                w.st = w.space->allocState();
                setInformed(w, w.st, std::vector<double>(w.n, 0.0));
                for (auto &s : w.starts)
                {
                    ob::State *x = w.space->allocState();
                    setInformed(w, x, s);
                    w.pdef->addStartState(x);
                    w.space->freeState(x);
                }
                auto gs = std::make_shared<ob::GoalStates>(w.si);
                for (auto &g : w.goals)
                {
                    ob::State *x = w.space->allocState();
                    setInformed(w, x, g);
                    gs->addState(x);
                    w.space->freeState(x);
                }
                gs->setThreshold(thr);
                w.pdef->setGoal(gs);
                w.pdef->setOptimizationObjective(std::make_shared<ob::PathLengthOptimizationObjective>(w.si));
                if (w.ord)
                    w.ord->clearBatch();
                w.ord.reset();
                w.direct.reset();
                w.phsIds.clear();
                g_script.on = false;
                g_script.q.clear();
                if (w.skind == "direct" || w.skind == "ord-direct")
                {
                    w.direct = std::make_shared<ob::PathLengthDirectInfSampler>(w.pdef, numIters);
                    for (auto &p : w.direct->listPhsPtrs_)
                        w.phsIds.push_back(p.get());
                    if (w.skind == "direct")
                        w.smp = w.direct;
                    else
                        w.smp = w.ord = std::make_shared<ob::OrderedInfSampler>(w.direct, batch);
                }
                else if (w.skind == "rej")
                    w.smp = std::make_shared<ob::RejectionInfSampler>(w.pdef, numIters);
                else if (w.skind == "ord-rej")
                    w.smp = w.ord = std::make_shared<ob::OrderedInfSampler>(
                        std::make_shared<ob::RejectionInfSampler>(w.pdef, numIters), batch);
                else
                {
                    std::cout << "bad-op\n";
                    continue;
                }
                std::cout << "mk ok nphs=" << (w.direct ? w.direct->listPhsPtrs_.size() : 0) << " has="
                          << (w.skind == "rej" || w.skind == "ord-rej" ? 0 : 1) << "\n";
                if (w.smp->hasInformedMeasure() != (w.skind == "direct" || w.skind == "ord-direct"))
                    std::cout << "# hasInformedMeasure unexpected\n";
            }
            else if (op == "sprobe" && w.direct && t.size() == 1)
            {
                // harness-only: R of each internal PHS (their diameter is re-set by the next update)
                std::string s = "sprobe";
                size_t k = 0;
                for (auto &p : w.direct->listPhsPtrs_)
                {
                    auto &f1 = w.starts[k / w.goals.size()];
                    auto &f2 = w.goals[k % w.goals.size()];
                    // probe a twin object built from the same foci: same constructor, same rotation
                    ompl::ProlateHyperspheroid twin(w.n, f1.data(), f2.data());
                    s += " R" + std::to_string(k) + "=" + vecBits(recoverR(twin, f1, f2));
                    (void)p;
                    ++k;
                }
                std::cout << s << "\n";
            }
            else if (op == "srot" && w.direct && t.size() >= 2 && vp::parseNat(t[1]))
            {
                size_t k = *vp::parseNat(t[1]), i = 2;
                std::vector<double> R;
                if (k >= w.phsIds.size() || !takeVec(t, i, w.n * w.n, R) || i != t.size())
                {
                    std::cout << "bad-op\n";
                    continue;
                }
                auto &f1 = w.starts[k / w.goals.size()];
                auto &f2 = w.goals[k % w.goals.size()];
                ompl::ProlateHyperspheroid twin(w.n, f1.data(), f2.data());
                auto R2 = recoverR(twin, f1, f2);
                bool same = true;
                for (size_t a = 0; a < R.size(); ++a)
                    if (bits(R[a]) != bits(R2[a]))
                        same = false;
                std::cout << (same ? "rot hyp=1" : "rot hyp=mismatch") << "\n";
            }
            else if (op == "upd" && w.direct && t.size() == 2 && vp::parseBits(t[1]))
            {
                w.direct->updatePhsDefinitions(ob::Cost(*vp::parseBits(t[1])));
                std::string ids;
                for (auto &p : w.direct->listPhsPtrs_)
                {
                    size_t id = std::find(w.phsIds.begin(), w.phsIds.end(), p.get()) - w.phsIds.begin();
                    ids += (ids.empty() ? "" : ",") + std::to_string(id);
                }
                bool boundsBranch = w.direct->informedSubSpace_->getMeasure() <
                                    w.direct->summedMeasure_ / static_cast<double>(w.direct->listPhsPtrs_.size());
                std::cout << "upd ids=" << ids << " ~sum=" << bits(w.direct->summedMeasure_)
                          << " branch=" << (boundsBranch ? "B" : "P") << "\n";
            }
            else if (op == "hc" && w.smp && t.size() >= 1)
            {
                size_t i = 1;
                std::vector<double> x;
                if (!takeVec(t, i, w.n, x) || i != t.size())
                {
                    std::cout << "bad-op\n";
                    continue;
                }
                setInformed(w, w.st, x);
                // direct: the sampler's own (virtual) heuristic; rej: InformedSampler::heuristicSolnCost
                std::cout << "hc ~h=" << bits(w.smp->heuristicSolnCost(w.st).value()) << "\n";
            }
            else if (op == "nin" && w.direct)
            {
                size_t i = 1;
                std::vector<double> x;
                if (!takeVec(t, i, w.n, x) || i != t.size())
                {
                    std::cout << "bad-op\n";
                    continue;
                }
                std::cout << "nin k=" << w.direct->numberOfPhsInclusions(x) << " any=" << w.direct->isInAnyPhs(x) << "\n";
            }
            else if (op == "im" && w.smp && t.size() == 2 && vp::parseBits(t[1]))
            {
                std::cout << "im ~m=" << bits(w.smp->getInformedMeasure(ob::Cost(*vp::parseBits(t[1])))) << " has="
                          << w.smp->hasInformedMeasure() << "\n";
            }
            else if (op == "base" && w.kind == "rv" && t.size() >= 2 && vp::parseNat(t[1]))
            {
                size_t k = *vp::parseNat(t[1]), i = 2;
                bool ok = true;
                std::vector<std::vector<double>> vs;
                for (size_t a = 0; ok && a < k; ++a)
                {
                    std::vector<double> v;
                    ok = takeVec(t, i, w.n, v);
                    vs.push_back(v);
                }
                if (!ok || i != t.size())
                {
                    std::cout << "bad-op\n";
                    continue;
                }
                for (auto &v : vs)
                    g_script.q.push_back(v);
                std::cout << "base ok q=" << g_script.q.size() << "\n";
            }
            else if ((op == "su" || op == "su3") && w.smp && w.kind == "rv" && (w.skind == "direct" || w.skind == "rej") &&
                     t.size() == (op == "su" ? 2u : 3u))
            {
                double c, minc = 0;
                if (!parseCost(t.back(), c) || (op == "su3" && !parseCost(t[1], minc)))
                {
                    std::cout << "bad-op\n";
                    continue;
                }
                if (w.direct && std::isfinite(c))
                {
                    w.direct->updatePhsDefinitions(ob::Cost(c));
                    bool boundsBranch = w.direct->informedSubSpace_->getMeasure() <
                                        w.direct->summedMeasure_ / static_cast<double>(w.direct->listPhsPtrs_.size());
                    if (!boundsBranch)
                    {
                        std::cout << op << " phs-branch\n";
                        continue;
                    }
                }
                g_script.on = true;
                g_script.used = 0;
                bool found = false, starved = false;
                try
                {
                    found = op == "su" ? w.smp->sampleUniform(w.st, ob::Cost(c))
                                       : w.smp->sampleUniform(w.st, ob::Cost(minc), ob::Cost(c));
                }
                catch (Starved &)
                {
                    starved = true;
                }
                g_script.on = false;
                if (starved)
                    std::cout << op << " starved\n";
                else
                    std::cout << op << " found=" << found << " used=" << g_script.used << " x="
                              << (g_script.used ? vecBits(allReals(w, w.st)) : std::string("-")) << "\n";
            }
            else if (op == "nball" && t.size() == 3 && vp::parseNat(t[1]) && *vp::parseNat(t[1]) <= 400 && vp::parseBits(t[2]))
            {
                std::cout << "nball ~m=" << bits(ompl::nBallMeasure(*vp::parseNat(t[1]), *vp::parseBits(t[2]))) << "\n";
            }
            else if ((op == "supp" || op == "sup" || op == "sup3") && w.direct && w.skind == "direct" &&
                     t.size() >= (op == "sup3" ? 4u : 3u) && vp::parseNat(t[1]))
            {
                // PHS-sampling branch with replayed private draws.  supp <seed> <c>: print the draw stream (harness only);
                // sup <seed> <c> <draws…> / sup3 <seed> <minc> <c> <draws…>: real call, lock-step with the model
                unsigned seed = *vp::parseNat(t[1]);
                double c, minc = 0;
                size_t ci = op == "sup3" ? 3 : 2;
                if (!parseCost(t[ci], c) || !std::isfinite(c) || (op == "sup3" && !parseCost(t[2], minc)) || seed == 0)
                {
                    std::cout << "bad-op\n";
                    continue;
                }
                w.direct->updatePhsDefinitions(ob::Cost(c));
                bool boundsBranch = w.direct->informedSubSpace_->getMeasure() <
                                    w.direct->summedMeasure_ / static_cast<double>(w.direct->listPhsPtrs_.size());
                if (boundsBranch)
                {
                    std::cout << op << " bounds-branch\n";
                    continue;
                }
                size_t k = w.direct->listPhsPtrs_.size();
                unsigned lim = w.direct->numIters_;
                ompl::RNG twin(seed);
                std::vector<double> stream;
                for (unsigned it = 0; it < lim; ++it)
                {
                    // RAW draws: uniformInBall(1, v) = uniformNormalVector(v) (v.size() = the PHS dimension) + uniformReal(0,1);
                    // the model computes radiusScale = pow(u, 1/dim) and the ball point itself
                    double r1 = k > 1 ? twin.uniform01() : 0.0;
                    std::vector<double> v(w.n);
                    twin.uniformNormalVector(v);
                    double u = twin.uniformReal(0.0, 1.0);
                    double r2 = k > 1 ? twin.uniform01() : 0.0;
                    stream.push_back(r1);
                    stream.insert(stream.end(), v.begin(), v.end());
                    stream.push_back(u);
                    stream.push_back(r2);
                }
                // compound spaces: the rotation comes from uninformedSubSampler_'s OWN generator (seed + 1), one draw per KEPT
                // iteration (createFullState): SO2 -> uniformReal(-pi, pi), SO3 -> quaternion()
                // (whatever subspace the sampler took as "uninformed": SO2 -> 1 real, SO3 -> 4, a real-vector subspace -> its
                // dimension, each coordinate uniformReal(low, high); none -> no draws)
                int rtype = -1;
                size_t rdim = 0;
                if (w.direct->uninformedSubSampler_)
                {
                    rtype = w.direct->uninformedSubSpace_->getType();
                    rdim = rtype == ob::STATE_SPACE_SO2 ? 1 : (rtype == ob::STATE_SPACE_SO3 ? 4 : w.direct->uninformedSubSpace_->getDimension());
                }
                auto rotDraw = [&](ompl::RNG &g, std::vector<double> *out) {
                    if (rtype == ob::STATE_SPACE_SO2)
                    {
                        double y = g.uniformReal(-boost::math::constants::pi<double>(), boost::math::constants::pi<double>());
                        if (out)
                            out->push_back(y);
                    }
                    else if (rtype == ob::STATE_SPACE_SO3)
                    {
                        double q[4];
                        g.quaternion(q);
                        if (out)
                            out->insert(out->end(), q, q + 4);
                    }
                    else
                    {
                        for (size_t a = 0; a < rdim; ++a)
                        {
                            double y = g.uniformReal(w.lo, w.hi);
                            if (out)
                                out->push_back(y);
                        }
                    }
                };
                std::vector<double> rots;
                if (rdim)
                {
                    ompl::RNG rtwin(seed + 1);
                    for (unsigned it = 0; it < lim; ++it)
                        rotDraw(rtwin, &rots);
                }
                if (op == "supp")
                {
                    std::cout << "supp k=" << k << " draws=" << vecBits(stream) << " rots=" << (rdim ? vecBits(rots) : std::string("-")) << "\n";
                    continue;
                }
                size_t i = ci + 1;
                std::vector<double> given, grots;
                if (!takeVec(t, i, stream.size(), given) || !takeVec(t, i, rots.size(), grots) || i != t.size())
                {
                    std::cout << "bad-op\n";
                    continue;
                }
                bool same = true;
                for (size_t a = 0; a < stream.size(); ++a)
                    if (bits(given[a]) != bits(stream[a]))
                        same = false;
                for (size_t a = 0; a < rots.size(); ++a)
                    if (bits(grots[a]) != bits(rots[a]))
                        same = false;
                if (rdim)
                    w.direct->uninformedSubSampler_->rng_.setLocalSeed(seed + 1);
                if (!same)
                {
                    std::cout << op << " draws-mismatch\n";
                    continue;
                }
                w.direct->rng_.setLocalSeed(seed);
                bool found = op == "sup" ? w.direct->sampleUniform(w.st, ob::Cost(c))
                                         : w.direct->sampleUniform(w.st, ob::Cost(minc), ob::Cost(c));
                // how many iterations did the real call make?  advance a second twin until the generators agree
                ompl::RNG twin2(seed);
                long used = -1;
                for (unsigned it = 0; it <= lim; ++it)
                {
                    if (twin2.generator_ == w.direct->rng_.generator_)
                    {
                        used = it;
                        break;
                    }
                    if (k > 1)
                        twin2.uniform01();
                    std::vector<double> v(w.n);
                    twin2.uniformInBall(1.0, v);
                    if (k > 1)
                        twin2.uniform01();
                }
                // how many rotation draws (= kept iterations) did it make?
                long kept = 0;
                if (rdim)
                {
                    kept = -1;
                    ompl::RNG rtwin2(seed + 1);
                    for (unsigned it = 0; it <= lim; ++it)
                    {
                        if (rtwin2.generator_ == w.direct->uninformedSubSampler_->rng_.generator_)
                        {
                            kept = it;
                            break;
                        }
                        rotDraw(rtwin2, nullptr);
                    }
                }
                std::cout << op << " found=" << found << " used=" << used << " kept=" << kept << " ~x="
                          << (found ? vecBits(allReals(w, w.st)) : std::string("-"))
                          << " inb=" << (found ? (w.space->satisfiesBounds(w.st) ? "1" : "0") : "-")
                          << " ~xi=" << (found ? vecBits(w.direct->getInformedSubstate(w.st)) : std::string("-")) << "\n";
            }
            else if (op == "iss" && w.smp && w.kind == "rv" && (w.skind == "direct" || w.skind == "rej") && t.size() == 2)
            {
                // InformedStateSampler wrapper over the current informed sampler, cost function = constant c
                double c;
                if (!parseCost(t[1], c))
                {
                    std::cout << "bad-op\n";
                    continue;
                }
                if (w.direct && std::isfinite(c))
                {
                    w.direct->updatePhsDefinitions(ob::Cost(c));
                    bool boundsBranch = w.direct->informedSubSpace_->getMeasure() <
                                        w.direct->summedMeasure_ / static_cast<double>(w.direct->listPhsPtrs_.size());
                    if (!boundsBranch)
                    {
                        std::cout << "iss phs-branch\n";
                        continue;
                    }
                }
                ob::InformedStateSampler iss(w.pdef, [c]() { return ob::Cost(c); }, w.smp);
                g_script.on = true;
                g_script.used = 0;
                bool starved = false;
                try
                {
                    iss.sampleUniform(w.st);
                }
                catch (Starved &)
                {
                    starved = true;
                }
                g_script.on = false;
                if (starved)
                    std::cout << "iss starved\n";
                else
                    std::cout << "iss used=" << g_script.used << " x=" << vecBits(allReals(w, w.st)) << " inb="
                              << w.space->satisfiesBounds(w.st) << "\n";
            }
            else if (op == "im2" && w.smp && t.size() == 3 && vp::parseBits(t[1]) && vp::parseBits(t[2]))
            {
                // InformedSampler::getInformedMeasure(minCost, maxCost): difference of the one-bound measures (direct);
                // the rejection sampler overrides it with the space measure
                double m = w.smp->getInformedMeasure(ob::Cost(*vp::parseBits(t[1])), ob::Cost(*vp::parseBits(t[2])));
                std::cout << "im2 ~m=" << bits(m) << "\n";
            }
            else if (op == "osu" && w.ord && w.skind == "ord-rej" && w.kind == "rv" && t.size() == 2)
            {
                // OrderedInfSampler over the rejection sampler, scripted base draws: queue, batches, top/pop in lock-step
                double c;
                if (!parseCost(t[1], c))
                {
                    std::cout << "bad-op\n";
                    continue;
                }
                g_script.on = true;
                g_script.used = 0;
                bool found = false, starved = false;
                try
                {
                    found = w.ord->sampleUniform(w.st, ob::Cost(c));
                }
                catch (Starved &)
                {
                    starved = true;
                    g_leaky = true;   // createBatch's scratch state leaks when the scripted sampler throws (harness artefact)
                }
                g_script.on = false;
                if (starved)
                    std::cout << "osu starved\n";
                else
                    std::cout << "osu found=" << found << " used=" << g_script.used << " x="
                              << (found ? vecBits(allReals(w, w.st)) : std::string("-")) << " q=" << w.ord->orderedSamples_.size() << "\n";
            }
            else if ((op == "uprobe" || op == "usurf" || op == "uball") && t.size() >= 3 && vp::parseNat(t[1]) &&
                     *vp::parseNat(t[1]) < w.phs.size() && vp::parseNat(t[2]) && *vp::parseNat(t[2]) > 0)
            {
                // RNG::uniformProlateHyperspheroidSurface / uniformProlateHyperspheroid with replayed draws (twin generator):
                // uprobe k seed -> the raw draws; usurf k seed dir… / uball k seed dir… u -> the real call's output
                auto &e = w.phs[*vp::parseNat(t[1])];
                unsigned seed = *vp::parseNat(t[2]);
                size_t n = e.f1.size();
                ompl::RNG twin(seed);
                std::vector<double> dsurf(n), dball(n);
                twin.uniformNormalVector(dsurf);
                ompl::RNG twinb(seed);
                twinb.uniformNormalVector(dball);
                double u = twinb.uniformReal(0.0, 1.0);
                if (op == "uprobe")
                {
                    std::cout << "uprobe dir=" << vecBits(dsurf) << " u=" << bits(u) << "\n";
                    continue;
                }
                size_t i = 3;
                std::vector<double> gd, gu;
                if (!takeVec(t, i, n, gd) || (op == "uball" && !takeVec(t, i, 1, gu)) || i != t.size())
                {
                    std::cout << "bad-op\n";
                    continue;
                }
                bool same = true;
                for (size_t a = 0; a < n; ++a)
                    if (bits(gd[a]) != bits(dsurf[a]))
                        same = false;
                if (op == "uball" && bits(gu[0]) != bits(u))
                    same = false;
                if (!same)
                {
                    std::cout << op << " draws-mismatch\n";
                    continue;
                }
                std::vector<double> x(n);
                try
                {
                    w.rng.setLocalSeed(seed);
                    if (op == "usurf")
                        w.rng.uniformProlateHyperspheroidSurface(e.p, x.data());
                    else
                        w.rng.uniformProlateHyperspheroid(e.p, x.data());
                    // did the call consume exactly this call's draws?
                    ompl::RNG after(seed);
                    std::vector<double> v(n);
                    after.uniformNormalVector(v);
                    if (op == "uball")
                        after.uniformReal(0.0, 1.0);
                    bool exact = after.generator_ == w.rng.generator_;
                    double pl = e.p->getPathLength(x.data());
                    std::cout << op << " consumed=" << exact << " ~x=" << vecBits(x) << " ~pl=" << bits(pl) << " in=" << e.p->isInPhs(x.data()) << "\n";
                }
                catch (ompl::Exception &)
                {
                    std::cout << op << " throw\n";
                }
            }
            else if (op == "issalloc" && w.pdef && w.space && t.size() == 3 && vp::parseNat(t[2]))
            {
                // InformedStateSampler(probDefn, maxNumberCalls, costFunc): the informed sampler comes from the OBJECTIVE's
                // allocInformedStateSampler (path length -> direct sampler; the base-class default -> rejection sampler)
                auto pd = std::make_shared<ob::ProblemDefinition>(w.si);
                for (unsigned k = 0; k < w.pdef->getStartStateCount(); ++k)
                    pd->addStartState(w.pdef->getStartState(k));
                pd->setGoal(w.pdef->getGoal());
                if (t[1] == "pl")
                    pd->setOptimizationObjective(std::make_shared<ob::PathLengthOptimizationObjective>(w.si));
                else if (t[1] == "int")
                    pd->setOptimizationObjective(std::make_shared<ob::StateCostIntegralObjective>(w.si));
                else
                {
                    std::cout << "bad-op\n";
                    continue;
                }
                ob::InformedStateSampler iss(pd, *vp::parseNat(t[2]), []() { return ob::Cost(1.0); });
                const char *kind = dynamic_cast<ob::PathLengthDirectInfSampler *>(iss.infSampler_.get()) ? "direct"
                                   : dynamic_cast<ob::RejectionInfSampler *>(iss.infSampler_.get())      ? "rej"
                                                                                                         : "other";
                std::cout << "issalloc kind=" << kind << " iters=" << iss.infSampler_->getMaxNumberOfIters()
                          << " has=" << iss.infSampler_->hasInformedMeasure() << "\n";
            }
            else if ((op == "issn" || op == "issg") && w.smp && w.kind == "rv" && t.size() >= 3 && vp::parseNat(t[1]) && vp::parseBits(t[2]))
            {
                // InformedStateSampler::sampleUniformNear / sampleGaussian: "not informed" — must be exactly the wrapper's OWN default
                // state sampler's answer (twin sampler with the same seed) and must not touch the informed sampler (its scripted base
                // sampler would throw on an empty queue)
                size_t i = 3;
                std::vector<double> c;
                unsigned seed = *vp::parseNat(t[1]);
                double par = *vp::parseBits(t[2]);
                if (!takeVec(t, i, w.n, c) || i != t.size() || seed == 0)
                {
                    std::cout << "bad-op\n";
                    continue;
                }
                ob::InformedStateSampler iss(w.pdef, []() { return ob::Cost(1.0); }, w.smp);
                auto twin = w.space->allocDefaultStateSampler();
                iss.baseSampler_->rng_.setLocalSeed(seed);
                twin->rng_.setLocalSeed(seed);
                ob::State *ctr = w.space->allocState(), *a = w.space->allocState(), *b = w.space->allocState();
                setInformed(w, ctr, c);
                bool touched = false;
                g_script.on = true;
                auto keepq = g_script.q;
                g_script.q.clear();
                try
                {
                    if (op == "issn")
                    {
                        iss.sampleUniformNear(a, ctr, par);
                        twin->sampleUniformNear(b, ctr, par);
                    }
                    else
                    {
                        iss.sampleGaussian(a, ctr, par);
                        twin->sampleGaussian(b, ctr, par);
                    }
                }
                catch (Starved &)
                {
                    touched = true;
                }
                g_script.on = false;
                g_script.q = keepq;
                auto xa = allReals(w, a), xb = allReals(w, b);
                bool fwd = !touched, within = true;
                for (unsigned k = 0; k < w.n; ++k)
                {
                    if (bits(xa[k]) != bits(xb[k]))
                        fwd = false;
                    if (op == "issn" && std::fabs(xa[k] - c[k]) > par && xa[k] > w.lo && xa[k] < w.hi)
                        within = false;
                }
                std::cout << op << " fwd=" << fwd << " within=" << within << " inb=" << w.space->satisfiesBounds(a) << "\n";
                w.space->freeState(ctr);
                w.space->freeState(a);
                w.space->freeState(b);
            }
            else if (op == "ctor" && t.size() >= 8)
            {
                // ctor <objective 0/1> <numStarts> <goalSampleable 0/1> <numGoals> <compound 0/1> <castOk 0/1> <type> <subspace kinds…>
                // builds a space that presents exactly this description to the constructor of PathLengthDirectInfSampler, a problem
                // definition with that many starts / goals, and constructs the real sampler: which exception, or which indices
                auto nat = [&](size_t k) { return vp::parseNat(t[k]); };
                if (!nat(1) || !nat(2) || !nat(3) || !nat(4) || !nat(5) || !nat(6) || *nat(2) > 8 || *nat(4) > 8)
                {
                    std::cout << "bad-op\n";
                    continue;
                }
                bool obj = *nat(1), gsamp = *nat(3), cmp = *nat(5), cast = *nat(6);
                size_t ns = *nat(2), ng = *nat(4);
                const std::string &ty = t[7];
                std::vector<std::string> subs(t.begin() + 8, t.end());
                std::map<std::string, int> tyEnum = {{"rv", ob::STATE_SPACE_REAL_VECTOR}, {"unknown", ob::STATE_SPACE_UNKNOWN},
                                                     {"se2", ob::STATE_SPACE_SE2},        {"se3", ob::STATE_SPACE_SE3},
                                                     {"dubins", ob::STATE_SPACE_DUBINS},  {"rs", ob::STATE_SPACE_REEDS_SHEPP},
                                                     {"other", ob::STATE_SPACE_TIME}};
                auto mkRV = [&]() {
                    auto rv = std::make_shared<ob::RealVectorStateSpace>(2);
                    rv->setBounds(-1.0, 1.0);
                    return rv;
                };
                ob::StateSpacePtr sp;
                bool realizable = tyEnum.count(ty) > 0;
                if (realizable && !cmp)
                {
                    // a non-compound space is never a CompoundStateSpace object
                    if (!subs.empty() || cast)
                        realizable = false;
                    else if (ty == "rv")
                        sp = mkRV();
                    else if (ty == "unknown")
                        sp = std::make_shared<ob::WrapperStateSpace>(mkRV());   // StateSpace::getType() of a wrapper: UNKNOWN
                    else if (ty == "other")
                        sp = std::make_shared<ob::SO2StateSpace>();
                    else
                        realizable = false;
                }
                else if (realizable && subs.empty())
                    realizable = false;   // an empty compound space cannot be set up
                else if (realizable)
                {
                    auto tc = std::make_shared<TypedCompound>(tyEnum[ty]);
                    for (auto &k : subs)
                    {
                        if (k == "rv")
                            tc->addSubspace(mkRV(), 1.0);
                        else if (k == "so2")
                            tc->addSubspace(std::make_shared<ob::SO2StateSpace>(), 0.5);
                        else if (k == "so3")
                            tc->addSubspace(std::make_shared<ob::SO3StateSpace>(), 1.0);
                        else if (k == "other")
                            tc->addSubspace(std::make_shared<ob::DiscreteStateSpace>(0, 3), 1.0);
                        else
                            realizable = false;
                    }
                    tc->lock();
                    if (cast)
                        sp = tc;
                    else if (ty == "unknown")
                        sp = std::make_shared<ob::WrapperStateSpace>(tc);       // isCompound() forwarded, type UNKNOWN, not castable
                    else
                        realizable = false;
                }
                if (!realizable || !sp)
                {
                    std::cout << "bad-op\n";
                    continue;
                }
                std::string res;
                try
                {
                    auto si = std::make_shared<ob::SpaceInformation>(sp);
                    si->setStateValidityChecker([](const ob::State *) { return true; });
                    si->setup();
                    auto pdef = std::make_shared<ob::ProblemDefinition>(si);
                    auto ss = sp->allocDefaultStateSampler();
                    ob::State *x = sp->allocState();
                    for (size_t k = 0; k < ns; ++k)
                    {
                        ss->sampleUniform(x);
                        pdef->addStartState(x);
                    }
                    if (gsamp)
                    {
                        auto gs = std::make_shared<ob::GoalStates>(si);
                        for (size_t k = 0; k < ng; ++k)
                        {
                            ss->sampleUniform(x);
                            gs->addState(x);
                        }
                        pdef->setGoal(gs);
                    }
                    else
                        pdef->setGoal(std::make_shared<PlainGoal>(si));
                    sp->freeState(x);
                    if (obj)
                        pdef->setOptimizationObjective(std::make_shared<ob::PathLengthOptimizationObjective>(si));
                    try
                    {
                        ob::PathLengthDirectInfSampler smp(pdef, 10);
                        res = "ctor ok compound=" + std::to_string(sp->isCompound() ? 1 : 0) + " inf=" + std::to_string(smp.informedIdx_) +
                              " un=" + std::to_string(smp.uninformedIdx_) + " hasun=" + (smp.uninformedSubSpace_ ? "1" : "0");
                        if (smp.listPhsPtrs_.size() != ns * ng)
                            res += " nphs-unexpected";
                    }
                    catch (ompl::Exception &e)
                    {
                        const std::string m = e.what();
                        static const std::vector<std::pair<std::string, int>> codes = {
                            {"An optimization objective must", 1}, {"At least one start state must", 2}, {"sampleable goal region", 3},
                            {"at least 1 start and", 4}, {"only supports Unknown, RealVector, SE2, and SE3", 5}, {"not a wrapper around", 6},
                            {"does not have exactly 2 subspaces", 7}, {"exactly one R^N and one SO", 10}, {"contains a subspace (", 8}, {"Provided compound state space of type", 9}};
                        int code = 0;
                        for (auto &c : codes)
                            if (m.find(c.first) != std::string::npos)
                            {
                                code = c.second;
                                break;
                            }
                        res = "ctor throw=" + std::to_string(code);
                    }
                }
                catch (std::exception &e)
                {
                    res = std::string("ctor env-exception ") + e.what();
                }
                std::cout << res << "\n";
            }
            else if (op == "addstart" && w.pdef && w.space && t.size() >= 2)
            {
                // history: a start state added to the problem definition AFTER the sampler was constructed
                size_t i = 1;
                std::vector<double> x;
                if (!takeVec(t, i, w.n, x) || i != t.size())
                {
                    std::cout << "bad-op\n";
                    continue;
                }
                ob::State *sx = w.space->allocState();
                setInformed(w, sx, x);
                w.pdef->addStartState(sx);
                w.space->freeState(sx);
                w.starts.push_back(x);
                std::cout << "addstart ok n=" << w.pdef->getStartStateCount() << "\n";
            }
            else if ((op == "bulk" || op == "bulk3") && w.smp && t.size() == (op == "bulk" ? 3u : 4u) &&
                     vp::parseNat(t.back()))
            {
                // harness-only: N calls with the library's own RNG; one line per sample
                double c, minc = 0;
                if (!parseCost(t[op == "bulk" ? 1 : 2], c) || (op == "bulk3" && !parseCost(t[1], minc)))
                {
                    std::cout << "bad-op\n";
                    continue;
                }
                size_t N = *vp::parseNat(t.back());
                for (size_t k = 0; k < N; ++k)
                {
                    bool ok = op == "bulk" ? w.smp->sampleUniform(w.st, ob::Cost(c))
                                           : w.smp->sampleUniform(w.st, ob::Cost(minc), ob::Cost(c));
                    if (!ok)
                    {
                        std::cout << "s ok=0\n";
                        continue;
                    }
                    auto all = normReals(w, w.st);
                    std::vector<double> x(all.begin(), all.begin() + w.n);
                    std::cout << "s ok=1 inb=" << w.space->satisfiesBounds(w.st) << " hc="
                              << bits(w.smp->heuristicSolnCost(w.st).value()) << " fm=" << bits(focalMin(w, x))
                              << " x=" << vecBits(all) << "\n";
                }
                std::cout << op << " done\n";
            }
            else if (op == "keep" && w.direct && t.size() >= 2 && vp::parseNat(t[1]))
            {
                // harness-only: acceptance count of keepSample at a fixed point
                size_t N = *vp::parseNat(t[1]), i = 2;
                std::vector<double> x;
                if (!takeVec(t, i, w.n, x) || i != t.size())
                {
                    std::cout << "bad-op\n";
                    continue;
                }
                size_t acc = 0;
                for (size_t k = 0; k < N; ++k)
                    acc += w.direct->keepSample(x) ? 1 : 0;
                std::cout << "keep acc=" << acc << " k=" << w.direct->numberOfPhsInclusions(x) << "\n";
            }
            else
                std::cout << "bad-op\n";
        }
        catch (Starved &)
        {
            std::cout << "starved\n";
        }
        catch (ompl::Exception &e)
        {
            std::cout << "exception " << e.what() << "\n";
        }
    }
    if (w.ord)
        w.ord->clearBatch();
    if (w.st)
        w.space->freeState(w.st);
    if (g_leaky)
    {
        std::cout.flush();
        std::_Exit(0);
    }
    return 0;
}
