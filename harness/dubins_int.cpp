// C14 harness #2: per-formula lock step (header `dint`).  DubinsStateSpace.cpp and ReedsSheppStateSpace.cpp are
// *included* into two sibling translation units (dubins_int_d.cpp, dubins_int_r.cpp; harness side, no hook in
// /repo) so that the functions of their anonymous namespaces are reachable.  Those TUs are compiled without
// NDEBUG: the solvers' own `assert`s are ACTIVE (an assertion failure aborts; stdout is flushed per line and the
// check records which operation did it).
//
//   rsbase <name> <x> <y> <phi>       -> `<t> <u> <v>` | `none`     name: LpSpLp LpSpRp LpRmL LpRupLumRm LpRumLumRp LpRmSmLm LpRmSmRm LpRmSLmRp
//   rsfam <fam> <x> <y> <phi>         -> `<letters> l0..l4 len=<l>` | `nopath`     fam: CSC CCC CCCC CCSC CCSCC, run on a default path
//   tauomega <u> <v> <xi> <eta> <phi> -> `<tau> <omega>`
//   dword <W> <d> <a> <b>             -> `<W> <t> <p> <q> len=<l>` | `nopath`      W: LSL RSR RSL LSR RLR LRL
//   dexh <d> <a> <b>                  -> same                                      dubinsExhaustive
//   dcls <d> <a> <b>                  -> same | `unclassified`                     dubinsClassification (`unclassified` when an angle is outside [0, 2pi]: the C++ would assert)
//   dlong <d> <a> <b>                 -> `0` | `1`                                 isLongPath
//   dquad <a>                         -> `0`..`4`                                  row of getDubinsClass (0 = outside [0, 2pi])
//   dsw <d> <a> <b>                   -> the 15 switching values
//   dm2p <x> / rsm2p <x>              -> mod2pi(x) of DubinsStateSpace.cpp / ReedsSheppStateSpace.cpp
#include "common/proto.h"
#include <limits>
// shared declarations (kept textually identical in dubins_int.cpp, dubins_int_d.cpp, dubins_int_r.cpp)
namespace dint
{
    struct DPath { int word; double t, p, q, len; };
    struct RPath { int type[5]; double l[5]; double len; };
    DPath dword(int w, double d, double a, double b);
    DPath dexh(double d, double a, double b);
    DPath dcls(double d, double a, double b);
    bool dclsSafe(double a, double b);
    int dquad(double a);
    bool dlong(double d, double a, double b);
    void dsw(double d, double a, double b, double *o);
    double dm2p(double x);
    bool rsbase(int name, double x, double y, double phi, double &t, double &u, double &v);
    RPath rsfam(int fam, double x, double y, double phi);
    void tauomega(double u, double v, double xi, double eta, double phi, double &tau, double &omega);
    double rsm2p(double x);
}

static void out(const std::string &s)
{
    std::cout << s << std::endl;
}

static bool num(const std::vector<std::string> &t, size_t from, size_t n, double *o)
{
    if (t.size() != from + n)
        return false;
    for (size_t i = 0; i < n; ++i)
    {
        auto v = vp::parseBits(t[from + i]);
        if (!v)
            return false;
        o[i] = *v;
    }
    return true;
}

static int idx(const std::string &s, const char *const *names, int n)
{
    for (int i = 0; i < n; ++i)
        if (s == names[i])
            return i;
    return -1;
}

static std::string showD(const dint::DPath &p)
{
    static const char *names[6] = {"LSL", "RSR", "RSL", "LSR", "RLR", "LRL"};
    if (p.p == std::numeric_limits<double>::max())
        return "nopath";
    return std::string(p.word >= 0 ? names[p.word] : "?") + " " + vp::bits(p.t) + " " + vp::bits(p.p) + " " + vp::bits(p.q) +
           " len=" + vp::bits(p.len);
}

int main()
{
    static const char *words[6] = {"LSL", "RSR", "RSL", "LSR", "RLR", "LRL"};
    static const char *bases[8] = {"LpSpLp", "LpSpRp", "LpRmL", "LpRupLumRm", "LpRumLumRp", "LpRmSmLm", "LpRmSmRm", "LpRmSLmRp"};
    static const char *fams[5] = {"CSC", "CCC", "CCCC", "CCSC", "CCSCC"};
    std::string line;
    if (!vp::readLine(line))
        return 2;
    auto h = vp::tokens(line);
    if (h.size() != 1 || h[0] != "dint")
    {
        std::cout << "bad-header\n";
        return 2;
    }
    double a[5];
    while (vp::readLine(line))
    {
        auto t = vp::tokens(line);
        if (t.empty())
            continue;
        const std::string &op = t[0];
        if (op == "rsbase" && t.size() == 5 && idx(t[1], bases, 8) >= 0 && num(t, 2, 3, a))
        {
            double tt = 0, u = 0, v = 0;
            if (dint::rsbase(idx(t[1], bases, 8), a[0], a[1], a[2], tt, u, v))
                out(vp::bits(tt) + " " + vp::bits(u) + " " + vp::bits(v));
            else
                out("none");
        }
        else if (op == "rsfam" && t.size() == 5 && idx(t[1], fams, 5) >= 0 && num(t, 2, 3, a))
        {
            auto p = dint::rsfam(idx(t[1], fams, 5), a[0], a[1], a[2]);
            if (p.len == std::numeric_limits<double>::max())
            {
                out("nopath");
                continue;
            }
            std::string s;
            for (int i = 0; i < 5; ++i)
                s += p.type[i] == 1 ? 'L' : p.type[i] == 3 ? 'R' : p.type[i] == 2 ? 'S' : 'N';
            for (double l : p.l)
                s += " " + vp::bits(l);
            out(s + " len=" + vp::bits(p.len));
        }
        else if (op == "tauomega" && num(t, 1, 5, a))
        {
            double tau = 0, om = 0;
            dint::tauomega(a[0], a[1], a[2], a[3], a[4], tau, om);
            out(vp::bits(tau) + " " + vp::bits(om));
        }
        else if (op == "dword" && t.size() == 5 && idx(t[1], words, 6) >= 0 && num(t, 2, 3, a))
            out(showD(dint::dword(idx(t[1], words, 6), a[0], a[1], a[2])));
        else if (op == "dexh" && num(t, 1, 3, a))
            out(showD(dint::dexh(a[0], a[1], a[2])));
        else if (op == "dcls" && num(t, 1, 3, a))
            out(dint::dclsSafe(a[1], a[2]) ? showD(dint::dcls(a[0], a[1], a[2])) : std::string("unclassified"));
        else if (op == "dlong" && num(t, 1, 3, a))
            out(dint::dlong(a[0], a[1], a[2]) ? "1" : "0");
        else if (op == "dquad" && num(t, 1, 1, a))
            out(std::to_string(dint::dquad(a[0])));
        else if (op == "dsw" && num(t, 1, 3, a))
        {
            double o[15];
            dint::dsw(a[0], a[1], a[2], o);
            std::string s;
            for (int i = 0; i < 15; ++i)
                s += (i ? " " : "") + vp::bits(o[i]);
            out(s);
        }
        else if (op == "dm2p" && num(t, 1, 1, a))
            out(vp::bits(dint::dm2p(a[0])));
        else if (op == "rsm2p" && num(t, 1, 1, a))
            out(vp::bits(dint::rsm2p(a[0])));
        else
            out("bad-op");
    }
    return 0;
}
