// C12 (fourth engine) harness: the chart PDF of the REAL ompl::base::AtlasStateSpace (chartPDF_, an anchored user of
// ompl::PDF).  AtlasStateSpace::newChart refreshes the weights of neighbouring charts BY POSITION
// (`chartPDF_.update(chartPDF_.getElements()[near.second], biasFunction_(other))`) and then adds the new chart, so it relies
// on "element k of the PDF is chart k".  The harness drives an atlas over a sphere or a torus with a SCRIPTED bias function
// (values incl. exactly 0, changing over time), creates charts through anchorChart / newChart / getChart(force) /
// discreteGeodesic / clear, records every call of the bias function (chart id, value returned) and after every op dumps the
// chart list and the whole chartPDF_ (element payload -> chart id, index_ fields, every tree cell as u64 bits).
// `private` of PDF.h is opened for this translation unit only; charts_ / chartPDF_ are protected (derived class).
//
// header:  atlas <sphere|torus> sep=<0|1> seed=<n>
//   bias const <v>                    bias(chart) = v
//   bias dist0                        distance from the first anchor (TangentBundle style: 0 for chart 0)
//   bias nbr                          chartCount - neighbourCount + 1 (the demos/constraint bias)
//   bias frontier                     1 if the chart has fewer than 2 neighbours else 0
//   bias table <k> <v>*k              the i-th call returns v[i mod k]
//   anchor <x>*3 | new <x>*3          anchorChart / newChart             -> id=<chart index | -1>
//   get <x>*3                         getChart(state, force = true)      -> id=<k> created=<0|1>
//   geo <x>*3 <y>*3                   discreteGeodesic(from, to)         -> ok=<0|1>
//   smp                               sampleChart()                      -> id=<k> | err-empty
//   smpn <N>                          N x sampleChart()                  -> counts=<c0,c1,..>
//   clear                             clear() (reinstates the anchors)   -> ok
// every line continues with ` | charts=<n> nb=<neighbour counts> | pdf n= ord= ix= rows= [..] | calls=<id>:<bits>;…`
#include "common/proto.h"
#include <ompl/util/Exception.h>
#include <vector>
#define private public
#include <ompl/datastructures/PDF.h>
#undef private
#include <ompl/base/Constraint.h>
#include <ompl/base/ConstrainedSpaceInformation.h>
#include <ompl/base/StateValidityChecker.h>
#include <ompl/base/spaces/RealVectorStateSpace.h>
#include <ompl/base/spaces/constraint/AtlasChart.h>
#include <ompl/base/spaces/constraint/AtlasStateSpace.h>
#include <ompl/util/Console.h>
#include <ompl/util/RandomNumbers.h>
#include <cmath>
#include <map>

namespace ob = ompl::base;

class Sphere : public ob::Constraint
{
public:
    Sphere() : ob::Constraint(3, 1)
    {
    }
    void function(const Eigen::Ref<const Eigen::VectorXd> &x, Eigen::Ref<Eigen::VectorXd> out) const override
    {
        out[0] = x.norm() - 1;
    }
    void jacobian(const Eigen::Ref<const Eigen::VectorXd> &x, Eigen::Ref<Eigen::MatrixXd> out) const override
    {
        out = x.transpose().normalized();
    }
};

// torus with major radius 2, minor radius 1 around the z axis
class Torus : public ob::Constraint
{
public:
    Torus() : ob::Constraint(3, 1)
    {
    }
    void function(const Eigen::Ref<const Eigen::VectorXd> &x, Eigen::Ref<Eigen::VectorXd> out) const override
    {
        const double q = std::sqrt(x[0] * x[0] + x[1] * x[1]);
        out[0] = std::sqrt((q - 2.0) * (q - 2.0) + x[2] * x[2]) - 1.0;
    }
    void jacobian(const Eigen::Ref<const Eigen::VectorXd> &x, Eigen::Ref<Eigen::MatrixXd> out) const override
    {
        const double q = std::sqrt(x[0] * x[0] + x[1] * x[1]);
        const double d = std::sqrt((q - 2.0) * (q - 2.0) + x[2] * x[2]);
        out(0, 0) = (q - 2.0) / d * x[0] / q;
        out(0, 1) = (q - 2.0) / d * x[1] / q;
        out(0, 2) = x[2] / d;
    }
};

class OpenAtlas : public ob::AtlasStateSpace
{
public:
    using ob::AtlasStateSpace::AtlasStateSpace;
    const std::vector<ob::AtlasChart *> &charts() const
    {
        return charts_;
    }
    ompl::PDF<ob::AtlasChart *> &pdf() const
    {
        return chartPDF_;
    }
};

int main()
{
    ompl::msg::setLogLevel(ompl::msg::LOG_NONE);
    std::string line;
    if (!vp::readLine(line))
        return 2;
    auto hdr = vp::tokens(line);
    if (hdr.size() != 4 || hdr[0] != "atlas" || (hdr[1] != "sphere" && hdr[1] != "torus") ||
        (hdr[2] != "sep=0" && hdr[2] != "sep=1") || hdr[3].rfind("seed=", 0) != 0 || !vp::parseNat(hdr[3].substr(5)))
    {
        std::cout << "bad-header\n";
        return 2;
    }
    ompl::RNG::setSeed(*vp::parseNat(hdr[3].substr(5)) + 1);
    auto ambient = std::make_shared<ob::RealVectorStateSpace>(3);
    ob::RealVectorBounds bounds(3);
    bounds.setLow(-4);
    bounds.setHigh(4);
    ambient->setBounds(bounds);
    ob::ConstraintPtr con;
    if (hdr[1] == "sphere")
        con = std::make_shared<Sphere>();
    else
        con = std::make_shared<Torus>();
    auto atlas = std::make_shared<OpenAtlas>(ambient, con, hdr[2] == "sep=1");
    auto csi = std::make_shared<ob::ConstrainedSpaceInformation>(atlas);
    csi->setStateValidityChecker(std::make_shared<ob::AllValidStateValidityChecker>(csi));
    atlas->setup();
    csi->setup();

    // ---- the scripted bias function; every call is recorded
    std::string kind = "const";
    double constv = 1.0;
    std::vector<double> table;
    size_t ncall = 0;
    std::string calls;
    ob::State *firstAnchor = nullptr;
    auto idOf = [&](const ob::AtlasChart *c) -> long {
        const auto &cs = atlas->charts();
        for (size_t i = 0; i < cs.size(); ++i)
            if (cs[i] == c)
                return (long)i;
        return -1;
    };
    ob::AtlasStateSpace::AtlasChartBiasFunction bias = [&](ob::AtlasChart *c) -> double {
        double v = 1.0;
        if (kind == "const")
            v = constv;
        else if (kind == "dist0")
            v = firstAnchor ? atlas->distance(firstAnchor, c->getOrigin()) : 1.0;
        else if (kind == "nbr")
            v = (double)atlas->getChartCount() - (double)c->getNeighborCount() + 1.0;
        else if (kind == "frontier")
            v = c->getNeighborCount() < 2 ? 1.0 : 0.0;
        else if (kind == "table")
            v = table[ncall % table.size()];
        ++ncall;
        calls += (calls.empty() ? "" : ";") + std::to_string(idOf(c)) + ":" + vp::bits(v);
        return v;
    };
    atlas->setBiasFunction(bias);

    auto dump = [&]() {
        const auto &cs = atlas->charts();
        std::string s = "charts=" + std::to_string(cs.size()) + " nb=";
        for (size_t i = 0; i < cs.size(); ++i)
            s += (i ? "," : "") + std::to_string(cs[i]->getNeighborCount());
        auto &p = atlas->pdf();
        s += " | pdf n=" + std::to_string(p.size()) + " ord=";
        for (size_t i = 0; i < p.data_.size(); ++i)
        {
            long id = idOf(p.data_[i]->data_);
            s += (i ? "," : "") + (id < 0 ? std::string("?") : std::to_string(id));
        }
        s += " ix=";
        for (size_t i = 0; i < p.data_.size(); ++i)
            s += (i ? "," : "") + std::to_string(p.data_[i]->index_);
        s += " rows=" + std::to_string(p.tree_.size());
        for (const auto &row : p.tree_)
        {
            s += " [" + std::to_string(row.size()) + ":";
            for (size_t j = 0; j < row.size(); ++j)
                s += (j ? "," : "") + vp::bits(row[j]);
            s += "]";
        }
        s += " | calls=" + calls;
        calls.clear();
        return s;
    };
    auto fin = [&](const std::string &res) { std::cout << res << " | " << dump() << std::endl; };
    auto stateOf = [&](const std::vector<std::string> &t, size_t at) -> ob::State * {
        ob::State *s = atlas->allocState();
        Eigen::VectorXd v(3);
        for (int d = 0; d < 3; ++d)
            v[d] = *vp::parseBits(t[at + d]);
        s->as<ob::ConstrainedStateSpace::StateType>()->copy(v);
        return s;
    };
    auto bitsOk = [&](const std::vector<std::string> &t, size_t at, size_t n) {
        if (t.size() < at + n)
            return false;
        for (size_t i = at; i < at + n; ++i)
            if (!vp::parseBits(t[i]))
                return false;
        return true;
    };

    while (vp::readLine(line))
    {
        auto t = vp::tokens(line);
        if (t.empty())
            continue;
        const std::string &op = t[0];
        try
        {
            if (op == "bias" && t.size() == 3 && t[1] == "const" && vp::parseBits(t[2]))
            {
                kind = "const";
                constv = *vp::parseBits(t[2]);
                fin("ok");
            }
            else if (op == "bias" && t.size() == 2 && (t[1] == "dist0" || t[1] == "nbr" || t[1] == "frontier"))
            {
                kind = t[1];
                fin("ok");
            }
            else if (op == "bias" && t.size() >= 4 && t[1] == "table" && vp::parseNat(t[2]) && *vp::parseNat(t[2]) > 0 &&
                     t.size() == 3 + *vp::parseNat(t[2]) && bitsOk(t, 3, *vp::parseNat(t[2])))
            {
                kind = "table";
                table.clear();
                for (size_t i = 3; i < t.size(); ++i)
                    table.push_back(*vp::parseBits(t[i]));
                fin("ok");
            }
            else if ((op == "anchor" || op == "new") && t.size() == 4 && bitsOk(t, 1, 3))
            {
                ob::State *s = stateOf(t, 1);
                ob::AtlasChart *c;
                if (op == "anchor")
                {
                    if (!firstAnchor)
                        firstAnchor = atlas->cloneState(s);
                    c = atlas->anchorChart(s);
                }
                else
                    c = atlas->newChart(s->as<ob::AtlasStateSpace::StateType>());
                atlas->freeState(s);
                fin("id=" + std::to_string(c ? idOf(c) : -1));
            }
            else if (op == "get" && t.size() == 4 && bitsOk(t, 1, 3))
            {
                ob::State *s = stateOf(t, 1);
                bool created = false;
                ob::AtlasChart *c = atlas->getChart(s->as<ob::AtlasStateSpace::StateType>(), true, &created);
                atlas->freeState(s);
                fin("id=" + std::to_string(c ? idOf(c) : -1) + " created=" + (created ? "1" : "0"));
            }
            else if (op == "geo" && t.size() == 7 && bitsOk(t, 1, 6))
            {
                ob::State *a = stateOf(t, 1), *b = stateOf(t, 4);
                std::vector<ob::State *> geo;
                bool ok = atlas->discreteGeodesic(a, b, false, &geo);
                for (auto *g : geo)
                    atlas->freeState(g);
                atlas->freeState(a);
                atlas->freeState(b);
                fin(std::string("ok=") + (ok ? "1" : "0"));
            }
            else if (op == "smp" && t.size() == 1)
            {
                ob::AtlasChart *c = atlas->sampleChart();
                fin("id=" + std::to_string(idOf(c)));
            }
            else if (op == "smpn" && t.size() == 2 && vp::parseNat(t[1]))
            {
                std::vector<unsigned long> cnt(atlas->charts().size(), 0);
                unsigned long other = 0;
                for (unsigned long i = 0; i < *vp::parseNat(t[1]); ++i)
                {
                    long id = idOf(atlas->sampleChart());
                    if (id < 0)
                        ++other;
                    else
                        ++cnt[id];
                }
                std::string s = "counts=";
                for (size_t i = 0; i < cnt.size(); ++i)
                    s += (i ? "," : "") + std::to_string(cnt[i]);
                fin(s + " other=" + std::to_string(other));
            }
            else if (op == "clear" && t.size() == 1)
            {
                atlas->clear();
                fin("ok");
            }
            else
                std::cout << "bad-op" << std::endl;
        }
        catch (const ompl::Exception &e)
        {
            std::string w = e.what();
            fin(w.find("empty PDF") != std::string::npos || w.find("sampleChart") != std::string::npos ? "err-empty" : "exception");
        }
    }
    if (firstAnchor)
        atlas->freeState(firstAnchor);
    return 0;
}
