// C12 (third engine) harness: lock-step runs of the REAL ompl::geometric::ProjEST — the shipped user that combines
// ompl::PDF with ompl::Grid — on R^n box environments with an explicit orthogonal projection
// (`proj <k> <component>*k <cellSize>*k`; explicit cell sizes, set on the planner, so nothing is inferred by sampling).
// Reads a configuration (same lines as the `drv_projest` driver), runs ProjEST::solve and
// prints (1) everything external the run consumed, so that the Lean model can be run on the same script:
//   us   : the planner's own rng_ stream.  rng_ is protected: the derived PeekProjEST re-seeds it with a known local seed and a
//          twin RNG with the same seed reproduces it (ProjEST calls uniform01 and uniformInt, which is one uniform01 draw
//          through uniformReal in this OMPL, so the stream of uniform01 values is all there is);
//   near : every result of sampler_->sampleNear (a recording ValidStateSampler wrapping UniformValidStateSampler);
//   gs   : every result of goal_s->sampleGoal (a GoalState subclass that records);
// and (2) what the run produced: status / flags / difference, the cell table in cell-creation order (coordinate, elem_ back-pointer,
// motions with state bits and parent), the whole PDF (element order, index_ fields, every tree cell as bits; `private` of PDF.h
// opened for this translation unit only), the reported path, and the next value of rng_ after solve (= draws consumed).
#include "common/proto.h"
#include <ompl/util/Exception.h>
#include <vector>
#define private public
#include <ompl/datastructures/PDF.h>
#undef private
#include "common/planning.h"
#include <ompl/base/spaces/RealVectorStateProjections.h>
#include <ompl/base/samplers/UniformValidStateSampler.h>
#include <ompl/base/spaces/RealVectorStateSpace.h>
#include <map>

namespace ob = ompl::base;
namespace og = ompl::geometric;

struct Logs
{
    std::vector<std::string> nears, gs;
};

class RecValidSampler : public ob::ValidStateSampler
{
public:
    RecValidSampler(const ob::SpaceInformation *si, std::shared_ptr<Logs> log)
      : ob::ValidStateSampler(si), inner_(si), log_(std::move(log))
    {
        name_ = "rec-uniform";
    }
    bool sample(ob::State *s) override
    {
        return inner_.sample(s);
    }
    bool sampleNear(ob::State *s, const ob::State *near, double d) override
    {
        bool ok = inner_.sampleNear(s, near, d);
        std::vector<double> r;
        si_->getStateSpace()->copyToReals(r, s);
        log_->nears.push_back(std::string("near ") + (ok ? "1 " : "0 ") + vp::showReals(r));
        return ok;
    }

private:
    ob::UniformValidStateSampler inner_;
    std::shared_ptr<Logs> log_;
};

class RecGoalState : public ob::GoalState
{
public:
    RecGoalState(const ob::SpaceInformationPtr &si, std::shared_ptr<Logs> log) : ob::GoalState(si), log_(std::move(log))
    {
    }
    void sampleGoal(ob::State *st) const override
    {
        ob::GoalState::sampleGoal(st);
        std::vector<double> r;
        si_->getStateSpace()->copyToReals(r, st);
        log_->gs.push_back("gs " + vp::showReals(r));
    }

private:
    std::shared_ptr<Logs> log_;
};

class PeekProjEST : public og::ProjEST
{
public:
    using og::ProjEST::ProjEST;
    void seedRng(std::uint_fast32_t s)
    {
        rng_.setLocalSeed(s);
    }
    double nextDraw()
    {
        return rng_.uniform01();
    }
    // the cell table in PDF (= cell creation) order: `k:coord:e<index_ of elem_>[!grid]:state^parent;...`, a motion's parent
    // printed as <cell>.<position>
    std::string cells() const
    {
        const auto &p = pdf_;
        std::map<const Motion *, std::string> loc;
        for (size_t k = 0; k < p.data_.size(); ++k)
        {
            const GridCell *c = p.data_[k]->data_;
            for (size_t j = 0; j < c->data.motions_.size(); ++j)
                loc[c->data.motions_[j]] = std::to_string(k) + "." + std::to_string(j);
        }
        std::string s = "cells n=" + std::to_string(p.data_.size()) + " grid=" + std::to_string(tree_.grid.size()) +
                        " motions=" + std::to_string(tree_.size);
        for (size_t k = 0; k < p.data_.size(); ++k)
        {
            GridCell *c = p.data_[k]->data_;
            s += " " + std::to_string(k) + ":";
            for (int d = 0; d < c->coord.size(); ++d)
                s += (d ? "," : "") + std::to_string(c->coord[d]);
            s += ":e" + std::to_string(c->data.elem_->index_);
            if (tree_.grid.getCell(c->coord) != c)
                s += "!grid";
            s += ":";
            for (size_t j = 0; j < c->data.motions_.size(); ++j)
            {
                const Motion *m = c->data.motions_[j];
                std::vector<double> r;
                si_->getStateSpace()->copyToReals(r, m->state);
                std::string st;
                for (size_t q = 0; q < r.size(); ++q)
                    st += (q ? "," : "") + vp::bits(r[q]);
                std::string par = "-1";
                if (m->parent)
                {
                    auto it = loc.find(m->parent);
                    par = it == loc.end() ? std::string("nowhere") : it->second;
                }
                s += (j ? ";" : "") + st + "^" + par;
            }
        }
        return s;
    }
    // the PDF as harness/pdf.cpp dumps it; an element is printed by its position, with `!` unless the cell it carries points
    // back at it (cell->data.elem_)
    std::string pdf() const
    {
        const auto &p = pdf_;
        std::string s = "pdf n=" + std::to_string(p.size()) + " ord=";
        for (size_t i = 0; i < p.data_.size(); ++i)
            s += (i ? "," : "") + std::to_string(i) + (p.data_[i]->data_->data.elem_ == p.data_[i] ? "" : "!");
        s += " ix=";
        for (size_t i = 0; i < p.data_.size(); ++i)
            s += (i ? "," : "") + std::to_string(p.data_[i]->index_);
        s += " rows=" + std::to_string(p.tree_.size());
        for (const auto &row : p.tree_)
        {
            s += " [" + std::to_string(row.size()) + ":";
            for (size_t j = 0; j < row.size(); ++j)
                s += (j ? "," : "") + vp::bits(row[j]);
            s += "]";
        }
        return s;
    }
};

int main()
{
    vp::quietLogs();
    std::string line;
    if (!vp::readLine(line))
        return 2;
    auto hdr = vp::tokens(line);
    if (hdr.size() != 2 || hdr[0] != "projest" || !vp::parseNat(hdr[1]) || *vp::parseNat(hdr[1]) == 0)
    {
        std::cout << "bad-header\n";
        return 2;
    }
    const unsigned dim = *vp::parseNat(hdr[1]);
    std::vector<double> lo, hi, goal;
    std::vector<std::vector<double>> starts;
    vp::Env env;
    double res = 0.01, range = 0.0, bias = 0.05, thr = std::numeric_limits<double>::epsilon();
    unsigned long seed = 1, iters = 0;
    std::vector<unsigned int> comps;
    std::vector<double> cellSizes;
    try
    {
        while (vp::readLine(line))
        {
            auto t = vp::tokens(line);
            if (t.empty())
                continue;
            size_t i = 1;
            const std::string &op = t[0];
            auto floats = [&](size_t n) {
                std::vector<double> v;
                for (size_t k = 0; k < n; ++k)
                    v.push_back(vp::needF(t, i));
                return v;
            };
            if (op == "bounds" && t.size() == 1 + 2 * dim)
            {
                lo = floats(dim);
                hi = floats(dim);
            }
            else if (op == "boxes")
            {
                i = 0;
                env.parse(t, i);
                if (i != t.size() || env.pdim > dim)
                    throw vp::ParseError("boxes");
            }
            else if (op == "res" && t.size() == 2)
                res = vp::needF(t, i);
            else if (op == "range" && t.size() == 2)
                range = vp::needF(t, i);
            else if (op == "bias" && t.size() == 2)
                bias = vp::needF(t, i);
            else if (op == "thr" && t.size() == 2)
                thr = vp::needF(t, i);
            else if (op == "goal" && t.size() == 1 + dim)
                goal = floats(dim);
            else if (op == "start" && t.size() == 1 + dim)
                starts.push_back(floats(dim));
            else if (op == "proj" && t.size() >= 2)
            {
                unsigned k = vp::needN(t, i);
                if (k == 0 || t.size() != 2 + 2 * k)
                    throw vp::ParseError("proj");
                for (unsigned j = 0; j < k; ++j)
                {
                    unsigned c = vp::needN(t, i);
                    if (c >= dim)
                        throw vp::ParseError("proj component");
                    comps.push_back(c);
                }
                for (unsigned j = 0; j < k; ++j)
                    cellSizes.push_back(vp::needF(t, i));
            }
            else if (op == "seed" && t.size() == 2)
                seed = vp::needN(t, i);
            else if (op == "iters" && t.size() == 2)
                iters = vp::needN(t, i);
            else if (op == "go" && t.size() == 1)
                break;
            else
                throw vp::ParseError(line);
        }
        if (lo.size() != dim || goal.size() != dim || comps.empty())
            throw vp::ParseError("incomplete configuration");
    }
    catch (const std::exception &e)
    {
        std::cout << "bad-op " << e.what() << "\n";
        return 2;
    }

    ompl::RNG::setSeed(seed ? seed : 1);
    auto space = std::make_shared<ob::RealVectorStateSpace>(dim);
    ob::RealVectorBounds b(dim);
    for (unsigned d = 0; d < dim; ++d)
    {
        b.low[d] = lo[d];
        b.high[d] = hi[d];
    }
    space->setBounds(b);
    auto si = std::make_shared<ob::SpaceInformation>(space);
    auto vc = std::make_shared<vp::RecordingValidityChecker>(si, env, false);
    si->setStateValidityChecker(vc);
    si->setStateValidityCheckingResolution(res);
    auto logs = std::make_shared<Logs>();
    si->setValidStateSamplerAllocator([logs](const ob::SpaceInformation *s) -> ob::ValidStateSamplerPtr {
        return std::make_shared<RecValidSampler>(s, logs);
    });
    si->setup();

    auto pdef = std::make_shared<ob::ProblemDefinition>(si);
    for (const auto &st : starts)
    {
        ob::ScopedState<> s(space);
        for (unsigned d = 0; d < dim; ++d)
            s[d] = st[d];
        pdef->addStartState(s);
    }
    auto gs = std::make_shared<RecGoalState>(si, logs);
    {
        ob::ScopedState<> g(space);
        for (unsigned d = 0; d < dim; ++d)
            g[d] = goal[d];
        gs->setState(g);
    }
    gs->setThreshold(thr);
    pdef->setGoal(gs);

    auto planner = std::make_shared<PeekProjEST>(si);
    planner->setProblemDefinition(pdef);
    planner->setRange(range);
    planner->setGoalBias(bias);
    planner->setProjectionEvaluator(std::make_shared<ob::RealVectorOrthogonalProjectionEvaluator>(space, cellSizes, comps));
    planner->setup();
    const std::uint_fast32_t lseed = (std::uint_fast32_t)(seed * 7919u + 12345u);
    planner->seedRng(lseed);
    logs->nears.clear();
    logs->gs.clear();

    auto cnt = std::make_shared<vp::EvalCounter>();
    cnt->fireAt = iters;
    ob::PlannerStatus st;
    std::string err;
    try
    {
        st = planner->solve(vp::evalCountPtc(cnt));
    }
    catch (const std::exception &e)
    {
        err = e.what();
        for (char &ch : err)
            if (ch == ' ' || ch == '\n')
                ch = '_';
    }

    // ---- what the run consumed
    {
        ompl::RNG twin(lseed);
        const size_t k = 3 * iters + 1;
        std::cout << "us " << k;
        for (size_t j = 0; j < k; ++j)
            std::cout << " " << vp::bits(twin.uniform01());
        std::cout << "\n";
    }
    for (const auto &l : logs->nears)
        std::cout << l << "\n";
    for (const auto &l : logs->gs)
        std::cout << l << "\n";
    std::cout << "iters " << iters << "\n";
    std::cout << "end-of-script\n";

    // ---- what the run produced
    if (!err.empty())
        std::cout << "exception " << err << "\n";
    const bool added = pdef->getSolutionCount() > 0;
    std::cout << "status=" << vp::statusName(st) << " bool=" << (st ? 1 : 0) << " added=" << (added ? 1 : 0) << " approx="
              << (added ? std::string(pdef->hasApproximateSolution() ? "1" : "0") : std::string("-")) << " diff=";
    // the difference handed to addSolutionPath (PlannerSolution stores it only for approximate solutions: exact -> 0 there),
    // so it is read from the planner's report: approximate -> getSolutionDifference(), exact -> the goal distance of the last state
    if (!added)
        std::cout << "-";
    else
    {
        auto path = pdef->getSolutionPath()->as<og::PathGeometric>();
        double d = 0;
        gs->isSatisfied(path->getStates().back(), &d);
        std::cout << vp::bits(d) << " pdefdiff=" << vp::bits(pdef->getSolutionDifference());
    }
    std::cout << " lvs=" << vp::bits(space->getLongestValidSegmentLength()) << " range=" << vp::bits(planner->getRange())
              << " nstart=" << pdef->getStartStateCount()
              << " nnear=" << logs->nears.size() << " ngs=" << logs->gs.size() << " evals=" << cnt->evals.load() << "\n";
    std::cout << planner->cells() << "\n";
    std::cout << planner->pdf() << "\n";
    if (added)
    {
        auto path = pdef->getSolutionPath()->as<og::PathGeometric>();
        std::cout << "path n=" << path->getStateCount();
        for (auto *s : path->getStates())
        {
            std::vector<double> r;
            space->copyToReals(r, s);
            std::string stt;
            for (size_t k = 0; k < r.size(); ++k)
                stt += (k ? "," : "") + vp::bits(r[k]);
            std::cout << " " << stt;
        }
        std::cout << "\n";
    }
    else
        std::cout << "path none\n";
    std::cout << "next " << vp::bits(planner->nextDraw()) << "\n";
    return 0;
}
