// C13 (round 2) harness: drives the real ompl::geometric::Discretization<Motion> (header-only template over
// GridB<CellData*, OrderCellsByImportance>) through the line protocol documented in
// lean/OmplModel/Driver/Discretization.lean.  `private`/`protected` are opened for the grid/heap/discretization
// headers in this translation unit only (no source hook) to read grid_, the heaps, size_, iteration_ and to reseed
// the private rng_ (`setLocalSeed(seed)` right before selectMotion: the Lean driver replays the two draws with the
// RNG model of C20).  Motions and cells are numbered in order of creation.
#include "common/proto.h"
#include <Eigen/Core>
#include <algorithm>
#include <map>
#include <memory>
#include <vector>
#include "ompl/base/Planner.h"
#include "ompl/base/PlannerData.h"
#include "ompl/base/SpaceInformation.h"
#include "ompl/base/spaces/RealVectorStateSpace.h"
#include "ompl/util/Exception.h"
#include "ompl/util/RandomNumbers.h"
#define private public
#define protected public
#include "ompl/datastructures/BinaryHeap.h"
#include "ompl/datastructures/GridB.h"
#include "ompl/geometric/planners/kpiece/Discretization.h"
#undef private
#undef protected

namespace ob = ompl::base;

struct Motion
{
    ob::State *state{nullptr};
    Motion *parent{nullptr};
    long id{-1};
    bool live{false};
};

using D = ompl::geometric::Discretization<Motion>;
using Cell = D::Cell;
using Coord = D::Coord;

static std::map<const void *, long> cellId;
static long nextCell = 0;

static std::string joinC(const std::vector<std::string> &v)
{
    if (v.empty())
        return "-";
    std::string s;
    for (size_t i = 0; i < v.size(); ++i)
        s += (i ? "," : "") + v[i];
    return s;
}

static std::string cid(const void *c)
{
    auto it = cellId.find(c);
    return it == cellId.end() ? std::string("?") : std::to_string(it->second);
}

static std::string dump(D &d, unsigned dim)
{
    auto &g = d.grid_;
    std::vector<Cell *> cells;
    g.getCells(cells);
    std::sort(cells.begin(), cells.end(), [](Cell *a, Cell *b) { return cellId.at(a) < cellId.at(b); });
    std::string s = "size=" + std::to_string(d.size_) + " iter=" + std::to_string(d.iteration_) +
                    " bf=" + vp::bits(d.selectBorderFraction_) + " tbl=" + std::to_string(g.size());
    s += " | n=" + std::to_string(g.size());
    for (Cell *c : cells)
    {
        std::vector<std::string> xs, ms;
        for (unsigned i = 0; i < dim; ++i)
            xs.push_back(std::to_string(c->coord[i]));
        for (Motion *m : c->data->motions)
            ms.push_back(std::to_string(m->id));
        s += " " + cid(c) + ":" + joinC(xs) + ":" + std::to_string(c->neighbors) + ":" + (c->border ? "1" : "0") + ":" +
             joinC(ms) + ":" + vp::bits(c->data->coverage) + ":" + std::to_string(c->data->selections) + ":" +
             vp::bits(c->data->score) + ":" + std::to_string(c->data->iteration) + ":" + vp::bits(c->data->importance);
    }
    std::vector<std::string> hi, he;
    for (auto *e : g.internal_.vector_)
        hi.push_back(cid(static_cast<Cell *>(e->data)));
    for (auto *e : g.external_.vector_)
        he.push_back(cid(static_cast<Cell *>(e->data)));
    s += " | I=" + joinC(hi) + " E=" + joinC(he);
    return s;
}

static bool coordAt(const std::vector<std::string> &t, size_t &i, unsigned dim, Coord &x)
{
    if (i + dim > t.size())
        return false;
    x.resize(dim);
    for (unsigned k = 0; k < dim; ++k)
    {
        auto v = vp::parseInt(t[i + k]);
        if (!v || *v < -2000000000LL || *v > 2000000000LL)
            return false;
        x[k] = (int)*v;
    }
    i += dim;
    return true;
}

int main()
{
    std::string line;
    if (!vp::readLine(line))
        return 2;
    auto h = vp::tokens(line);
    unsigned dim = 0;
    bool ok = h.size() == 2 && h[0] == "disc" && h[1].compare(0, 4, "dim=") == 0 && vp::parseNat(h[1].substr(4));
    if (ok)
    {
        dim = (unsigned)*vp::parseNat(h[1].substr(4));
        ok = dim <= 8;
    }
    if (!ok)
    {
        std::cout << "bad-header\n";
        return 2;
    }
    auto space = std::make_shared<ob::RealVectorStateSpace>(1);
    auto si = std::make_shared<ob::SpaceInformation>(space);
    std::vector<std::unique_ptr<Motion>> motions;   // all motions ever created (memory owned here)
    int rc = 0;
    {
        D disc([](Motion *m) { m->live = false; });
        disc.setDimension(dim);
        auto fin = [&](const std::string &res) { std::cout << res << " | " << dump(disc, dim) << std::endl; };

        while (vp::readLine(line))
        {
            auto t = vp::tokens(line);
            if (t.empty())
                continue;
            const std::string &op = t[0];
            size_t i = 1;
            Coord x;
            if (op == "add")
            {
                auto par = t.size() >= 2 ? vp::parseInt(t[1]) : std::nullopt;
                i = 2;
                if (!par || !coordAt(t, i, dim, x) || i + 1 != t.size() || !vp::parseBits(t[i]) || *par < -1 ||
                    *par >= (long long)motions.size())
                {
                    std::cout << "bad-op\n";
                    continue;
                }
                auto m = std::make_unique<Motion>();
                m->id = (long)motions.size();
                m->state = si->allocState();
                m->parent = *par < 0 ? nullptr : motions[*par].get();
                m->live = true;
                Motion *mp = m.get();
                motions.push_back(std::move(m));
                unsigned created = disc.addMotion(mp, x, *vp::parseBits(t[i]));
                if (created)
                {
                    Cell *c = disc.grid_.getCell(x);
                    cellId[c] = nextCell++;
                }
                fin("m=" + std::to_string(mp->id) + " created=" + std::to_string(created));
            }
            else if (op == "sel" && t.size() == 2 && vp::parseNat(t[1]))
            {
                if (disc.getMotionCount() == 0) { fin("none"); continue; }
                disc.rng_.setLocalSeed((std::uint_fast32_t)*vp::parseNat(t[1]));
                Motion *m = nullptr;
                Cell *c = nullptr;
                disc.selectMotion(m, c);
                std::vector<std::string> xs;
                for (unsigned k = 0; k < dim; ++k)
                    xs.push_back(std::to_string(c->coord[k]));
                fin("m=" + std::to_string(m->id) + " x=" + joinC(xs));
            }
            else if (op == "score")
            {
                if (!coordAt(t, i, dim, x) || i + 1 != t.size() || !vp::parseBits(t[i])) { std::cout << "bad-op\n"; continue; }
                Cell *c = disc.grid_.getCell(x);
                if (!c) { fin("absent"); continue; }
                c->data->score = *vp::parseBits(t[i]);
                disc.updateCell(c);
                fin("ok");
            }
            else if (op == "rm")
            {
                auto m = t.size() >= 2 ? vp::parseNat(t[1]) : std::nullopt;
                i = 2;
                if (!m || !coordAt(t, i, dim, x) || i != t.size()) { std::cout << "bad-op\n"; continue; }
                if (*m >= motions.size() || !motions[*m]->live) { fin("dead"); continue; }
                Cell *c = disc.grid_.getCell(x);
                bool found = disc.removeMotion(motions[*m].get(), x);
                if (found)
                    motions[*m]->live = false;   // the caller owns a removed motion
                if (c && !disc.grid_.getCell(x))
                    cellId.erase(c);
                fin(found ? "1" : "0");
            }
            else if (op == "iter" && t.size() == 1)
            {
                disc.countIteration();
                fin("ok");
            }
            else if (op == "bf" && t.size() == 2 && vp::parseBits(t[1]))
            {
                try
                {
                    disc.setBorderFraction(*vp::parseBits(t[1]));
                    fin("ok");
                }
                catch (ompl::Exception &)
                {
                    fin("err");
                }
            }
            else if (op == "clear" && t.size() == 1)
            {
                disc.clear();
                cellId.clear();
                fin("ok");
            }
            else if (op == "pd" && t.size() == 1)
            {
                ob::PlannerData pd(si);
                disc.getPlannerData(pd, 0, true, nullptr);
                fin("v=" + std::to_string(pd.numVertices()) + " e=" + std::to_string(pd.numEdges()) +
                    " r=" + std::to_string(pd.numStartVertices()));
            }
            else
                std::cout << "bad-op\n";
        }
    }
    for (auto &m : motions)
        si->freeState(m->state);
    return rc;
}
