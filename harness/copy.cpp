// C09 harness: drives the real OMPL state-space copy / clone / (de)serialize / reals / copyStateData code
// and StateStorage / PlannerDataStorage (geometric and control) through the line protocol of drv_copy.
// Everything before " # " on an output line is compared with the Lean model; what follows are
// implementation-only facts (equalStates, byte sizes, the byte-level truncation sweep) judged by the
// Python oracle.  States are filled and dumped by the harness' own typed walk over the state tree
// (never through the code under test).  No hooks in /repo; nothing private is opened.
#include "common/proto.h"
#include <ompl/base/StateSpace.h>
#include <ompl/base/spaces/RealVectorStateSpace.h>
#include <ompl/base/spaces/SO2StateSpace.h>
#include <ompl/base/spaces/SO3StateSpace.h>
#include <ompl/base/spaces/TimeStateSpace.h>
#include <ompl/base/spaces/DiscreteStateSpace.h>
#include <ompl/base/spaces/WrapperStateSpace.h>
#include <ompl/base/SpaceInformation.h>
#include <ompl/base/ScopedState.h>
#include <ompl/base/StateStorage.h>
#include <ompl/base/PlannerData.h>
#include <ompl/base/PlannerDataStorage.h>
#include <ompl/control/PlannerData.h>
#include <ompl/control/PlannerDataStorage.h>
#include <ompl/control/SpaceInformation.h>
#include <ompl/control/spaces/RealVectorControlSpace.h>
#include <ompl/control/spaces/DiscreteControlSpace.h>
#include <ompl/util/Console.h>
#include <ompl/util/Exception.h>
#include <boost/serialization/export.hpp>
#include <algorithm>
#include <functional>
#include <cstdlib>
#include <map>
#include <memory>
#include <set>

BOOST_CLASS_EXPORT(ompl::control::PlannerDataEdgeControl);

// ------------------------------------------------------------------------------------------ operator new
// libasan of g++ 12 cannot make the throwing `operator new` throw: for an absurd size it reports
// allocation-size-too-big / out-of-memory and aborts the process, even with allocator_may_return_null=1
// (which only makes *malloc* return null).  The real runtime throws std::bad_alloc, and what load() does with that
// exception is exactly what `pdcross` observes (F30).  So this translation unit replaces the global operator
// new/delete family by malloc/free wrappers (still ASan-instrumented allocations: overflow, use-after-free and
// leak detection are unaffected; only the new/delete-mismatch check is lost) that throw std::bad_alloc when malloc
// returns null.  The check sets ASAN_OPTIONS=allocator_may_return_null=1.
#include <new>
static void *vpAlloc(std::size_t n, std::size_t align = 0)
{
    if (n == 0)
        n = 1;
    void *p = nullptr;
    if (align > alignof(std::max_align_t))
    {
        if (posix_memalign(&p, align, n) != 0)
            p = nullptr;
    }
    else
        p = std::malloc(n);
    return p;
}
void *operator new(std::size_t n)
{
    if (void *p = vpAlloc(n))
        return p;
    throw std::bad_alloc();
}
void *operator new[](std::size_t n)
{
    if (void *p = vpAlloc(n))
        return p;
    throw std::bad_alloc();
}
void *operator new(std::size_t n, const std::nothrow_t &) noexcept { return vpAlloc(n); }
void *operator new[](std::size_t n, const std::nothrow_t &) noexcept { return vpAlloc(n); }
void *operator new(std::size_t n, std::align_val_t a)
{
    if (void *p = vpAlloc(n, (std::size_t)a))
        return p;
    throw std::bad_alloc();
}
void *operator new[](std::size_t n, std::align_val_t a)
{
    if (void *p = vpAlloc(n, (std::size_t)a))
        return p;
    throw std::bad_alloc();
}
void *operator new(std::size_t n, std::align_val_t a, const std::nothrow_t &) noexcept { return vpAlloc(n, (std::size_t)a); }
void *operator new[](std::size_t n, std::align_val_t a, const std::nothrow_t &) noexcept { return vpAlloc(n, (std::size_t)a); }
void operator delete(void *p) noexcept { std::free(p); }
void operator delete[](void *p) noexcept { std::free(p); }
void operator delete(void *p, std::size_t) noexcept { std::free(p); }
void operator delete[](void *p, std::size_t) noexcept { std::free(p); }
void operator delete(void *p, const std::nothrow_t &) noexcept { std::free(p); }
void operator delete[](void *p, const std::nothrow_t &) noexcept { std::free(p); }
void operator delete(void *p, std::align_val_t) noexcept { std::free(p); }
void operator delete[](void *p, std::align_val_t) noexcept { std::free(p); }
void operator delete(void *p, std::size_t, std::align_val_t) noexcept { std::free(p); }
void operator delete[](void *p, std::size_t, std::align_val_t) noexcept { std::free(p); }
void operator delete(void *p, std::align_val_t, const std::nothrow_t &) noexcept { std::free(p); }
void operator delete[](void *p, std::align_val_t, const std::nothrow_t &) noexcept { std::free(p); }

namespace ob = ompl::base;
namespace oc = ompl::control;

// ------------------------------------------------------------------------------------------ logging
struct Recorder : ompl::msg::OutputHandler
{
    unsigned errors = 0, warns = 0;
    void log(const std::string &, ompl::msg::LogLevel level, const char *, int) override
    {
        if (level == ompl::msg::LOG_ERROR)
            ++errors;
        if (level == ompl::msg::LOG_WARN)
            ++warns;
    }
};
static Recorder recorder;

// ------------------------------------------------------------------------------------------ spaces
struct Node
{
    char kind;  // R 2 3 T D C W
    unsigned long long nm = 0;
    unsigned n = 0;
    std::vector<std::shared_ptr<Node>> kids;
    ob::StateSpacePtr space;
};
using NodeP = std::shared_ptr<Node>;

// space names are "N" + the number, zero-padded to a fixed width: CompareSubstateLocation orders names as strings and
// the model orders the numbers; with a fixed width the two orders coincide
static bool g_spaced = false;  // header token "names=spaced": subspace names contain blanks (they are only ever map keys)
static std::string nameOf(unsigned long long nm)
{
    std::string d = std::to_string(nm);
    return std::string(g_spaced ? "N " : "N") + std::string(d.size() < 9 ? 9 - d.size() : 0, '0') + d + (g_spaced ? " sub space" : "");
}
static unsigned long long numOf(const std::string &name)
{
    size_t a = name.find_first_of("0123456789");
    return std::stoull(name.substr(a));
}

static bool isCompV(const NodeP &x)
{
    return x->kind == 'C' || (x->kind == 'W' && isCompV(x->kids[0]));
}
static bool hasWC(const NodeP &x)
{
    if (x->kind == 'W')
        return isCompV(x->kids[0]) || hasWC(x->kids[0]);
    if (x->kind == 'C')
        for (auto &k : x->kids)
            if (hasWC(k))
                return true;
    return false;
}
static bool zeroExt(const NodeP &x)
{
    if (x->kind == 'R')
        return x->n == 0;
    if (x->kind == 'W')
        return zeroExt(x->kids[0]);
    if (x->kind == 'C')
    {
        if (x->kids.empty())
            return true;
        for (auto &k : x->kids)
            if (zeroExt(k))
                return true;
    }
    return false;
}

static NodeP parseSp(const std::vector<std::string> &t, size_t &i)
{
    if (i >= t.size())
        return nullptr;
    auto x = std::make_shared<Node>();
    const std::string &k = t[i++];
    auto nat = [&](unsigned long long &out) {
        if (i >= t.size())
            return false;
        auto v = vp::parseNat(t[i++]);
        if (!v)
            return false;
        out = *v;
        return true;
    };
    if (!nat(x->nm))
        return nullptr;
    if (k == "R")
    {
        unsigned long long n;
        if (!nat(n) || n > 64)
            return nullptr;
        x->kind = 'R';
        x->n = n;
        auto s = std::make_shared<ob::RealVectorStateSpace>(x->n);
        if (x->n)
            s->setBounds(-1.0, 1.0);
        x->space = s;
    }
    else if (k == "S2")
    {
        x->kind = '2';
        x->space = std::make_shared<ob::SO2StateSpace>();
    }
    else if (k == "S3")
    {
        x->kind = '3';
        x->space = std::make_shared<ob::SO3StateSpace>();
    }
    else if (k == "T")
    {
        x->kind = 'T';
        x->space = std::make_shared<ob::TimeStateSpace>();
    }
    else if (k == "D")
    {
        x->kind = 'D';
        x->space = std::make_shared<ob::DiscreteStateSpace>(-5, 5);
    }
    else if (k == "W")
    {
        x->kind = 'W';
        auto c = parseSp(t, i);
        if (!c)
            return nullptr;
        x->kids.push_back(c);
        x->space = std::make_shared<ob::WrapperStateSpace>(c->space);
    }
    else if (k == "C")
    {
        unsigned long long n;
        if (!nat(n) || n > 16)
            return nullptr;
        x->kind = 'C';
        auto cs = std::make_shared<ob::CompoundStateSpace>();
        for (unsigned j = 0; j < n; ++j)
        {
            auto c = parseSp(t, i);
            if (!c)
                return nullptr;
            x->kids.push_back(c);
            cs->addSubspace(c->space, 1.0);
        }
        x->space = cs;
    }
    else
        return nullptr;
    // the name as seen through a base-class pointer (a wrapper keeps its own)
    static_cast<ob::StateSpace *>(x->space.get())->setName(nameOf(x->nm));
    return x;
}

// ------------------------------------------------------------------------------------------ own state walk
struct Ref
{
    double *d = nullptr;
    int *i = nullptr;
    std::string path;
};

static void walk(const NodeP &x, ob::State *st, const std::string &path, std::vector<Ref> &out)
{
    auto sub = [&](unsigned k) { return path.empty() ? std::to_string(k) : path + "." + std::to_string(k); };
    switch (x->kind)
    {
        case 'R':
            for (unsigned k = 0; k < x->n; ++k)
                out.push_back({st->as<ob::RealVectorStateSpace::StateType>()->values + k, nullptr, sub(k)});
            break;
        case '2':
            out.push_back({&st->as<ob::SO2StateSpace::StateType>()->value, nullptr, sub(0)});
            break;
        case '3':
        {
            auto *q = st->as<ob::SO3StateSpace::StateType>();
            out.push_back({&q->x, nullptr, sub(0)});
            out.push_back({&q->y, nullptr, sub(1)});
            out.push_back({&q->z, nullptr, sub(2)});
            out.push_back({&q->w, nullptr, sub(3)});
            break;
        }
        case 'T':
            out.push_back({&st->as<ob::TimeStateSpace::StateType>()->position, nullptr, sub(0)});
            break;
        case 'D':
            out.push_back({nullptr, &st->as<ob::DiscreteStateSpace::StateType>()->value, sub(0)});
            break;
        case 'W':
            walk(x->kids[0], st->as<ob::WrapperStateSpace::StateType>()->getState(), sub(0), out);
            break;
        case 'C':
            for (unsigned k = 0; k < x->kids.size(); ++k)
                walk(x->kids[k], st->as<ob::CompoundState>()->components[k], sub(k), out);
            break;
    }
}

static std::vector<Ref> refs(const NodeP &x, const ob::State *st)
{
    std::vector<Ref> r;
    walk(x, const_cast<ob::State *>(st), "", r);
    return r;
}

static std::string dumpAtoms(const NodeP &x, const ob::State *st)
{
    std::string s;
    for (auto &r : refs(x, st))
    {
        if (!s.empty())
            s += ",";
        if (r.d)
            s += "f" + vp::bits(*r.d);
        else
            s += "i" + std::to_string(*r.i);
    }
    return s.empty() ? "-" : s;
}

static std::string hexOf(const unsigned char *p, size_t n)
{
    static const char *dg = "0123456789abcdef";
    if (n == 0)
        return "-";
    std::string s;
    s.reserve(2 * n);
    for (size_t i = 0; i < n; ++i)
    {
        s += dg[p[i] >> 4];
        s += dg[p[i] & 15];
    }
    return s;
}

static std::string ownImage(const NodeP &x, const ob::State *st)
{
    std::vector<unsigned char> b;
    for (auto &r : refs(x, st))
    {
        unsigned char tmp[8];
        size_t n = r.d ? 8 : 4;
        std::memcpy(tmp, r.d ? (void *)r.d : (void *)r.i, n);
        b.insert(b.end(), tmp, tmp + n);
    }
    return hexOf(b.data(), b.size());
}

static void garbage(const NodeP &x, ob::State *st)
{
    for (auto &r : refs(x, st))
    {
        if (r.d)
        {
            uint64_t u = 0xABABABABABABABABull;
            std::memcpy(r.d, &u, 8);
        }
        else
            *r.i = 0x7b7b7b7b;
    }
}

static std::string serImage(const NodeP &x, const ob::State *st)
{
    unsigned l = x->space->getSerializationLength();
    std::vector<unsigned char> buf(l + 16, 0xCD);  // canaries after the image
    x->space->serialize(buf.data(), st);
    for (unsigned k = l; k < l + 16; ++k)
        if (buf[k] != 0xCD)
            return "OVERRUN";
    return hexOf(buf.data(), l);
}

static std::string bitsList(const std::vector<double> &v)
{
    std::string s;
    for (double d : v)
        s += (s.empty() ? "" : ",") + vp::bits(d);
    return s.empty() ? "-" : s;
}

static std::string chainStr(const std::vector<std::size_t> &c)
{
    if (c.empty())
        return "e";
    std::string s;
    for (size_t k = 0; k < c.size(); ++k)
        s += (k ? "." : "") + std::to_string(c[k]);
    return s;
}

// ------------------------------------------------------------------------------------------ engine state
struct StateRec
{
    unsigned long long spid;
    ob::State *st;
};
static bool g_fixed = false;  // header "copy wc=fixed": the code under test treats a wrapper as an opaque leaf (F32 repaired)
static std::map<unsigned long long, NodeP> spaces;
static std::map<unsigned long long, StateRec> states;

struct SplitMix
{
    uint64_t s;
    uint64_t next()
    {
        s += 0x9E3779B97F4A7C15ull;
        uint64_t z = s;
        z = (z ^ (z >> 30)) * 0xBF58476D1CE4E5B9ull;
        z = (z ^ (z >> 27)) * 0x94D049BB133111EBull;
        return z ^ (z >> 31);
    }
};

// offsets at which a stored stream of `n` bytes is truncated: every offset for archives up to
// C09_TRUNC_EXHAUSTIVE bytes (default 6000), otherwise C09_TRUNC_SAMPLES (default 400) sampled offsets + the
// first/last 64 + the known record boundaries
static size_t envNat(const char *name, size_t dflt)
{
    const char *v = std::getenv(name);
    if (!v)
        return dflt;
    auto n = vp::parseNat(v);
    return n ? (size_t)*n : dflt;
}
static std::vector<size_t> truncOffsets(size_t n, uint64_t seed, const std::vector<size_t> &boundaries)
{
    static const size_t exhaustive = envNat("C09_TRUNC_EXHAUSTIVE", 6000), samples = envNat("C09_TRUNC_SAMPLES", 400);
    std::set<size_t> o;
    if (n <= exhaustive)
        for (size_t k = 0; k < n; ++k)
            o.insert(k);
    else
    {
        SplitMix r{seed};
        for (size_t k = 0; k < samples; ++k)
            o.insert(r.next() % n);
        for (size_t k = 0; k < 64 && k < n; ++k)
        {
            o.insert(k);
            o.insert(n - 1 - k);
        }
        for (size_t b : boundaries)
            if (b < n)
                o.insert(b);
    }
    return std::vector<size_t>(o.begin(), o.end());
}

// ------------------------------------------------------------------------------------------ planner data
struct PDState
{
    unsigned long long spid = 0;
    NodeP node;
    int cdim = -1;  // -1: geometric
    ob::SpaceInformationPtr si;
    oc::SpaceInformationPtr siC;
    oc::ControlSpacePtr cspace;
    std::unique_ptr<ob::PlannerData> pd;
    std::vector<oc::Control *> controls;
    ~PDState()
    {
        pd.reset();
        for (auto *c : controls)
            cspace->freeControl(c);
    }
};
static std::unique_ptr<PDState> pds;

static void makeInfo(const NodeP &node, int cdim, ob::SpaceInformationPtr &si, oc::SpaceInformationPtr &siC,
                     oc::ControlSpacePtr &cspace)
{
    if (cdim < 0)
        si = std::make_shared<ob::SpaceInformation>(node->space);
    else
    {
        auto cs = std::make_shared<oc::RealVectorControlSpace>(node->space, cdim);
        ob::RealVectorBounds b(cdim);
        b.setLow(-1);
        b.setHigh(1);
        cs->setBounds(b);
        cspace = cs;
        siC = std::make_shared<oc::SpaceInformation>(node->space, cspace);
        si = siC;
    }
}

static std::unique_ptr<ob::PlannerData> newPD(const ob::SpaceInformationPtr &si, const oc::SpaceInformationPtr &siC)
{
    if (siC)
        return std::unique_ptr<ob::PlannerData>(new oc::PlannerData(siC));
    return std::unique_ptr<ob::PlannerData>(new ob::PlannerData(si));
}

static std::string dumpPD(const NodeP &node, int cdim, const ob::PlannerData &pd)
{
    unsigned nv = pd.numVertices();
    std::string V, E;
    for (unsigned i = 0; i < nv; ++i)
    {
        const auto &v = pd.getVertex(i);
        V += (i ? ";" : "") + std::to_string(v.getTag()) + "," + (pd.isStartVertex(i) ? "1" : "0") + "," +
             (pd.isGoalVertex(i) ? "1" : "0") + "," + ownImage(node, v.getState());
    }
    unsigned ne = 0;
    for (unsigned i = 0; i < nv; ++i)
    {
        std::vector<unsigned> out;
        pd.getEdges(i, out);
        for (unsigned to : out)
        {
            ob::Cost w;
            pd.getEdgeWeight(i, to, &w);
            E += (ne ? ";" : "") + std::to_string(i) + "," + std::to_string(to) + "," + vp::bits(w.value());
            if (cdim >= 0)
            {
                const auto &e = static_cast<const oc::PlannerDataEdgeControl &>(pd.getEdge(i, to));
                const double *vals = e.getControl()->as<oc::RealVectorControlSpace::ControlType>()->values;
                E += "," + vp::bits(e.getDuration()) + "," + hexOf(reinterpret_cast<const unsigned char *>(vals), 8 * cdim);
            }
            ++ne;
        }
    }
    std::string st, gl;
    for (unsigned i = 0; i < pd.numStartVertices(); ++i)
        st += (i ? "," : "") + std::to_string(pd.getStartIndex(i));
    for (unsigned i = 0; i < pd.numGoalVertices(); ++i)
        gl += (i ? "," : "") + std::to_string(pd.getGoalIndex(i));
    return "nv=" + std::to_string(nv) + " ne=" + std::to_string(pd.numEdges()) + " V=" + (V.empty() ? "-" : V) +
           " E=" + (E.empty() ? "-" : E) + " starts=" + (st.empty() ? "-" : st) + " goals=" + (gl.empty() ? "-" : gl);
}

// load `bytes` with the storage that matches (cdim) into a fresh PlannerData over `node`; exceptions that
// escape load() are reported as such (the API promises a bool).
struct LoadOut
{
    bool ok = false;
    bool threw = false;
    unsigned errors = 0;
    unsigned nv = 0, ne = 0;
    std::string dump;
};
static LoadOut loadPD(const NodeP &node, int cdim, bool controlStorage, const std::string &bytes, bool wantDump)
{
    LoadOut r;
    ob::SpaceInformationPtr si;
    oc::SpaceInformationPtr siC;
    oc::ControlSpacePtr cs;
    makeInfo(node, cdim, si, siC, cs);
    auto pd = newPD(si, siC);
    std::istringstream in(bytes);
    unsigned e0 = recorder.errors;
    try
    {
        if (controlStorage)
        {
            oc::PlannerDataStorage st;
            r.ok = st.load(in, *pd);
        }
        else
        {
            ob::PlannerDataStorage st;
            r.ok = st.load(in, *pd);
        }
    }
    catch (std::exception &)
    {
        r.threw = true;
    }
    r.errors = recorder.errors - e0;
    r.nv = pd->numVertices();
    r.ne = pd->numEdges();
    if (wantDump && r.ok)
        r.dump = dumpPD(node, cdim, *pd);
    return r;
}

static std::string spaceLine(const NodeP &x)
{
    std::vector<int> sig;
    x->space->computeSignature(sig);
    std::string s = "ok sig=";
    for (size_t k = 0; k < sig.size(); ++k)
        s += (k ? "," : "") + std::to_string(sig[k]);
    s += " len=" + std::to_string(x->space->getSerializationLength());
    s += " dim=" + std::to_string(x->space->getDimension());
    const auto &locs = x->space->getValueLocations();
    s += " nreals=" + std::to_string(locs.size()) + " locs=";
    for (size_t k = 0; k < locs.size(); ++k)
        s += (k ? ";" : "") + chainStr(locs[k].stateLocation.chain) + ":" + std::to_string(locs[k].index);
    if (locs.empty())
        s += "-";
    s += " subs=";
    {
        std::vector<std::pair<unsigned long long, std::string>> subs;
        for (const auto &e : x->space->getSubstateLocationsByName())
            subs.emplace_back(numOf(e.first), chainStr(e.second.chain));
        std::sort(subs.begin(), subs.end());
        for (size_t k = 0; k < subs.size(); ++k)
            s += (k ? ";" : "") + std::to_string(subs[k].first) + ":" + subs[k].second;
        if (subs.empty())
            s += "-";
    }
    // getValueAddressAtIndex for index 0 .. (#doubles), identified by the harness' own walk
    ob::State *st = x->space->allocState();
    auto rs = refs(x, st);
    size_t nd = 0;
    for (auto &r : rs)
        if (r.d)
            ++nd;
    s += " va=";
    for (size_t k = 0; k <= nd; ++k)
    {
        double *p = x->space->getValueAddressAtIndex(st, k);
        std::string a = "?";
        if (!p)
            a = "null";
        else
            for (auto &r : rs)
        if (r.d == p)
            a = r.path;
        s += (k ? ";" : "") + a;
    }
    x->space->freeState(st);
    return s;
}

int main()
{
    ompl::msg::useOutputHandler(&recorder);
    ompl::msg::setLogLevel(ompl::msg::LOG_WARN);
    std::string line;
    if (!vp::readLine(line))
        return 2;
    {
        auto h = vp::tokens(line);
        bool hok = !h.empty() && h[0] == "copy" && h.size() <= 3;
        for (size_t k = 1; hok && k < h.size(); ++k)
        {
            if (h[k] == "wc=fixed")
                g_fixed = true;
            else if (h[k] == "names=spaced")
                g_spaced = true;
            else if (h[k] != "wc=ub")
                hok = false;
        }
        if (!hok)
        {
            std::cout << "bad-header\n";
            return 2;
        }
    }
    auto bad = [] { std::cout << "bad-op" << std::endl; };
    while (vp::readLine(line))
    {
        auto t = vp::tokens(line);
        if (t.empty())
            continue;
        const std::string &op = t[0];
        auto natAt = [&](size_t k) -> std::optional<unsigned long long> {
            if (k >= t.size())
                return std::nullopt;
            return vp::parseNat(t[k]);
        };
        if (op == "space" && t.size() >= 3 && natAt(1))
        {
            size_t i = 2;
            NodeP x = parseSp(t, i);
            if (!x || i != t.size() || (x->kind == 'W' && zeroExt(x)))
            {
                bad();
                continue;
            }
            if (x->kind == 'W' || !zeroExt(x))
                x->space->setup();  // the documented way (a wrapper copies the wrapped space's location tables)
            else
                x->space->computeLocations();  // setup() refuses zero-extent components
            spaces[*natAt(1)] = x;
            std::string s = spaceLine(x);
            std::cout << s << std::endl;
        }
        else if (op == "rename" && t.size() == 4 && natAt(1) && natAt(2) && natAt(3))
        {
            // history: a subspace is renamed after the space was set up; the owner then recomputes its tables
            auto sp = spaces.find(*natAt(1));
            if (sp == spaces.end())
            {
                bad();
                continue;
            }
            std::function<Node *(const NodeP &)> find = [&](const NodeP &n) -> Node * {
                if (n->nm == *natAt(2))
                    return n.get();
                for (auto &k : n->kids)
                    if (Node *r = find(k))
                        return r;
                return nullptr;
            };
            Node *n = find(sp->second);
            if (!n)
            {
                bad();
                continue;
            }
            n->nm = *natAt(3);
            static_cast<ob::StateSpace *>(n->space.get())->setName(nameOf(n->nm));
            if (sp->second->kind == 'W' || !zeroExt(sp->second))
                sp->second->space->setup();
            else
                sp->second->space->computeLocations();
            std::cout << spaceLine(sp->second) << std::endl;
        }
        else if (op == "evolve" && t.size() >= 3 && natAt(1))
        {
            // history: a space that was set up (and used) CHANGES — addDimension, addSubspace at any depth (also below a
            // wrapper), setName, lock, setSubspaceWeight — and is set up again.  Its states are released first (they were
            // allocated for the old structure).  Edits: dim <nm> | dimn <nm> <dimension name> | sub <nm> <space> |
            // name <old> <new> | lock <nm> | w <nm> <i> | setup | compute
            auto sp = spaces.find(*natAt(1));
            if (sp == spaces.end() || (pds && pds->spid == *natAt(1)))
            {
                bad();
                continue;
            }
            for (auto it = states.begin(); it != states.end();)
                if (it->second.spid == *natAt(1))
                {
                    sp->second->space->freeState(it->second.st);
                    it = states.erase(it);
                }
                else
                    ++it;
            NodeP root = sp->second;
            std::function<Node *(const NodeP &, unsigned long long)> find = [&](const NodeP &n, unsigned long long nm) -> Node * {
                if (n->nm == nm)
                    return n.get();
                for (auto &k : n->kids)
                    if (Node *r = find(k, nm))
                        return r;
                return nullptr;
            };
            bool ok = true;
            size_t i = 2;
            auto natTok = [&](unsigned long long &out) {
                if (i >= t.size())
                    return false;
                auto v = vp::parseNat(t[i++]);
                if (!v)
                    return false;
                out = *v;
                return true;
            };
            unsigned refused = 0;
            while (ok && i < t.size())
            {
                std::string e = t[i++];
                unsigned long long a = 0, b = 0;
                if (e == "setup")
                {
                    if (root->kind == 'W' || !zeroExt(root))
                        root->space->setup();
                    else
                        root->space->computeLocations();
                }
                else if (e == "compute")
                {
                    if (root->kind == 'W')
                        root->space->setup();  // a wrapper's own tables are only refreshed by setup()
                    else
                        root->space->computeLocations();
                }
                else if (e == "dim" || e == "dimn")
                {
                    ok = natTok(a) && (e == "dim" || natTok(b));
                    Node *n = ok ? find(root, a) : nullptr;
                    if (!n || n->kind != 'R')
                        ok = false;
                    else
                    {
                        auto *rv = n->space->as<ob::RealVectorStateSpace>();
                        if (e == "dim")
                            rv->addDimension(-1.0, 1.0);
                        else
                            rv->addDimension(nameOf(b), -1.0, 1.0);
                        n->n++;
                    }
                }
                else if (e == "sub")
                {
                    ok = natTok(a);
                    NodeP c = ok ? parseSp(t, i) : nullptr;
                    Node *n = c ? find(root, a) : nullptr;
                    if (!n || n->kind != 'C')
                        ok = false;
                    else
                    {
                        try
                        {
                            n->space->as<ob::CompoundStateSpace>()->addSubspace(c->space, 1.0);
                            n->kids.push_back(c);
                        }
                        catch (ompl::Exception &)
                        {
                            ++refused;  // locked
                        }
                    }
                }
                else if (e == "name")
                {
                    ok = natTok(a) && natTok(b);
                    Node *n = ok ? find(root, a) : nullptr;
                    if (!n)
                        ok = false;
                    else
                    {
                        n->nm = b;
                        static_cast<ob::StateSpace *>(n->space.get())->setName(nameOf(b));
                    }
                }
                else if (e == "lock")
                {
                    ok = natTok(a);
                    Node *n = ok ? find(root, a) : nullptr;
                    if (!n || n->kind != 'C')
                        ok = false;
                    else
                        n->space->as<ob::CompoundStateSpace>()->lock();
                }
                else if (e == "w")
                {
                    ok = natTok(a) && natTok(b);
                    Node *n = ok ? find(root, a) : nullptr;
                    if (!n || n->kind != 'C')
                        ok = false;
                    else if (b < n->kids.size())
                        n->space->as<ob::CompoundStateSpace>()->setSubspaceWeight((unsigned)b, 2.5);
                }
                else
                    ok = false;
            }
            if (!ok)
            {
                bad();
                continue;
            }
            // every entry of getValueLocationsByName(), through getValueAddressAtName, identified by the harness' own walk
            std::string vn;
            {
                ob::State *st = root->space->allocState();
                auto rs = refs(root, st);
                std::vector<std::pair<unsigned long long, std::string>> ent;
                for (const auto &e : root->space->getValueLocationsByName())
                {
                    double *p = root->space->getValueAddressAtName(st, e.first);
                    std::string a = p ? "?" : "null";
                    for (auto &r : rs)
                        if (p && r.d == p)
                            a = r.path;
                    ent.emplace_back(numOf(e.first), a);
                }
                std::sort(ent.begin(), ent.end());
                for (size_t k = 0; k < ent.size(); ++k)
                    vn += (k ? ";" : "") + std::to_string(ent[k].first) + ":" + ent[k].second;
                if (vn.empty())
                    vn = "-";
                root->space->freeState(st);
            }
            std::cout << spaceLine(root) << " # refused=" << refused << " vn=" << vn << std::endl;
        }
        else if (op == "state" && natAt(1) && natAt(2))
        {
            size_t i = 3;
            auto xs = vp::takeCounted(t, i);
            auto sp = spaces.find(*natAt(2));
            if (!xs || i != t.size() || sp == spaces.end())
            {
                bad();
                continue;
            }
            NodeP x = sp->second;
            ob::State *st = x->space->allocState();
            auto rs = refs(x, st);
            bool ok = rs.size() == xs->size();
            for (size_t k = 0; ok && k < rs.size(); ++k)
            {
                const std::string &a = (*xs)[k];
                if (rs[k].d && a.size() > 1 && a[0] == 'f' && vp::parseBits(a.substr(1)))
                    *rs[k].d = *vp::parseBits(a.substr(1));
                else if (rs[k].i && a.size() > 1 && a[0] == 'i' && vp::parseInt(a.substr(1)) &&
                         *vp::parseInt(a.substr(1)) >= -2147483648LL && *vp::parseInt(a.substr(1)) <= 2147483647LL)
                    *rs[k].i = (int)*vp::parseInt(a.substr(1));
                else
                    ok = false;
            }
            if (!ok)
            {
                x->space->freeState(st);
                bad();
                continue;
            }
            auto old = states.find(*natAt(1));
            if (old != states.end())
            {
                spaces.at(old->second.spid)->space->freeState(old->second.st);
                states.erase(old);
            }
            states[*natAt(1)] = {*natAt(2), st};
            std::string img = serImage(x, st);
            std::vector<double> reals;
            x->space->copyToReals(reals, st);
            ob::State *cl = x->space->cloneState(st);
            bool eq = x->space->equalStates(st, cl);
            std::string climg = ownImage(x, cl);
            x->space->freeState(cl);
            ob::State *cp = x->space->allocState();
            garbage(x, cp);
            x->space->copyState(cp, st);
            bool ceq = x->space->equalStates(st, cp);
            std::string cpimg = ownImage(x, cp);
            // deserialize the image produced above into the (now equal) state after scrambling it
            garbage(x, cp);
            unsigned l = x->space->getSerializationLength();
            std::vector<unsigned char> buf(l + 1);
            x->space->serialize(buf.data(), st);
            x->space->deserialize(cp, buf.data());
            std::string des = dumpAtoms(x, cp);
            x->space->freeState(cp);
            std::cout << "ok img=" << img << " reals=" << bitsList(reals) << " clone=" << climg << " copy=" << cpimg
                      << " deser=" << des << " # eq=" << eq << " ceq=" << ceq << std::endl;
        }
        else if (op == "fromreals" && natAt(1))
        {
            size_t i = 2;
            auto xs = vp::takeCounted(t, i);
            auto it = states.find(*natAt(1));
            if (!xs || i != t.size() || it == states.end())
            {
                bad();
                continue;
            }
            NodeP x = spaces.at(it->second.spid);
            std::vector<double> reals;
            bool ok = xs->size() == x->space->getValueLocations().size();
            for (auto &a : *xs)
            {
                auto b = vp::parseBits(a);
                if (!b)
                    ok = false;
                else
                    reals.push_back(*b);
            }
            if (!ok)
            {
                bad();
                continue;
            }
            x->space->copyFromReals(it->second.st, reals);
            std::vector<double> back;
            x->space->copyToReals(back, it->second.st);
            std::cout << "ok atoms=" << dumpAtoms(x, it->second.st) << " reals=" << bitsList(back) << std::endl;
        }
        else if ((op == "csd" && t.size() == 3 && natAt(1) && natAt(2)) || ((op == "csdn" || op == "csdnu") && natAt(1) && natAt(2)))
        {
            auto d = states.find(*natAt(1)), s = states.find(*natAt(2));
            if (d == states.end() || s == states.end())
            {
                bad();
                continue;
            }
            NodeP dx = spaces.at(d->second.spid), sx = spaces.at(s->second.spid);
            if (op != "csdnu" && !g_fixed && (hasWC(dx) || hasWC(sx)))
            {
                bad();
                continue;
            }
            ob::AdvancedStateCopyOperation res;
            if (op == "csd")
                res = ob::copyStateData(dx->space, d->second.st, sx->space, s->second.st);
            else
            {
                size_t i = 3;
                auto xs = vp::takeCounted(t, i);
                // "csdnu" = the names overload WITHOUT the guard against top-level wrappers: only the dedicated probe of
                // F105 uses it (getSubstateAtLocation does not unwrap the wrapper's state: undefined behaviour today)
                bool ok = xs && i == t.size() && (op == "csdnu" || (dx->kind != 'W' && sx->kind != 'W'));
                std::vector<std::string> names;
                if (ok)
                    for (auto &a : *xs)
                    {
                        if (!vp::parseNat(a))
                            ok = false;
                        names.push_back(nameOf(*vp::parseNat(a)));
                    }
                if (!ok)
                {
                    bad();
                    continue;
                }
                res = ob::copyStateData(dx->space, d->second.st, sx->space, s->second.st, names);
            }
            std::cout << "ok res=" << (int)res << " atoms=" << dumpAtoms(dx, d->second.st) << std::endl;
        }
        else if (op == "common" && t.size() == 3 && natAt(1) && natAt(2))
        {
            // what SubspaceStateSampler does: getCommonSubspaces, then copyStateData restricted to those names
            auto d = states.find(*natAt(1)), s = states.find(*natAt(2));
            if (d == states.end() || s == states.end())
            {
                bad();
                continue;
            }
            NodeP dx = spaces.at(d->second.spid), sx = spaces.at(s->second.spid);
            if ((!g_fixed && (hasWC(dx) || hasWC(sx))) || dx->kind == 'W' || sx->kind == 'W')
            {
                bad();
                continue;
            }
            std::vector<std::string> names;
            dx->space->getCommonSubspaces(sx->space, names);
            auto res = ob::copyStateData(dx->space, d->second.st, sx->space, s->second.st, names);
            std::vector<unsigned long long> ns;
            for (auto &n : names)
                ns.push_back(numOf(n));
            std::sort(ns.begin(), ns.end());
            std::string l;
            for (size_t k = 0; k < ns.size(); ++k)
                l += (k ? "," : "") + std::to_string(ns[k]);
            std::cout << "ok names=" << (l.empty() ? "-" : l) << " res=" << (int)res << " atoms=" << dumpAtoms(dx, d->second.st)
                      << std::endl;
        }
        else if (op == "sop" && t.size() == 4 && natAt(1) && natAt(2) && (t[3] == "shl" || t[3] == "shr"))
        {
            // ScopedState operators between (possibly different) spaces: dest << src and src >> dest
            auto d = states.find(*natAt(1)), s = states.find(*natAt(2));
            if (d == states.end() || s == states.end())
            {
                bad();
                continue;
            }
            NodeP dx = spaces.at(d->second.spid), sx = spaces.at(s->second.spid);
            if (!g_fixed && (hasWC(dx) || hasWC(sx)))
            {
                bad();
                continue;
            }
            {
                ob::ScopedState<> D(dx->space, d->second.st), S(sx->space, s->second.st);
                if (t[3] == "shl")
                    D << S;
                else
                    S >> D;
                dx->space->copyState(d->second.st, D.get());
            }
            std::cout << "ok atoms=" << dumpAtoms(dx, d->second.st) << std::endl;
        }
        else if (op == "sreals" && t.size() == 2 && natAt(1))
        {
            auto it = states.find(*natAt(1));
            if (it == states.end())
            {
                bad();
                continue;
            }
            NodeP x = spaces.at(it->second.spid);
            ob::ScopedState<> S(x->space, it->second.st);
            std::cout << "reals=" << bitsList(S.reals()) << std::endl;
        }
        else if (op == "sfrom" && natAt(1))
        {
            size_t i = 2;
            auto xs = vp::takeCounted(t, i);
            auto it = states.find(*natAt(1));
            bool ok = xs && i == t.size() && it != states.end();
            std::vector<double> reals;
            if (ok)
                for (auto &a : *xs)
                {
                    auto b = vp::parseBits(a);
                    if (!b)
                        ok = false;
                    else
                        reals.push_back(*b);
                }
            if (!ok)
            {
                bad();
                continue;
            }
            NodeP x = spaces.at(it->second.spid);
            {
                ob::ScopedState<> S(x->space, it->second.st);
                S = reals;   // sets the first reals.size() doubles, stops at the end of the state
                x->space->copyState(it->second.st, S.get());
            }
            std::cout << "ok atoms=" << dumpAtoms(x, it->second.st) << std::endl;
        }
        else if (op == "ssm" && natAt(1) && natAt(2))
        {
            // GraphStateStorage = StateStorageWithMetadata<std::vector<std::size_t>> (what PlannerData::extractStateStorage
            // returns): states followed by one metadata vector per state
            struct GS : ob::GraphStateStorage
            {
                using ob::GraphStateStorage::GraphStateStorage;
                size_t mdCount() const { return metadata_.size(); }
            };
            size_t i = 3;
            auto xs = vp::takeCounted(t, i);
            auto sp = spaces.find(*natAt(1));
            bool ok = xs && i == t.size() && sp != spaces.end();
            std::vector<const ob::State *> sts;
            if (ok)
                for (auto &a : *xs)
                {
                    auto id = vp::parseNat(a);
                    auto it = id ? states.find(*id) : states.end();
                    if (it == states.end() || it->second.spid != *natAt(1))
                    {
                        ok = false;
                        break;
                    }
                    sts.push_back(it->second.st);
                }
            if (ok && sp->second->space->getSerializationLength() == 0)
                ok = false;
            if (!ok)
            {
                bad();
                continue;
            }
            NodeP x = sp->second;
            auto mdOf = [](size_t k) {
                std::vector<std::size_t> m;
                for (size_t j = 0; j < k % 3; ++j)
                    m.push_back((k * 7 + j * 3) % 11);
                return m;
            };
            auto mdStr = [](const std::vector<std::size_t> &m) {
                std::string q;
                for (size_t j = 0; j < m.size(); ++j)
                    q += (j ? "." : "") + std::to_string(m[j]);
                return q.empty() ? std::string("-") : q;
            };
            std::string bytes;
            std::vector<std::string> orig;
            {
                GS st(x->space);
                for (size_t k = 0; k < sts.size(); ++k)
                {
                    st.addState(sts[k], mdOf(k));
                    orig.push_back(ownImage(x, sts[k]));
                }
                std::ostringstream out;
                st.store(out);
                bytes = out.str();
            }
            std::string line;
            {
                GS st(x->space);
                std::istringstream in(bytes);
                unsigned e0 = recorder.errors;
                st.load(in);
                std::string imgs, md;
                for (size_t k = 0; k < st.size(); ++k)
                {
                    imgs += (k ? ";" : "") + ownImage(x, st.getState(k));
                    md += (k ? ";" : "") + (k < st.mdCount() ? mdStr(st.getMetadata(k)) : std::string("?"));
                }
                line = "ok n=" + std::to_string(st.size()) + " imgs=" + (imgs.empty() ? "-" : imgs) + " md=" + (md.empty() ? "-" : md);
                bool loadErr = recorder.errors != e0;
                // the object after loading the prefixes that end at a state-record boundary or just before the metadata
                // block (a plain StateStorage archive of the same states has the same header and state records)
                size_t hdr;
                {
                    ob::StateStorage plain(x->space);
                    for (auto *q : sts)
                        plain.addState(q);
                    std::ostringstream po;
                    plain.store(po);
                    hdr = po.str().size() - (size_t)x->space->getSerializationLength() * sts.size();
                }
                std::string rbm;
                for (size_t k = 0; k <= sts.size(); ++k)
                {
                    GS pst(x->space);
                    std::istringstream pin(bytes.substr(0, hdr + k * x->space->getSerializationLength()));
                    pst.load(pin);
                    rbm += (k ? "," : "") + std::to_string(pst.size()) + "/" + std::to_string(pst.mdCount());
                }
                line += " rbm=" + rbm;
                if (loadErr)
                    line += " ERR";
            }
            // byte-level truncation sweep: error logged, nothing escapes, at most the stored states, each equal to the stored
            // one, and the object stays consistent (one metadata entry per state)
            size_t tested = 0, nbad = 0, ninc = 0;
            std::string first, firstInc;
            for (size_t off : truncOffsets(bytes.size(), *natAt(2), {}))
            {
                GS st(x->space);
                std::istringstream in(bytes.substr(0, off));
                unsigned e0 = recorder.errors;
                bool threw = false;
                try
                {
                    st.load(in);
                }
                catch (std::exception &)
                {
                    threw = true;
                }
                ++tested;
                std::string why;
                if (threw)
                    why = "exception-escaped";
                else if (recorder.errors == e0)
                    why = "no-error-logged";
                else if (st.size() > orig.size())
                    why = "more-states-than-stored";
                else
                    for (size_t k = 0; k < st.size(); ++k)
                        if (ownImage(x, st.getState(k)) != orig[k])
                            why = "loaded-state-differs";
                if (!why.empty())
                {
                    if (!nbad)
                        first = std::to_string(off) + ":" + why;
                    ++nbad;
                }
                else if (st.mdCount() != st.size())
                {
                    if (!ninc)
                        firstInc = std::to_string(off) + ":" + std::to_string(st.size()) + "states/" + std::to_string(st.mdCount()) + "metadata";
                    ++ninc;
                }
            }
            std::cout << line << " # bytes=" << bytes.size() << " trunc=" << tested << "/" << nbad << (nbad ? "/" + first : "")
                      << " inconsistent=" << ninc << (ninc ? "/" + firstInc : "") << std::endl;
        }
        else if (op == "ss" && natAt(1) && natAt(2) && natAt(3))
        {
            size_t i = 4;
            auto xs = vp::takeCounted(t, i);
            auto sp = spaces.find(*natAt(1)), sp2 = spaces.find(*natAt(2));
            bool ok = xs && i == t.size() && sp != spaces.end() && sp2 != spaces.end();
            std::vector<const ob::State *> sts;
            if (ok)
                for (auto &a : *xs)
                {
                    auto id = vp::parseNat(a);
                    auto it = id ? states.find(*id) : states.end();
                    if (it == states.end() || it->second.spid != *natAt(1))
                    {
                        ok = false;
                        break;
                    }
                    sts.push_back(it->second.st);
                }
            if (!ok)
            {
                bad();
                continue;
            }
            NodeP x = sp->second;
            unsigned l = x->space->getSerializationLength();
            std::vector<std::string> orig;
            std::string bytes;
            {
                ob::StateStorage st(x->space);
                for (auto *s : sts)
                {
                    st.addState(s);
                    orig.push_back(ownImage(x, s));
                }
                std::ostringstream out;
                st.store(out);
                bytes = out.str();
            }
            auto loadWith = [&](const NodeP &node, const std::string &b, unsigned &errs, bool &threw,
                                std::vector<std::string> &imgs) {
                ob::StateStorage st(node->space);
                std::istringstream in(b);
                unsigned e0 = recorder.errors;
                threw = false;
                try
                {
                    st.load(in);
                }
                catch (std::exception &)
                {
                    threw = true;
                }
                errs = recorder.errors - e0;
                imgs.clear();
                for (std::size_t k = 0; k < st.size(); ++k)
                    imgs.push_back(ownImage(node, st.getState(k)));
            };
            unsigned errs;
            bool threw;
            std::vector<std::string> imgs;
            loadWith(x, bytes, errs, threw, imgs);
            std::string s = "ok n=" + std::to_string(imgs.size()) + " imgs=";
            for (size_t k = 0; k < imgs.size(); ++k)
                s += (k ? ";" : "") + imgs[k];
            if (imgs.empty())
                s += "-";
            bool cleanLoad = errs == 0 && !threw;
            // marker flip: the marker is the first 4-byte little-endian word equal to "OMPL"
            size_t hdr = bytes.size() - (size_t)l * sts.size();
            std::string mk;
            {
                uint32_t m = 0x4C504D4F;
                char w[4];
                std::memcpy(w, &m, 4);
                size_t pos = bytes.find(std::string(w, 4));
                if (pos == std::string::npos || pos >= hdr)
                    mk = "nomarker";
                else
                {
                    std::string b2 = bytes;
                    b2[pos] = (char)(b2[pos] + 1);
                    std::vector<std::string> im2;
                    loadWith(x, b2, errs, threw, im2);
                    mk = (errs > 0 && im2.empty() && !threw) ? "rej" : "acc";
                }
            }
            std::string sg;
            {
                std::vector<int> a, b;
                x->space->computeSignature(a);
                sp2->second->space->computeSignature(b);
                if (a == b)
                    sg = "same";
                else
                {
                    std::vector<std::string> im2;
                    loadWith(sp2->second, bytes, errs, threw, im2);
                    sg = (errs > 0 && im2.empty() && !threw) ? "rej" : "acc";
                }
            }
            // record boundaries: header + i states
            std::string rb;
            std::vector<size_t> bounds;
            for (size_t k = 0; l > 0 && k < sts.size(); ++k)
            {
                bounds.push_back(hdr + k * l);
                std::vector<std::string> im2;
                loadWith(x, bytes.substr(0, hdr + k * l), errs, threw, im2);
                rb += (k ? "," : "") + std::to_string(im2.size());
            }
            if (rb.empty())
                rb = "-";
            // byte-level truncation sweep
            size_t tested = 0, nbad = 0;
            std::string first;
            for (size_t off : truncOffsets(bytes.size(), *natAt(3), bounds))
            {
                std::vector<std::string> im2;
                loadWith(x, bytes.substr(0, off), errs, threw, im2);
                ++tested;
                size_t full = (off >= hdr && l > 0) ? (off - hdr) / l : 0;
                std::string why;
                if (threw)
                    why = "exception-escaped";
                else if (errs == 0)
                    why = "no-error-logged";
                else if (im2.size() > full)
                    why = "more-states-than-fully-read";
                else
                    for (size_t k = 0; k < im2.size(); ++k)
                        if (im2[k] != orig[k])
                            why = "loaded-state-differs";
                if (!why.empty())
                {
                    if (!nbad)
                        first = std::to_string(off) + ":" + why;
                    ++nbad;
                }
            }
            // history: ONE StateStorage object used for a junk state, a full load, a truncated load, a full load again and a
            // second store; every load must replace the contents, the second store must reproduce the first archive
            std::string hist = "ok";
            {
                ob::StateStorage hst(x->space);
                ob::State *junk = x->space->allocState();
                garbage(x, junk);
                hst.addState(junk);
                x->space->freeState(junk);
                auto same = [&](const char *when) {
                    bool eq = hst.size() == orig.size();
                    for (size_t k = 0; eq && k < orig.size(); ++k)
                        eq = ownImage(x, hst.getState(k)) == orig[k];
                    if (!eq && hist == "ok")
                        hist = when;
                };
                {
                    std::istringstream in(bytes);
                    hst.load(in);
                    same("after-junk");
                }
                {
                    std::istringstream in(bytes.substr(0, bytes.size() / 2));
                    hst.load(in);
                    if (hst.size() > orig.size() && hist == "ok")
                        hist = "truncated-load-kept-old-states";
                }
                {
                    std::istringstream in(bytes);
                    hst.load(in);
                    same("after-truncated");
                }
                std::ostringstream out2;
                hst.store(out2);
                if (out2.str() != bytes && hist == "ok")
                    hist = "second-store-differs";
            }
            std::cout << s << " marker=" << mk << " sig=" << sg << " rb=" << rb << " hist=" << hist << " # bytes=" << bytes.size()
                      << " hdr=" << hdr << " clean=" << cleanLoad << " trunc=" << tested << "/" << nbad
                      << (nbad ? "/" + first : "") << std::endl;
        }
        else if (op == "pdnew" && t.size() == 3 && natAt(1))
        {
            auto sp = spaces.find(*natAt(1));
            int cdim = -1;
            bool ok = sp != spaces.end() && sp->second->space->getSerializationLength() != 0;
            if (ok && t[2] != "-")
            {
                auto c = vp::parseNat(t[2]);
                if (!c || *c < 1 || *c > 16)
                    ok = false;
                else
                    cdim = (int)*c;
            }
            if (!ok)
            {
                bad();
                continue;
            }
            pds.reset(new PDState());
            pds->spid = *natAt(1);
            pds->node = sp->second;
            pds->cdim = cdim;
            makeInfo(pds->node, cdim, pds->si, pds->siC, pds->cspace);
            pds->pd = newPD(pds->si, pds->siC);
            std::cout << "ok" << std::endl;
        }
        else if (op == "pdv" && t.size() == 4 && pds && natAt(1) && vp::parseInt(t[2]))
        {
            auto it = states.find(*natAt(1));
            long long tag = *vp::parseInt(t[2]);
            if (it == states.end() || it->second.spid != pds->spid || (t[3] != "p" && t[3] != "s" && t[3] != "g") ||
                tag < -2147483648LL || tag > 2147483647LL)
            {
                bad();
                continue;
            }
            ob::PlannerDataVertex v(it->second.st, (int)tag);
            unsigned idx = t[3] == "s" ? pds->pd->addStartVertex(v) : t[3] == "g" ? pds->pd->addGoalVertex(v) : pds->pd->addVertex(v);
            std::cout << "idx=" << idx << std::endl;
        }
        else if (op == "pdmark" && t.size() == 3 && pds && natAt(1) && (t[2] == "s" || t[2] == "g"))
        {
            const ob::State *st = pds->pd->getVertex(*natAt(1)).getState();
            bool r = t[2] == "s" ? pds->pd->markStartState(st) : pds->pd->markGoalState(st);
            std::cout << "ok=" << r << std::endl;
        }
        else if (op == "pdtag" && t.size() == 3 && pds && natAt(1) && vp::parseInt(t[2]) &&
                 *vp::parseInt(t[2]) >= -2147483648LL && *vp::parseInt(t[2]) <= 2147483647LL)
        {
            const ob::State *st = pds->pd->getVertex(*natAt(1)).getState();
            std::cout << "ok=" << pds->pd->tagState(st, (int)*vp::parseInt(t[2])) << std::endl;
        }
        else if (op == "pde" && pds && natAt(1) && natAt(2) && t.size() >= 4 && vp::parseBits(t[3]))
        {
            double w = *vp::parseBits(t[3]);
            bool r;
            if (pds->cdim < 0)
            {
                if (t.size() != 4)
                {
                    bad();
                    continue;
                }
                r = pds->pd->addEdge(*natAt(1), *natAt(2), ob::PlannerDataEdge(), ob::Cost(w));
            }
            else
            {
                size_t i = 5;
                auto dur = t.size() > 4 ? vp::parseBits(t[4]) : std::nullopt;
                auto xs = vp::takeCounted(t, i);
                bool ok = dur && xs && i == t.size() && (int)xs->size() == pds->cdim;
                std::vector<double> vals;
                if (ok)
                    for (auto &a : *xs)
                    {
                        auto b = vp::parseBits(a);
                        if (!b)
                            ok = false;
                        else
                            vals.push_back(*b);
                    }
                if (!ok)
                {
                    bad();
                    continue;
                }
                oc::Control *c = pds->cspace->allocControl();
                for (int k = 0; k < pds->cdim; ++k)
                    c->as<oc::RealVectorControlSpace::ControlType>()->values[k] = vals[k];
                pds->controls.push_back(c);
                r = pds->pd->addEdge(*natAt(1), *natAt(2), oc::PlannerDataEdgeControl(c, *dur), ob::Cost(w));
            }
            std::cout << "ok=" << r << std::endl;
        }
        else if (op == "pdrmv" && t.size() == 2 && pds && natAt(1))
        {
            std::cout << "ok=" << pds->pd->removeVertex((unsigned)*natAt(1)) << std::endl;
        }
        else if (op == "pdrme" && t.size() == 3 && pds && natAt(1) && natAt(2))
        {
            unsigned nv = pds->pd->numVertices();
            bool r = *natAt(1) < nv && *natAt(2) < nv && pds->pd->removeEdge((unsigned)*natAt(1), (unsigned)*natAt(2));
            std::cout << "ok=" << r << std::endl;
        }
        else if (op == "pdmarks" && t.size() == 3 && pds && natAt(1) && (t[2] == "s" || t[2] == "g"))
        {
            // markStartState / markGoalState with the caller's state pointer (which may or may not be a vertex)
            auto it = states.find(*natAt(1));
            if (it == states.end() || it->second.spid != pds->spid)
            {
                bad();
                continue;
            }
            bool r = t[2] == "s" ? pds->pd->markStartState(it->second.st) : pds->pd->markGoalState(it->second.st);
            std::cout << "ok=" << r << std::endl;
        }
        else if (op == "pdtags" && t.size() == 3 && pds && natAt(1) && vp::parseInt(t[2]) &&
                 *vp::parseInt(t[2]) >= -2147483648LL && *vp::parseInt(t[2]) <= 2147483647LL)
        {
            auto it = states.find(*natAt(1));
            if (it == states.end() || it->second.spid != pds->spid)
            {
                bad();
                continue;
            }
            std::cout << "ok=" << pds->pd->tagState(it->second.st, (int)*vp::parseInt(t[2])) << std::endl;
        }
        else if (op == "pdidx" && t.size() == 2 && pds && natAt(1))
        {
            auto it = states.find(*natAt(1));
            if (it == states.end() || it->second.spid != pds->spid)
            {
                bad();
                continue;
            }
            unsigned idx = pds->pd->vertexIndex(ob::PlannerDataVertex(it->second.st));
            std::cout << "idx=" << (idx == ob::PlannerData::INVALID_INDEX ? std::string("none") : std::to_string(idx)) << std::endl;
        }
        else if (op == "pdes" && pds && t.size() >= 6 && natAt(1) && vp::parseInt(t[2]) && natAt(3) && vp::parseInt(t[4]) &&
                 vp::parseBits(t[5]))
        {
            // addEdge(const PlannerDataVertex &v1, const PlannerDataVertex &v2, edge, weight): adds the vertices it needs
            auto i1 = states.find(*natAt(1)), i2 = states.find(*natAt(3));
            long long tag1 = *vp::parseInt(t[2]), tag2 = *vp::parseInt(t[4]);
            bool ok = i1 != states.end() && i2 != states.end() && i1->second.spid == pds->spid && i2->second.spid == pds->spid &&
                      tag1 >= -2147483648LL && tag1 <= 2147483647LL && tag2 >= -2147483648LL && tag2 <= 2147483647LL;
            double w = *vp::parseBits(t[5]);
            bool r = false;
            if (ok && pds->cdim < 0)
            {
                if (t.size() != 6)
                    ok = false;
                else
                    r = pds->pd->addEdge(ob::PlannerDataVertex(i1->second.st, (int)tag1), ob::PlannerDataVertex(i2->second.st, (int)tag2),
                                         ob::PlannerDataEdge(), ob::Cost(w));
            }
            else if (ok)
            {
                size_t i = 7;
                auto dur = t.size() > 6 ? vp::parseBits(t[6]) : std::nullopt;
                auto xs = vp::takeCounted(t, i);
                ok = dur && xs && i == t.size() && (int)xs->size() == pds->cdim;
                std::vector<double> vals;
                if (ok)
                    for (auto &a : *xs)
                    {
                        auto b = vp::parseBits(a);
                        if (!b)
                            ok = false;
                        else
                            vals.push_back(*b);
                    }
                if (ok)
                {
                    oc::Control *c = pds->cspace->allocControl();
                    for (int k = 0; k < pds->cdim; ++k)
                        c->as<oc::RealVectorControlSpace::ControlType>()->values[k] = vals[k];
                    pds->controls.push_back(c);
                    r = pds->pd->addEdge(ob::PlannerDataVertex(i1->second.st, (int)tag1), ob::PlannerDataVertex(i2->second.st, (int)tag2),
                                         oc::PlannerDataEdgeControl(c, *dur), ob::Cost(w));
                }
            }
            if (!ok)
            {
                bad();
                continue;
            }
            std::cout << "ok=" << r << " nv=" << pds->pd->numVertices() << std::endl;
        }
        else if (op == "pdrmvs" && t.size() == 2 && pds && natAt(1))
        {
            auto it = states.find(*natAt(1));
            if (it == states.end() || it->second.spid != pds->spid)
            {
                bad();
                continue;
            }
            std::cout << "ok=" << pds->pd->removeVertex(ob::PlannerDataVertex(it->second.st)) << std::endl;
        }
        else if (op == "pdrmes" && t.size() == 3 && pds && natAt(1) && natAt(2))
        {
            auto i1 = states.find(*natAt(1)), i2 = states.find(*natAt(2));
            if (i1 == states.end() || i2 == states.end() || i1->second.spid != pds->spid || i2->second.spid != pds->spid)
            {
                bad();
                continue;
            }
            std::cout << "ok=" << pds->pd->removeEdge(ob::PlannerDataVertex(i1->second.st), ob::PlannerDataVertex(i2->second.st))
                      << std::endl;
        }
        else if (op == "pdclear" && t.size() == 1 && pds)
        {
            pds->pd->clear();
            std::cout << "ok" << std::endl;
        }
        else if (op == "pddecouple" && t.size() == 1 && pds)
        {
            pds->pd->decoupleFromPlanner();
            std::cout << "ok" << std::endl;
        }
        else if (op == "pdextract" && t.size() == 2 && pds && natAt(1))
        {
            // PlannerData::extractStateStorage(): a GraphStateStorage holding the vertex states in the iteration order of the
            // pointer-keyed stateIndexMap_, each with its out-neighbours as storage indices.  The harness recovers that order
            // (std::map<const State*, unsigned> over the vertices' state pointers: same comparator) and prints the storage
            // per VERTEX: state image and neighbours mapped back to vertex indices; then store -> load -> same dump.
            struct GS : ob::GraphStateStorage
            {
                using ob::GraphStateStorage::GraphStateStorage;
                size_t mdCount() const { return metadata_.size(); }
                // metadata_ of an object that is NOT a GS (the one extractStateStorage made): protected member through a
                // pointer to member named via the derived class
                static size_t countOf(const ob::GraphStateStorage &g) { return (g.*(&GS::metadata_)).size(); }
            };
            unsigned nv = pds->pd->numVertices();
            std::map<const ob::State *, unsigned> byPtr;
            for (unsigned i = 0; i < nv; ++i)
                byPtr[pds->pd->getVertex(i).getState()] = i;
            std::vector<unsigned> order;        // storage index -> vertex index
            for (auto &e : byPtr)
                order.push_back(e.second);
            std::vector<size_t> pos(nv, 0);      // vertex index -> storage index
            for (size_t j = 0; j < order.size(); ++j)
                pos[order[j]] = j;
            auto dumpStore = [&](const ob::GraphStateStorage &gs, size_t mdc) {
                if (gs.size() != nv || mdc != nv)
                    return std::string("size-mismatch:") + std::to_string(gs.size()) + "/" + std::to_string(mdc);
                std::string X;
                for (unsigned v = 0; v < nv; ++v)
                {
                    size_t j = pos[v];
                    X += (v ? ";" : "") + ownImage(pds->node, gs.getState(j)) + ":";
                    const auto &m = gs.getMetadata(j);
                    std::string q;
                    for (size_t k = 0; k < m.size(); ++k)
                        q += (k ? "." : "") + (m[k] < order.size() ? std::to_string(order[m[k]]) : std::string("?"));
                    X += q.empty() ? "-" : q;
                }
                return X.empty() ? std::string("-") : X;
            };
            ob::StateStoragePtr ex = pds->pd->extractStateStorage();
            auto *gs = static_cast<ob::GraphStateStorage *>(ex.get());
            bool md = ex->hasMetadata();
            std::string X = md ? dumpStore(*gs, GS::countOf(*gs)) : std::string("no-metadata");
            std::string rt = "same";
            size_t nbytes = 0;
            {
                std::ostringstream out;
                ex->store(out);
                nbytes = out.str().size();
                GS back(pds->node->space);
                std::istringstream in(out.str());
                unsigned e0 = recorder.errors;
                back.load(in);
                if (recorder.errors != e0 || dumpStore(back, back.mdCount()) != X)
                    rt = "differs";
            }
            std::cout << "n=" << nv << " X=" << X << " rt=" << rt << " # bytes=" << nbytes << std::endl;
        }
        else if (op == "pddump" && t.size() == 1 && pds)
        {
            std::cout << dumpPD(pds->node, pds->cdim, *pds->pd) << std::endl;
        }
        else if (op == "pdstore" && t.size() == 3 && pds && natAt(1) && natAt(2))
        {
            auto sp2 = spaces.find(*natAt(1));
            if (sp2 == spaces.end())
            {
                bad();
                continue;
            }
            bool ctl = pds->cdim >= 0;
            std::string bytes;
            bool stored;
            {
                std::ostringstream out;
                if (ctl)
                {
                    oc::PlannerDataStorage st;
                    stored = st.store(*pds->pd, out);
                }
                else
                {
                    ob::PlannerDataStorage st;
                    stored = st.store(*pds->pd, out);
                }
                bytes = out.str();
            }
            LoadOut full = loadPD(pds->node, pds->cdim, ctl, bytes, true);
            if (!stored || !full.ok || full.threw)
            {
                std::cout << "ok=0 # stored=" << stored << " threw=" << full.threw << std::endl;
                continue;
            }
            std::string mk;
            {
                uint32_t m = ctl ? 0x5044434D : 0x5044414D;
                char w[4];
                std::memcpy(w, &m, 4);
                size_t pos = bytes.find(std::string(w, 4));
                if (pos == std::string::npos)
                    mk = "nomarker";
                else
                {
                    std::string b2 = bytes;
                    b2[pos] = (char)(b2[pos] + 1);
                    LoadOut r = loadPD(pds->node, pds->cdim, ctl, b2, false);
                    mk = (!r.ok && !r.threw && r.errors > 0) ? "rej" : "acc";
                }
            }
            std::string sg;
            {
                std::vector<int> a, b;
                pds->node->space->computeSignature(a);
                sp2->second->space->computeSignature(b);
                if (a == b)
                    sg = "same";
                else
                {
                    LoadOut r = loadPD(sp2->second, pds->cdim, ctl, bytes, false);
                    sg = (!r.ok && !r.threw && r.errors > 0) ? "rej" : "acc";
                }
            }
            size_t tested = 0, nbad = 0;
            std::string first;
            for (size_t off : truncOffsets(bytes.size(), *natAt(2), {}))
            {
                LoadOut r = loadPD(pds->node, pds->cdim, ctl, bytes.substr(0, off), false);
                ++tested;
                std::string why;
                if (r.threw)
                    why = "exception-escaped";
                else if (r.ok)
                    why = "load-returned-true";
                else if (r.errors == 0)
                    why = "no-error-logged";
                else if (r.nv > full.nv || r.ne > full.ne)
                    why = "more-than-stored";
                if (!why.empty())
                {
                    if (!nbad)
                        first = std::to_string(off) + ":" + why;
                    ++nbad;
                }
            }
            // store(load(store(g))) must reproduce the archive byte for byte
            std::string restore = "same";
            {
                ob::SpaceInformationPtr si2;
                oc::SpaceInformationPtr siC2;
                oc::ControlSpacePtr cs2;
                makeInfo(pds->node, pds->cdim, si2, siC2, cs2);
                auto pd2 = newPD(si2, siC2);
                std::istringstream in(bytes);
                std::ostringstream out2;
                bool l2 = ctl ? oc::PlannerDataStorage().load(in, *pd2) : ob::PlannerDataStorage().load(in, *pd2);
                bool s2 = l2 && (ctl ? oc::PlannerDataStorage().store(*pd2, out2) : ob::PlannerDataStorage().store(*pd2, out2));
                if (!s2 || out2.str() != bytes)
                    restore = "differs";
            }
            std::cout << "ok=1 " << full.dump << " marker=" << mk << " sig=" << sg << " restore=" << restore << " # bytes=" << bytes.size() << " trunc=" << tested << "/" << nbad << (nbad ? "/" + first : "")
                      << std::endl;
        }
        else if (op == "pdctl" && pds && pds->cdim >= 0 && natAt(1))
        {
            // the stored control archive loaded into control::PlannerData objects over (same | other state space) x (listed
            // control spaces): load must be accepted exactly when the state-space AND the control-space signature match
            size_t i = 2;
            auto toks = vp::takeCounted(t, i);
            auto sp2 = spaces.find(*natAt(1));
            if (!toks || i != t.size() || sp2 == spaces.end())
            {
                bad();
                continue;
            }
            auto makeCs = [](const NodeP &node, const std::string &tok) -> oc::ControlSpacePtr {
                bool forced = tok.rfind("c:", 0) == 0;
                std::string body = forced ? tok.substr(2) : tok;
                std::vector<oc::ControlSpacePtr> comps;
                size_t pos = 0;
                while (pos <= body.size())
                {
                    size_t e = body.find('+', pos);
                    std::string c = body.substr(pos, e == std::string::npos ? std::string::npos : e - pos);
                    if (c == "d")
                        comps.push_back(std::make_shared<oc::DiscreteControlSpace>(node->space, 0, 3));
                    else if (c.size() > 1 && c[0] == 'r' && vp::parseNat(c.substr(1)) && *vp::parseNat(c.substr(1)) <= 16)
                    {
                        unsigned d = *vp::parseNat(c.substr(1));
                        auto rv = std::make_shared<oc::RealVectorControlSpace>(node->space, d);
                        ob::RealVectorBounds b(d);
                        b.setLow(-1);
                        b.setHigh(1);
                        rv->setBounds(b);
                        comps.push_back(rv);
                    }
                    else
                        return nullptr;
                    if (e == std::string::npos)
                        break;
                    pos = e + 1;
                }
                if (comps.empty())
                    return nullptr;
                if (comps.size() == 1 && !forced)
                    return comps[0];
                auto cc = std::make_shared<oc::CompoundControlSpace>(node->space);
                for (auto &c : comps)
                    cc->addSubspace(c);
                return cc;
            };
            bool ok = true;
            for (auto &tk : *toks)
                if (!makeCs(pds->node, tk))
                    ok = false;
            if (!ok)
            {
                bad();
                continue;
            }
            std::string bytes;
            {
                std::ostringstream out;
                oc::PlannerDataStorage().store(*pds->pd, out);
                bytes = out.str();
            }
            std::string orig = dumpPD(pds->node, pds->cdim, *pds->pd);
            std::string res;
            for (auto &tk : *toks)
                for (int other = 0; other < 2; ++other)
                {
                    NodeP node = other ? sp2->second : pds->node;
                    oc::ControlSpacePtr cs = makeCs(node, tk);
                    auto siC = std::make_shared<oc::SpaceInformation>(node->space, cs);
                    std::string v;
                    {
                        oc::PlannerData pd(siC);
                        std::istringstream in(bytes);
                        unsigned e0 = recorder.errors;
                        bool lok = false, threw = false;
                        try
                        {
                            lok = oc::PlannerDataStorage().load(in, pd);
                        }
                        catch (std::exception &)
                        {
                            threw = true;
                        }
                        if (threw)
                            v = "threw";
                        else if (!lok)
                            v = recorder.errors > e0 ? "rej" : "rej-silent";
                        else if (!other && tk == "r" + std::to_string(pds->cdim))
                        {
                            // edges (endpoints, weight, duration, control image) must come back bit-exactly; the start/goal
                            // marks are judged by pdstore (F31)
                            auto edgesOf = [](const std::string &d) {
                                size_t a = d.find(" E="), b = d.find(" starts=");
                                return a == std::string::npos || b == std::string::npos ? d : d.substr(a, b - a);
                            };
                            v = edgesOf(dumpPD(node, pds->cdim, pd)) == edgesOf(orig) ? "acc" : "acc-differs";
                        }
                        else
                            v = "acc";
                    }
                    res += (res.empty() ? "" : ",") + std::string(other ? "o" : "s") + tk + ":" + v;
                }
            std::cout << "t=" << (res.empty() ? "-" : res) << std::endl;
        }
        else if (op == "pdreload" && t.size() == 1 && pds)
        {
            // load() into a PlannerData object that held ANOTHER graph before (load() itself calls pd.clear()): a scratch
            // graph with one more vertex than the stored one, every vertex marked start and goal, over the same states
            bool ctl = pds->cdim >= 0;
            std::string bytes;
            {
                std::ostringstream out;
                if (ctl)
                    oc::PlannerDataStorage().store(*pds->pd, out);
                else
                    ob::PlannerDataStorage().store(*pds->pd, out);
                bytes = out.str();
            }
            ob::SpaceInformationPtr si;
            oc::SpaceInformationPtr siC;
            oc::ControlSpacePtr cs;
            makeInfo(pds->node, pds->cdim, si, siC, cs);
            auto used = newPD(si, siC);
            ob::State *extra = pds->node->space->allocState();
            garbage(pds->node, extra);
            for (unsigned i = 0; i <= pds->pd->numVertices(); ++i)
            {
                const ob::State *st = i < pds->pd->numVertices() ? pds->pd->getVertex(i).getState() : extra;
                ob::PlannerDataVertex v(st, 777);
                used->addStartVertex(v);
                used->addGoalVertex(v);
            }
            std::istringstream in(bytes);
            bool ok = false, threw = false;
            try
            {
                ok = ctl ? oc::PlannerDataStorage().load(in, *used) : ob::PlannerDataStorage().load(in, *used);
            }
            catch (std::exception &)
            {
                threw = true;
            }
            std::string dump = ok ? dumpPD(pds->node, pds->cdim, *used) : std::string();
            used.reset();
            pds->node->space->freeState(extra);
            std::cout << "ok=" << ok << (ok ? " " + dump : "") << " # threw=" << threw << std::endl;
        }
        else if (op == "pdcross" && t.size() == 1 && pds)
        {
            // a geometric archive given to the control loader (control PlannerData with 1 control dimension) and a
            // control archive given to the geometric loader: the marker differs, load must return false and log an
            // error; no exception may escape (F30, fixed by 4a60b3f19: the loaders now catch std::exception; the
            // check runs with allocator_may_return_null=1 so that the absurd allocation throws std::bad_alloc).
            bool ctl = pds->cdim >= 0;
            std::string bytes;
            {
                std::ostringstream out;
                if (ctl)
                {
                    oc::PlannerDataStorage st;
                    st.store(*pds->pd, out);
                }
                else
                {
                    ob::PlannerDataStorage st;
                    st.store(*pds->pd, out);
                }
                bytes = out.str();
            }
            std::cout << "cross=" << std::flush;
            LoadOut r = loadPD(pds->node, ctl ? -1 : 1, !ctl, bytes, false);
            std::cout << ((!r.ok && !r.threw && r.errors > 0) ? "rej" : "acc") << " # threw=" << r.threw << std::endl;
        }
        else
            bad();
    }
    // release everything so that LeakSanitizer only sees what the library itself lost
    pds.reset();
    for (auto &e : states)
        spaces.at(e.second.spid)->space->freeState(e.second.st);
    states.clear();
    spaces.clear();
    return 0;
}
