// C05 harness: drives the real motion validators of libompl (DiscreteMotionValidator, DubinsMotionValidator,
// ReedsSheppMotionValidator, Dubins3DMotionValidator<OwenStateSpace>) and SpaceInformation::checkMotion(states,..)
// through the line protocol.  No hooks in /repo: the state validity checker is a scripted subclass that RECORDS
// every state it is asked about and answers from a set of invalid subdivision indices.
//
// How a queried state is turned into a subdivision index j (never trusting the code under test):
//   * the end state is recognised by pointer identity (the validators pass s2 itself)      -> j = n
//   * any other state is compared bit-wise (serialised bytes) with the harness's own
//     space->interpolate(s1, s2, (double)j/(double)n) for j = 0..n                          -> smallest matching j
//     (amb counts queries that matched more than one j; '?' = matches none: not a subdivision point)
//   * in R^1 with s1 = 0 the index is additionally decoded arithmetically, j = round(x * n / s2), and must
//     agree with the table ('?' otherwise).
// header:  motion space=<r1|rn|so2|se2|cmpd|cmpd2|dubins|dubinssym|rs|owen|vana|vanaowen|proj|atlas|tb> validator=<default|discrete>
//                 frac=<f> lo=<f> hi=<f> dim=<d> f=<k,..> rho=<f>
//          f lists the segment-count factor of every space node in pre-order (compound first, then its parts).
// ops:     invalid idx <j>*        -> ok        (scripted predicate: these subdivision indices are invalid)
//          invalid box <lo hi>*nreals -> ok     (geometric predicate, elementary spaces only: a state is INVALID iff every
//                                               real lies in its [lo,hi]; cm lines then end with inv=<indices in the box>)
//          gms <count> <endpoints> <alloc> <size> <st> <st> -> ret=<k> size=<n> slots=<S|G|j/c|u|0|?>,.. amb=<k>
//                                               (getMotionStates into a vector of <size> sentinel states / nullptrs)
//          (space=proj: unit sphere in R^3 as a ProjectedStateSpace with the default ConstrainedMotionValidator, rho = delta;
//           the subdivision is the manifold traversal itself: index j = j-th state of the harness' own
//           discreteGeodesic(s1,s2,interpolate=true), index n = s2; cm lines end with reached=<0|1> sat=<0|1>, lvs=g<k>;
//           hint <n> <reached> <sat> <extra>; a trailing 'x' in q= is the candidate a traversal that gave up looked at last)
//          hint <k> [<0|1>]        -> ok        (segment count [and Owen getPath outcome] for the model where it cannot compute distances)
//          seg <st> <st>           -> n=<k> dist=<f> L=<f>
//          cm2 <st> <st>           -> v=<0|1> n=<k> q=<j,..|-> cnt=<a>/<b>-><a'>/<b'> amb=<k>
//          cm3 <st> <st>           -> v=<0|1> n=<k> lv=<f|untouched> lvs=<eq|ne|untouched> q=.. cnt=.. amb=..
//          cm3n <st> <st>          -> same with lastValid.first == nullptr (lvs=null)
//          list <count> <total> <0|1>*total -> v2=<0|1> q2=.. v3=<0|1> first=<i|untouched> q3=..
// reconfiguration between motion checks (round 10; each -> ok):
//          swapvc <keep|drop|fn>   a NEW StateValidityChecker object is installed (setStateValidityChecker(ptr) / (function));
//                                  it starts with the empty predicate; `keep`: the replaced one stays alive (a validator that
//                                  still asks it shows up as 's' in q= and gets the OLD predicate's answers), `drop`: it is destroyed
//          setfrac <f>             si->setStateValidityCheckingResolution(f): takes effect at the next setup() only
//          setbounds <lo> <hi>     setBounds on every RealVector part: the extent (and L) follows at the next setup() only
//          setfac <slot> <k>       setValidSegmentCountFactor on the pre-order node <slot>: takes effect at once
//          setup                   si->setup()
//          setmv <default|discrete> the motion validator is replaced (default: setMotionValidator(nullptr) + setup(), the
//                                  library installs the space's default; discrete: a fresh DiscreteMotionValidator); counters restart
//          resetcnt                resetMotionCounter()
// re-entrancy:
//          nest <k> <same|thread> <cm2|cm3|cm3n> <st> <st> <counted hint tokens> <counted invalid idx>
//                                  arms the checker: at the k-th validity question of the NEXT cm call it runs, BEFORE it looks
//                                  at the state it was handed, a complete checkMotion of this other motion on the same
//                                  SpaceInformation (in the same thread or in a second, joined thread), under its own
//                                  predicate.  The next cm line then ends with ` || nested=none` or ` || nested v=.. n=.. ..`.
//                                  A queried state that is a point of the OTHER motion prints as o<j> in q=.
#include "common/proto.h"
#include <map>
#include <set>
#include <cmath>
#include <memory>
#include <functional>
#include <thread>
#include <ompl/base/SpaceInformation.h>
#include <ompl/base/StateValidityChecker.h>
#include <ompl/base/DiscreteMotionValidator.h>
#include <ompl/base/spaces/RealVectorStateSpace.h>
#include <ompl/base/spaces/SO2StateSpace.h>
#include <ompl/base/spaces/SE2StateSpace.h>
#include <ompl/base/spaces/DubinsStateSpace.h>
#include <ompl/base/spaces/ReedsSheppStateSpace.h>
#include <ompl/base/spaces/OwenStateSpace.h>
#include <ompl/base/spaces/VanaStateSpace.h>
#include <ompl/base/spaces/VanaOwenStateSpace.h>
#include <ompl/base/Constraint.h>
#include <ompl/base/ConstrainedSpaceInformation.h>
#include <ompl/base/spaces/constraint/ProjectedStateSpace.h>
#include <ompl/base/spaces/constraint/AtlasStateSpace.h>
#include <ompl/base/spaces/constraint/TangentBundleStateSpace.h>
#include <ompl/util/Console.h>
#include <ompl/util/RandomNumbers.h>

namespace ob = ompl::base;

static std::string ser(const ob::StateSpacePtr &sp, const ob::State *s)
{
    std::string b(sp->getSerializationLength(), '\0');
    sp->serialize(&b[0], s);
    return b;
}

// everything the harness knows about ONE motion being checked: how to decode a queried state into a subdivision
// index, what was asked, and (nested motions) the motion's own predicate
struct Frame
{
    long n = 0;
    const ob::State *endPtr = nullptr;
    const ob::State *startPtr = nullptr;
    std::map<std::string, std::vector<long>> table;
    std::vector<long> rec;
    unsigned amb = 0;
    bool r1Decode = false;
    double r1End = 1.0;
    bool ownPred = false;       // nested motion: answers come from `invalid` below, not from the checker's predicate
    std::set<long> invalid;
    // constrained traversal bookkeeping
    bool reached = false;
    std::vector<std::string> geo, geoP;
    std::vector<long> boxInv;
    // decode a state of this motion: >= 0 index, -1 none
    long decode(const ob::StateSpacePtr &sp, const ob::State *st, bool count)
    {
        long j = -1;
        if (st == endPtr)
            return n;
        if (startPtr != nullptr && st == startPtr)
            return 0;      // constrained traversals (Atlas, TangentBundle) look at s1 itself
        auto it = table.find(ser(sp, st));
        if (it != table.end())
        {
            j = it->second.front();
            if (it->second.size() > 1 && count)
                ++amb;
        }
        if (r1Decode && j >= 0)
        {
            double x = st->as<ob::RealVectorStateSpace::StateType>()->values[0];
            long jj = std::lround(x * (double)n / r1End);
            if (jj != j)
                j = -1;
        }
        return j;
    }
};

struct Book
{
    ob::StateSpacePtr sp;
    Frame *cur = nullptr;     // the motion whose check is in progress
    Frame *other = nullptr;   // the other motion of a nested pair (to name a state that belongs to the wrong motion)
    int currentGen = 0;       // generation of the INSTALLED checker object
    bool listMode = false;
    std::map<const ob::State *, long> ptrIndex;
    // re-entrancy: at the hookAt-th question about hookFrame's motion, run `hook` before looking at the state
    long hookAt = 0;
    long asked = 0;
    Frame *hookFrame = nullptr;
    std::function<void()> hook;
};

class Scripted : public ob::StateValidityChecker
{
public:
    Scripted(const ob::SpaceInformationPtr &si, Book *b, int g) : ob::StateValidityChecker(si), book(b), gen(g)
    {
    }
    bool isValid(const ob::State *st) const override
    {
        Book &B = *book;
        Frame *f = B.cur;
        if (B.listMode)
        {
            long j = -1;
            auto it = B.ptrIndex.find(st);
            if (it != B.ptrIndex.end())
                j = it->second;
            f->rec.push_back(gen != B.currentGen ? -4 : j);
            if (j < 0)
                return true;
            return invalid.count(j) == 0;
        }
        // the nested call comes first: only afterwards does the checker look at the state it was handed
        if (B.hookAt > 0 && f == B.hookFrame && ++B.asked == B.hookAt)
        {
            B.hookAt = 0;
            B.hook();
        }
        long j = f->decode(B.sp, st, true);
        long label = j;
        bool otherPoint = false;
        if (j < 0 && B.other != nullptr && B.other != f)
        {
            long k = B.other->decode(B.sp, st, false);
            if (k >= 0)
            {
                label = -1000 - k;      // a point of the other motion: o<k>
                otherPoint = true;
                j = k;
            }
        }
        if (gen != B.currentGen)
            label = -4;                 // a checker that is no longer installed was asked
        f->rec.push_back(label);
        if (boxMode && !f->ownPred)
            return !inBox(st);
        if (j < 0)
            return true;
        if (otherPoint)
            return (B.other->ownPred ? B.other->invalid : invalid).count(j) == 0;
        return (f->ownPred ? f->invalid : invalid).count(j) == 0;
    }
    // geometric predicate: a state is INVALID iff every real lies in its [lo, hi] interval
    bool inBox(const ob::State *st) const
    {
        std::vector<double> r;
        book->sp->copyToReals(r, st);
        for (size_t i = 0; i < r.size() && i < box.size(); ++i)
            if (!(box[i].first <= r[i] && r[i] <= box[i].second))
                return false;
        return true;
    }
    Book *book;
    int gen;
    bool boxMode = false;
    std::vector<std::pair<double, double>> box;
    std::set<long> invalid;
};

// unit sphere in R^3: f(x) = |x| - 1
class Sphere : public ob::Constraint
{
public:
    Sphere() : ob::Constraint(3, 1)
    {
    }
    void function(const Eigen::Ref<const Eigen::VectorXd> &x, Eigen::Ref<Eigen::VectorXd> out) const override
    {
        out[0] = x.norm() - 1.0;
    }
    void jacobian(const Eigen::Ref<const Eigen::VectorXd> &x, Eigen::Ref<Eigen::MatrixXd> out) const override
    {
        out = x.transpose().normalized();
    }
};

// (tb) delegates to the real validator and remembers how many validity questions had been asked when it returned, so
// that the questions TangentBundleSpaceInformation's own wrapper asks afterwards can be told apart
class Tap : public ob::MotionValidator
{
public:
    Tap(const ob::SpaceInformationPtr &si, ob::MotionValidatorPtr real, Book *book)
      : ob::MotionValidator(si), real_(std::move(real)), book_(book)
    {
    }
    bool checkMotion(const ob::State *s1, const ob::State *s2) const override
    {
        bool r = real_->checkMotion(s1, s2);
        mark = book_->cur->rec.size();
        return r;
    }
    bool checkMotion(const ob::State *s1, const ob::State *s2, std::pair<ob::State *, double> &lv) const override
    {
        bool r = real_->checkMotion(s1, s2, lv);
        mark = book_->cur->rec.size();
        return r;
    }
    ob::MotionValidatorPtr real_;
    Book *book_;
    mutable size_t mark = 0;
};

static std::string qstr(const std::vector<long> &q)
{
    if (q.empty())
        return "-";
    std::string s;
    for (size_t i = 0; i < q.size(); ++i)
        s += (i ? "," : "") + (q[i] == -2 ? std::string("x") : q[i] == -3 ? std::string("p") : q[i] == -4 ? std::string("s") :
                               q[i] <= -1000 ? "o" + std::to_string(-1000 - q[i]) : q[i] < 0 ? std::string("?") : std::to_string(q[i]));
    return s;
}

int main()
{
    ompl::msg::setLogLevel(ompl::msg::LOG_NONE);
    ompl::RNG::setSeed(1);   // the atlas' nearest-neighbour structure draws pivots: same evolution in every process
    std::string line;
    if (!vp::readLine(line))
        return 2;
    auto hdr = vp::tokens(line);
    std::map<std::string, std::string> kv;
    bool okh = !hdr.empty() && hdr[0] == "motion";
    for (size_t i = 1; okh && i < hdr.size(); ++i)
    {
        auto p = hdr[i].find('=');
        if (p == std::string::npos)
            okh = false;
        else
            kv[hdr[i].substr(0, p)] = hdr[i].substr(p + 1);
    }
    auto getd = [&](const char *k) -> std::optional<double> {
        auto it = kv.find(k);
        if (it == kv.end())
            return std::nullopt;
        return vp::parseBits(it->second);
    };
    std::vector<unsigned> fac;
    if (okh && kv.count("f"))
    {
        std::string cur;
        for (char c : kv["f"] + ",")
            if (c == ',')
            {
                auto v = vp::parseNat(cur);
                if (!v || *v < 1 || *v > 1000)
                    okh = false;
                else
                    fac.push_back(*v);
                cur.clear();
            }
            else
                cur += c;
    }
    auto frac = getd("frac"), lo = getd("lo"), hi = getd("hi"), rho = getd("rho");
    auto dimn = kv.count("dim") ? vp::parseNat(kv["dim"]) : std::optional<unsigned long long>(1);
    std::string spn = kv.count("space") ? kv["space"] : "", valn = kv.count("validator") ? kv["validator"] : "";
    if (!okh || !frac || !lo || !hi || !rho || !dimn || *dimn < 1 || *dimn > 16 || !(*lo < *hi) ||
        (valn != "default" && valn != "discrete"))
    {
        std::cout << "bad-header\n";
        return 2;
    }
    auto rv = [&](unsigned d) {
        auto s = std::make_shared<ob::RealVectorStateSpace>(d);
        ob::RealVectorBounds b(d);
        b.setLow(*lo);
        b.setHigh(*hi);
        s->setBounds(b);
        return s;
    };
    ob::RealVectorBounds b2(2), b3(3);
    b2.setLow(*lo);
    b2.setHigh(*hi);
    b3.setLow(*lo);
    b3.setHigh(*hi);
    ob::StateSpacePtr space;
    bool projSpace = false, tbSpace = false;
    size_t needFac = 1;
    std::vector<ob::StateSpacePtr> nodes;  // pre-order, for the factors
    if (spn == "r1" || spn == "rn")
    {
        space = rv(spn == "r1" ? 1 : *dimn);
        nodes = {space};
    }
    else if (spn == "so2")
    {
        space = std::make_shared<ob::SO2StateSpace>();
        nodes = {space};
    }
    else if (spn == "se2")
    {
        auto s = std::make_shared<ob::SE2StateSpace>();
        s->setBounds(b2);
        space = s;
        nodes = {space, s->getSubspace(0), s->getSubspace(1)};
    }
    else if (spn == "cmpd")
    {
        auto s = std::make_shared<ob::CompoundStateSpace>();
        s->addSubspace(rv(2), 1.0);
        s->addSubspace(std::make_shared<ob::SO2StateSpace>(), 0.5);
        s->addSubspace(rv(1), 2.0);
        s->lock();
        space = s;
        nodes = {space, s->getSubspace(0), s->getSubspace(1), s->getSubspace(2)};
    }
    else if (spn == "cmpd2")
    {
        auto e = std::make_shared<ob::SE2StateSpace>();
        e->setBounds(b2);
        auto s = std::make_shared<ob::CompoundStateSpace>();
        s->addSubspace(e, 1.0);
        s->addSubspace(rv(1), 0.25);
        s->lock();
        space = s;
        nodes = {space, e, e->getSubspace(0), e->getSubspace(1), s->getSubspace(1)};
    }
    else if (spn == "dubins" || spn == "dubinssym")
    {
        auto s = std::make_shared<ob::DubinsStateSpace>(*rho, spn == "dubinssym");
        s->setBounds(b2);
        space = s;
        nodes = {space};
    }
    else if (spn == "rs")
    {
        auto s = std::make_shared<ob::ReedsSheppStateSpace>(*rho);
        s->setBounds(b2);
        space = s;
        nodes = {space};
    }
    else if (spn == "owen")
    {
        auto s = std::make_shared<ob::OwenStateSpace>(*rho);
        s->setBounds(b3);
        space = s;
        nodes = {space};
    }
    else if (spn == "proj")
    {
        // ProjectedStateSpace over R^3 with the unit-sphere constraint; ConstrainedSpaceInformation installs the
        // ConstrainedMotionValidator as default.  rho is the space's delta (geodesic step).
        auto con = std::make_shared<Sphere>();
        auto ps = std::make_shared<ob::ProjectedStateSpace>(rv(3), con);
        space = ps;
        nodes = {space};
        projSpace = true;
    }
    else if (spn == "atlas")
    {
        auto con = std::make_shared<Sphere>();
        space = std::make_shared<ob::AtlasStateSpace>(rv(3), con);
        nodes = {space};
        projSpace = true;
    }
    else if (spn == "tb")
    {
        // TangentBundleStateSpace on the same sphere; TangentBundleSpaceInformation wraps the 3-argument checkMotion
        auto con = std::make_shared<Sphere>();
        space = std::make_shared<ob::TangentBundleStateSpace>(rv(3), con);
        nodes = {space};
        projSpace = true;
        tbSpace = true;
    }
    else if (spn == "vana")
    {
        auto s = std::make_shared<ob::VanaStateSpace>(*rho);
        s->setBounds(b3);
        space = s;
        nodes = {space};
    }
    else if (spn == "vanaowen")
    {
        auto s = std::make_shared<ob::VanaOwenStateSpace>(*rho);
        s->setBounds(b3);
        space = s;
        nodes = {space};
    }
    else
    {
        std::cout << "bad-header\n";
        return 2;
    }
    needFac = nodes.size();
    if (fac.size() != needFac)
    {
        std::cout << "bad-header\n";
        return 2;
    }
    Book book;
    book.sp = space;
    Frame F0, F1;      // F0: the motion of the cm line; F1: the motion of a nested call
    book.cur = &F0;
    std::shared_ptr<Scripted> svc;
    std::vector<std::shared_ptr<Scripted>> graveyard;   // replaced checkers that are kept alive (swapvc keep)
    ob::SpaceInformationPtr si;
    try
    {
        space->setLongestValidSegmentFraction(*frac);
        for (size_t i = 0; i < nodes.size(); ++i)
            nodes[i]->setValidSegmentCountFactor(fac[i]);
        if (tbSpace)
        {
            si = std::make_shared<ob::TangentBundleSpaceInformation>(space);
            space->as<ob::ConstrainedStateSpace>()->setDelta(*rho);
        }
        else if (projSpace)
        {
            si = std::make_shared<ob::ConstrainedSpaceInformation>(space);
            space->as<ob::ConstrainedStateSpace>()->setDelta(*rho);
        }
        else
            si = std::make_shared<ob::SpaceInformation>(space);
        svc = std::make_shared<Scripted>(si, &book, 0);
        si->setStateValidityChecker(svc);
        if (valn == "discrete")
            si->setMotionValidator(std::make_shared<ob::DiscreteMotionValidator>(si));
        si->setup();
    }
    catch (const std::exception &e)
    {
        std::cout << "bad-header\n";
        return 2;
    }
    const unsigned nreals = [&] {
        std::vector<double> r;
        ob::State *s = si->allocState();
        space->copyToReals(r, s);
        si->freeState(s);
        return (unsigned)r.size();
    }();

    auto parseState = [&](const std::vector<std::string> &t, size_t &i, ob::State *dst) -> bool {
        auto xs = vp::takeCounted(t, i);
        if (!xs || xs->size() != nreals)
            return false;
        std::vector<double> r;
        for (auto &x : *xs)
        {
            auto d = vp::parseBits(x);
            if (!d)
                return false;
            r.push_back(*d);
        }
        space->copyFromReals(dst, r);
        return true;
    };
    ob::State *s1 = si->allocState(), *s2 = si->allocState(), *tmp = si->allocState(), *lvState = si->allocState(),
              *sentinel = si->allocState();
    // the nested motion and its own scratch / last-valid storage
    ob::State *n1 = si->allocState(), *n2 = si->allocState(), *tmpN = si->allocState(), *lvStateN = si->allocState();
    {
        std::vector<double> r(nreals, 0.123456789);
        space->copyFromReals(sentinel, r);
    }
    const double lvSentinel = 12345.678;
    const bool hintedSpace = spn == "proj" || spn == "tb" || spn == "atlas" || spn == "dubins" || spn == "dubinssym" || spn == "rs" || spn == "owen" || spn == "vana" ||
                             spn == "vanaowen";
    const bool d3Space = spn == "owen" || spn == "vana" || spn == "vanaowen";
    ob::MotionValidatorPtr mv;
    std::shared_ptr<Tap> tap;
    // (tb) the validator is wrapped so that the questions of TangentBundleSpaceInformation's own wrapper can be told apart;
    // counters are still read from the real validator `mv`
    auto retap = [&]() {
        mv = si->getMotionValidator();
        if (tbSpace)
        {
            tap = std::make_shared<Tap>(si, mv, &book);
            si->setMotionValidator(tap);
        }
    };
    retap();

    const bool atlasLike = spn == "atlas" || spn == "tb";
    auto invstr = [&](Frame &F, const ob::State *b) -> std::string {
        return (svc->boxMode && !F.ownPred ? " inv=" + qstr(F.boxInv) : std::string()) +
               (projSpace ? std::string(" reached=") + (F.reached ? "1" : "0") + " sat=" +
                                (space->as<ob::ConstrainedStateSpace>()->getConstraint()->isSatisfied(b) ? "1" : "0") :
                            std::string());
    };
    // constrained traversal that gave up for geometric reasons: the last candidate it looked at (asked about, then
    // rejected: step too long / wandered / no closer) is not one of its states; shown as 'x'
    auto relabel = [&](Frame &F) {
        if (projSpace && !F.reached)
        {
            // (skip the tb wrapper's 'p')
            size_t k = F.rec.size();
            if (k > 0 && F.rec[k - 1] == -3)
                --k;
            if (k > 0 && F.rec[k - 1] == -1)
                F.rec[k - 1] = -2;
        }
    };
    // fills the frame's table for the pair (a, b)
    auto prepare = [&](Frame &F, const ob::State *a, const ob::State *b, ob::State *tmpS) -> long {
        long n = (long)space->validSegmentCount(a, b);
        Frame *savedCur = book.cur;
        book.cur = &F;      // (tb) the reference traversal's own validity questions go to this frame and are discarded below
        F.endPtr = b;
        F.n = n;
        F.table.clear();
        F.rec.clear();
        F.amb = 0;
        F.startPtr = projSpace ? a : nullptr;
        if (projSpace)
        {
            // subdivision of a constrained motion = the states of the manifold traversal itself, computed here with
            // validity checking off: g_0 = s1, g_1 .. g_m; index m+1 stands for s2 (pointer identity)
            // (an Atlas creates charts while it travels, which changes the steps of the next traversal over the same
            //  ground: repeat the reference run until two consecutive runs give the same states)
            std::vector<ob::State *> geo;
            std::vector<std::string> prev;
            for (int rep = 0; rep < 6; ++rep)
            {
                for (auto *g : geo)
                    space->freeState(g);
                geo.clear();
                F.reached = space->as<ob::ConstrainedStateSpace>()->discreteGeodesic(a, b, true, &geo);
                std::vector<std::string> cur;
                for (auto *g : geo)
                    cur.push_back(ser(space, g));
                bool same = rep > 0 && cur == prev;
                prev = cur;
                if (same || !atlasLike)
                    break;
            }
            n = (long)geo.size();        // m + 1 with m = geo.size() - 1
            F.n = n;
            F.geo.clear();
            F.geoP.clear();
            for (size_t j = 0; j < geo.size(); ++j)
            {
                F.geo.push_back(ser(space, geo[j]));
                if (j >= 1)
                    F.table[ser(space, geo[j])].push_back((long)j);
                if (tbSpace)
                {
                    // what TangentBundleSpaceInformation hands back is the re-projection of a traversal state
                    space->as<ob::TangentBundleStateSpace>()->project(geo[j]);
                    F.geoP.push_back(ser(space, geo[j]));
                }
                space->freeState(geo[j]);
            }
            F.rec.clear();
            F.amb = 0;
        }
        else if (n >= 1 && n <= 100000)
            for (long j = 0; j <= n; ++j)
            {
                space->interpolate(a, b, (double)j / (double)n, tmpS);
                F.table[ser(space, tmpS)].push_back(j);
            }
        F.boxInv.clear();
        if (svc->boxMode && !F.ownPred)
        {
            // truth table of the geometric predicate on the harness' own subdivision points
            if (n == 0)
            {
                if (svc->inBox(b))
                    F.boxInv.push_back(0);
            }
            else
                for (long j = 1; j <= n; ++j)
                {
                    if (j < n)
                        space->interpolate(a, b, (double)j / (double)n, tmpS);
                    if (svc->inBox(j < n ? tmpS : b))
                        F.boxInv.push_back(j);
                }
        }
        // the r1 arithmetic decode only makes sense for s1 = 0
        F.r1Decode = false;
        if (spn == "r1")
        {
            F.r1End = b->as<ob::RealVectorStateSpace::StateType>()->values[0];
            F.r1Decode = a->as<ob::RealVectorStateSpace::StateType>()->values[0] == 0.0 && F.r1End != 0.0;
        }
        book.cur = savedCur;
        return n;
    };
    auto cnt = [&](unsigned a0, unsigned b0) {
        return "cnt=" + std::to_string(a0) + "/" + std::to_string(b0) + "->" + std::to_string(mv->getValidMotionCount()) +
               "/" + std::to_string(mv->getInvalidMotionCount());
    };
    // one complete checkMotion call (cm2 | cm3 | cm3n) on the motion (a, b) whose frame F has been prepared; the result line
    auto runCall = [&](const std::string &op, Frame &F, const ob::State *a, const ob::State *b, ob::State *lvBuf,
                       ob::State *tmpS, long n) -> std::string {
        Frame *savedCur = book.cur;
        book.cur = &F;
        unsigned a0 = mv->getValidMotionCount(), b0 = mv->getInvalidMotionCount();
        std::ostringstream os;
        if (op == "cm2")
        {
            bool v = si->checkMotion(a, b);
            relabel(F);
            os << "v=" << (v ? 1 : 0) << " n=" << n << " q=" << qstr(F.rec) << " " << cnt(a0, b0) << " amb=" << F.amb
               << invstr(F, b);
        }
        else
        {
            std::pair<ob::State *, double> lastValid;
            space->copyState(lvBuf, sentinel);
            lastValid.first = op == "cm3" ? lvBuf : nullptr;
            lastValid.second = lvSentinel;
            bool v = si->checkMotion(a, b, lastValid);
            // TangentBundleSpaceInformation re-projects the state it hands back after an invalid motion; project()
            // looks at the validity of the result: shown as 'p'
            if (tbSpace)
                for (size_t k = tap->mark; k < F.rec.size(); ++k)
                    F.rec[k] = -3;
            relabel(F);
            std::string lv, lvs;
            if (vp::bits(lastValid.second) == vp::bits(lvSentinel))
                lv = "untouched";
            else
                lv = vp::bits(lastValid.second);
            if (op == "cm3n")
                lvs = "null";
            else if (ser(space, lvBuf) == ser(space, sentinel))
                lvs = "untouched";
            else if (projSpace)
            {
                // which state of the traversal was handed back
                lvs = "?";
                std::string bb = ser(space, lvBuf);
                for (size_t k = 0; k < F.geo.size(); ++k)
                    if (F.geo[k] == bb || (k < F.geoP.size() && F.geoP[k] == bb))
                    {
                        lvs = "g" + std::to_string(k);
                        break;
                    }
            }
            else
            {
                space->interpolate(a, b, lastValid.second, tmpS);
                lvs = ser(space, tmpS) == ser(space, lvBuf) ? "eq" : "ne";
            }
            os << "v=" << (v ? 1 : 0) << " n=" << n << " lv=" << lv << " lvs=" << lvs << " q=" << qstr(F.rec) << " "
               << cnt(a0, b0) << " amb=" << F.amb << invstr(F, b);
        }
        book.cur = savedCur;
        return os.str();
    };
    // an armed nested call (op `nest`): consumed by the next cm line
    struct
    {
        bool armed = false;
        long k = 0;
        bool thread = false;
        std::string form;
        std::set<long> inv;
    } nest;

    while (vp::readLine(line))
    {
        auto t = vp::tokens(line);
        if (t.empty())
            continue;
        const std::string &op = t[0];
        if (op == "invalid" && t.size() >= 2 && t[1] == "idx")
        {
            std::set<long> inv;
            bool ok = true;
            for (size_t i = 2; i < t.size(); ++i)
            {
                auto v = vp::parseNat(t[i]);
                if (!v)
                {
                    ok = false;
                    break;
                }
                inv.insert((long)*v);
            }
            if (!ok)
            {
                std::cout << "bad-op\n";
                continue;
            }
            svc->invalid = inv;
            svc->boxMode = false;
            std::cout << "ok\n";
        }
        else if (op == "invalid" && t.size() == 2 + 2 * (size_t)nreals && t[1] == "box" && !hintedSpace)
        {
            std::vector<std::pair<double, double>> bx;
            bool ok = true;
            for (size_t i = 0; i < nreals; ++i)
            {
                auto lo_ = vp::parseBits(t[2 + 2 * i]), hi_ = vp::parseBits(t[3 + 2 * i]);
                if (!lo_ || !hi_)
                {
                    ok = false;
                    break;
                }
                bx.emplace_back(*lo_, *hi_);
            }
            if (!ok)
            {
                std::cout << "bad-op\n";
                continue;
            }
            svc->box = bx;
            svc->boxMode = true;
            std::cout << "ok\n";
        }
        else if (op == "swapvc" && t.size() == 2 && (t[1] == "keep" || t[1] == "drop" || t[1] == "fn"))
        {
            // a NEW checker object with the empty predicate; whoever still asks the old one is answered from the old predicate
            auto nsvc = std::make_shared<Scripted>(si, &book, ++book.currentGen);
            if (t[1] == "keep")
                graveyard.push_back(svc);
            if (t[1] == "fn")
                si->setStateValidityChecker([nsvc](const ob::State *s) { return nsvc->isValid(s); });
            else
                si->setStateValidityChecker(nsvc);
            svc = nsvc;
            std::cout << "ok\n";
        }
        else if (op == "setfrac" && t.size() == 2 && vp::parseBits(t[1]) && !projSpace)
        {
            try
            {
                si->setStateValidityCheckingResolution(*vp::parseBits(t[1]));
                std::cout << "ok\n";
            }
            catch (const std::exception &e)
            {
                std::cout << "bad-op\n";
            }
        }
        else if (op == "setbounds" && t.size() == 3 && vp::parseBits(t[1]) && vp::parseBits(t[2]) && !projSpace &&
                 *vp::parseBits(t[1]) < *vp::parseBits(t[2]))
        {
            // new bounds on every RealVector part (through the owning space's own setBounds where it has one): the
            // maximum extent, hence longestValidSegment_, follows at the next setup() only
            const double l = *vp::parseBits(t[1]), h = *vp::parseBits(t[2]);
            auto mk = [&](unsigned d) {
                ob::RealVectorBounds b(d);
                b.setLow(l);
                b.setHigh(h);
                return b;
            };
            if (auto *x = dynamic_cast<ob::OwenStateSpace *>(space.get()))
                x->setBounds(mk(3));
            else if (auto *x = dynamic_cast<ob::VanaStateSpace *>(space.get()))
                x->setBounds(mk(3));
            else if (auto *x = dynamic_cast<ob::VanaOwenStateSpace *>(space.get()))
                x->setBounds(mk(3));
            else
                for (auto &nd : nodes)
                {
                    if (auto *rvs = dynamic_cast<ob::RealVectorStateSpace *>(nd.get()))
                        rvs->setBounds(mk(rvs->getDimension()));
                    else if (auto *se = dynamic_cast<ob::SE2StateSpace *>(nd.get()))
                        se->setBounds(mk(2));
                }
            std::cout << "ok\n";
        }
        else if (op == "setfac" && t.size() == 3 && vp::parseNat(t[1]) && vp::parseNat(t[2]) && *vp::parseNat(t[1]) < nodes.size() &&
                 *vp::parseNat(t[2]) >= 1 && *vp::parseNat(t[2]) <= 1000 && !projSpace)
        {
            nodes[*vp::parseNat(t[1])]->setValidSegmentCountFactor((unsigned)*vp::parseNat(t[2]));
            std::cout << "ok\n";
        }
        else if (op == "setup" && t.size() == 1)
        {
            si->setup();
            std::cout << "ok\n";
        }
        else if (op == "setmv" && t.size() == 2 && (t[1] == "default" || (t[1] == "discrete" && !projSpace && !d3Space)))
        {
            if (t[1] == "default")
            {
                si->setMotionValidator(ob::MotionValidatorPtr());
                si->setup();      // installs the space's default validator
            }
            else
                si->setMotionValidator(std::make_shared<ob::DiscreteMotionValidator>(si));
            retap();
            std::cout << "ok\n";
        }
        else if (op == "resetcnt" && t.size() == 1)
        {
            mv->resetMotionCounter();
            std::cout << "ok\n";
        }
        else if (op == "nest" && t.size() >= 4)
        {
            auto k = vp::parseNat(t[1]);
            size_t i = 4;
            bool ok = k && *k >= 1 && *k <= 1000000 && (t[2] == "same" || t[2] == "thread") &&
                      (t[3] == "cm2" || t[3] == "cm3" || t[3] == "cm3n") && parseState(t, i, n1) &&
                      parseState(t, i, n2);
            std::set<long> inv;
            if (ok)
            {
                auto h = vp::takeCounted(t, i);
                auto iv = ok ? vp::takeCounted(t, i) : std::nullopt;
                ok = h && iv && i == t.size() && h->size() <= 4;
                if (ok)
                    for (auto &x : *h)
                        ok = ok && vp::parseNat(x);
                if (ok)
                    for (auto &x : *iv)
                    {
                        auto v = vp::parseNat(x);
                        if (!v)
                            ok = false;
                        else
                            inv.insert((long)*v);
                    }
            }
            if (!ok)
            {
                std::cout << "bad-op\n";
                continue;
            }
            nest.armed = true;
            nest.k = (long)*k;
            nest.thread = t[2] == "thread";
            nest.form = t[3];
            nest.inv = inv;
            std::cout << "ok\n";
        }
        else if (op == "gms" && t.size() >= 5)
        {
            auto cnt_ = vp::parseNat(t[1]), sz_ = vp::parseNat(t[4]);
            size_t i = 5;
            if (!cnt_ || !sz_ || (t[2] != "0" && t[2] != "1") || (t[3] != "0" && t[3] != "1") || *cnt_ >= 4294967296ull ||
                *sz_ > 100000 || !parseState(t, i, s1) || !parseState(t, i, s2) || i != t.size())
            {
                std::cout << "bad-op\n";
                continue;
            }
            unsigned count = (unsigned)*cnt_;
            bool endpoints = t[2] == "1", alloc = t[3] == "1";
            size_t size = *sz_;
            std::vector<ob::State *> v;
            v.reserve(size);
            std::vector<ob::State *> mine;
            for (size_t k = 0; k < size; ++k)
            {
                if (alloc)
                    v.push_back(nullptr);
                else
                {
                    ob::State *x = si->allocState();
                    space->copyState(x, sentinel);
                    v.push_back(x);
                    mine.push_back(x);
                }
            }
            unsigned ret = si->getMotionStates(s1, s2, v, count, endpoints, alloc);
            // labels: the harness' own table of what each slot may legitimately hold
            unsigned c = count + 1;   // wraps like the code under test
            std::map<std::string, std::vector<std::string>> lab;
            lab[ser(space, s1)].push_back("S");
            lab[ser(space, s2)].push_back("G");
            if (c >= 2 && c <= 200000)
                for (unsigned j = 1; j < c; ++j)
                {
                    space->interpolate(s1, s2, (double)j / (double)c, tmp);
                    lab[ser(space, tmp)].push_back(std::to_string(j) + "/" + std::to_string(c));
                }
            std::string sent = ser(space, sentinel);
            std::string slots;
            unsigned amb = 0;
            for (size_t k = 0; k < v.size(); ++k)
            {
                std::string l;
                if (v[k] == nullptr)
                    l = "0";
                else
                {
                    std::string b = ser(space, v[k]);
                    if (b == sent)
                        l = "u";
                    else
                    {
                        auto it = lab.find(b);
                        if (it == lab.end())
                            l = "?";
                        else
                        {
                            l = it->second.front();
                            if (it->second.size() > 1)
                                ++amb;
                        }
                    }
                }
                slots += (k ? "," : "") + l;
            }
            std::cout << "ret=" << ret << " size=" << v.size() << " slots=" << (slots.empty() ? "-" : slots) << " amb=" << amb
                      << "\n";
            std::set<ob::State *> freed;
            for (auto *x : v)
                if (x && freed.insert(x).second)
                    si->freeState(x);
            for (auto *x : mine)
                if (freed.insert(x).second)
                    si->freeState(x);
        }
        else if (op == "hint" && ((t.size() == 2 && vp::parseNat(t[1])) ||
                                  (t.size() == 3 && vp::parseNat(t[1]) && (t[2] == "0" || t[2] == "1")) ||
                                  ((t.size() == 4 || t.size() == 5) && vp::parseNat(t[1]) && (t[2] == "0" || t[2] == "1") &&
                                   (t[3] == "0" || t[3] == "1") && (t.size() == 4 || t[4] == "0" || t[4] == "1"))))
            std::cout << "ok\n";
        else if (op == "cm3x")
        {
            // three-argument check with lastValid.first pre-loaded with a caller-chosen state: on success the storage must
            // come back bit-identical and the verdict must not depend on what it held
            size_t i = 1;
            if (!parseState(t, i, s1) || !parseState(t, i, s2) || !parseState(t, i, lvState) || i != t.size())
            {
                std::cout << "bad-op\n";
                continue;
            }
            book.listMode = false;
            book.cur = &F0;
            F0.ownPred = false;
            long n = prepare(F0, s1, s2, tmp);
            unsigned a0 = mv->getValidMotionCount(), b0 = mv->getInvalidMotionCount();
            std::string before = ser(space, lvState);
            std::pair<ob::State *, double> lastValid(lvState, lvSentinel);
            bool v = si->checkMotion(s1, s2, lastValid);
            relabel(F0);
            std::cout << "v=" << (v ? 1 : 0) << " n=" << n << " lv="
                      << (vp::bits(lastValid.second) == vp::bits(lvSentinel) ? std::string("untouched") : vp::bits(lastValid.second))
                      << " first=" << (ser(space, lvState) == before ? "same" : "changed") << " q=" << qstr(F0.rec) << " "
                      << cnt(a0, b0) << " amb=" << F0.amb << invstr(F0, s2) << "\n";
        }
        else if (op == "seg" || op == "cm2" || op == "cm3" || op == "cm3n")
        {
            size_t i = 1;
            if (!parseState(t, i, s1) || !parseState(t, i, s2) || i != t.size())
            {
                std::cout << "bad-op\n";
                continue;
            }
            if (op == "seg")
            {
                std::cout << "n=" << space->validSegmentCount(s1, s2) << " dist=" << vp::bits(space->distance(s1, s2))
                          << " L=" << vp::bits(space->getLongestValidSegmentLength());
                if (spn == "owen")
                    std::cout << " path=" << (space->as<ob::OwenStateSpace>()->getPath(s1, s2) ? 1 : 0);
                if (spn == "vana")
                    std::cout << " path=" << (space->as<ob::VanaStateSpace>()->getPath(s1, s2) ? 1 : 0);
                if (spn == "vanaowen")
                    std::cout << " path=" << (space->as<ob::VanaOwenStateSpace>()->getPath(s1, s2) ? 1 : 0);
                std::cout << "\n";
                continue;
            }
            book.listMode = false;
            book.cur = &F0;
            F0.ownPred = false;
            long n = prepare(F0, s1, s2, tmp);
            const bool armed = nest.armed;
            std::string nestedOut;
            if (armed)
            {
                F1.ownPred = true;
                F1.invalid = nest.inv;
                long nn = prepare(F1, n1, n2, tmpN);
                book.other = &F1;
                book.hookFrame = &F0;
                book.hookAt = nest.k;
                book.asked = 0;
                book.hook = [&, nn]() {
                    auto body = [&, nn]() {
                        book.other = &F0;      // a nested question about a point of the OUTER motion is named as such
                        nestedOut = runCall(nest.form, F1, n1, n2, lvStateN, tmpN, nn);
                        book.other = &F1;
                    };
                    if (nest.thread)
                    {
                        std::thread th(body);
                        th.join();
                    }
                    else
                        body();
                };
            }
            std::string out = runCall(op, F0, s1, s2, lvState, tmp, n);
            if (armed)
            {
                out += nestedOut.empty() ? std::string(" || nested=none") : " || nested " + nestedOut;
                book.hookAt = 0;
                book.other = nullptr;
                book.hook = nullptr;
                nest.armed = false;
            }
            std::cout << out << "\n";
        }
        else if (op == "list" && t.size() >= 3 && vp::parseNat(t[1]) && vp::parseNat(t[2]))
        {
            size_t count = *vp::parseNat(t[1]), total = *vp::parseNat(t[2]);
            if (count > total || total > 100000 || t.size() != 3 + total)
            {
                std::cout << "bad-op\n";
                continue;
            }
            std::set<long> inv;
            bool ok = true;
            for (size_t k = 0; k < total; ++k)
            {
                if (t[3 + k] == "0")
                    inv.insert((long)k);
                else if (t[3 + k] != "1")
                    ok = false;
            }
            if (!ok)
            {
                std::cout << "bad-op\n";
                continue;
            }
            std::vector<ob::State *> states(total);
            std::set<long> saved = svc->invalid;
            svc->invalid = inv;
            book.cur = &F0;
            book.listMode = true;
            book.ptrIndex.clear();
            for (size_t k = 0; k < total; ++k)
            {
                states[k] = si->allocState();
                space->copyState(states[k], sentinel);
                book.ptrIndex[states[k]] = (long)k;
            }
            F0.rec.clear();
            bool v2 = si->checkMotion(states, (unsigned)count);
            std::string q2 = qstr(F0.rec);
            F0.rec.clear();
            unsigned first = 4294967295u;
            bool v3 = si->checkMotion(states, (unsigned)count, first);
            std::string q3 = qstr(F0.rec);
            std::cout << "v2=" << (v2 ? 1 : 0) << " q2=" << q2 << " v3=" << (v3 ? 1 : 0)
                      << " first=" << (first == 4294967295u ? std::string("untouched") : std::to_string(first))
                      << " q3=" << q3 << "\n";
            for (auto *s : states)
                si->freeState(s);
            book.listMode = false;
            book.ptrIndex.clear();
            svc->invalid = saved;
        }
        else
            std::cout << "bad-op\n";
    }
    si->freeState(s1);
    si->freeState(s2);
    si->freeState(tmp);
    si->freeState(lvState);
    si->freeState(sentinel);
    si->freeState(n1);
    si->freeState(n2);
    si->freeState(tmpN);
    si->freeState(lvStateN);
    return 0;
}
