// C06 harness: drives the real distance / equalStates / satisfiesBounds / getMaximumExtent and the
// claim predicates (isMetricSpace, hasSymmetricDistance, hasSymmetricInterpolate, isDiscrete) of the
// state spaces built from /repo's current tree (links libompl).
//
//   header : spacedist [space]
//   ops    : space <space>            -> ok            (re-declares the current space)
//            dist <stateA> <stateB>   -> d <bits>
//            equal <stateA> <stateB>  -> eq 0|1
//            inbounds <state>         -> in 0|1
//            extent                   -> ext <bits>
//            claims                   -> claims metric=b symdist=b syminterp=b discrete=b
//
// space grammar: harness/common/spaces.h plus (implementation-only, no Lean model)
//            dubins <rho> <sym:0|1> <lo>*2 <hi>*2 | reedsshepp <rho> <lo>*2 <hi>*2
// whose states are `x y theta` (they are SE(2) compounds).
#include "common/spaces.h"
#include <ompl/base/spaces/DubinsStateSpace.h>
#include <ompl/base/spaces/ReedsSheppStateSpace.h>
#include <ompl/base/spaces/OwenStateSpace.h>
#include <ompl/base/spaces/VanaStateSpace.h>
#include <ompl/base/spaces/VanaOwenStateSpace.h>
#include <ompl/base/spaces/EmptyStateSpace.h>
#include <ompl/base/spaces/SpaceTimeStateSpace.h>
#include <ompl/base/Constraint.h>
#include <ompl/base/ConstrainedSpaceInformation.h>
#include <ompl/base/spaces/constraint/ProjectedStateSpace.h>
#include <ompl/base/spaces/constraint/AtlasStateSpace.h>
#include <ompl/base/spaces/constraint/TangentBundleStateSpace.h>
#include <ompl/geometric/planners/cforest/CForestStateSpaceWrapper.h>
#include <ompl/util/Console.h>
#include <ompl/util/Exception.h>

namespace ob = ompl::base;

// extended grammar (all top level; `X <space>` forms take any space of this grammar):
//   empty                                          EmptyStateSpace                     (model: R^0 with extent 0)
//   spacetime <vmax> <timeWeight> (u | b <lo> <hi>) <space>   SpaceTimeStateSpace      (model)
//   projected|atlas|tangentbundle <rv space>       constrained spaces over the unit-sphere constraint (model: ambient)
//   cforest <space>                                CForestStateSpaceWrapper            (model: inner)
//   dubins <rho> <sym> <lo>*2 <hi>*2 | reedsshepp <rho> <lo>*2 <hi>*2                  (implementation only)
//   owen|vana|vanaowen <rho> <maxPitch> <lo>*3 <hi>*3                                  (implementation only)
// `layout` is the space whose state layout the protocol follows (the inner space for cforest, whose
// states ARE the inner space's states).
struct SpaceH
{
    ob::StateSpacePtr sp;
    ob::StateSpacePtr layout;
    std::vector<ob::StateSpacePtr> keep;   // inner spaces referenced by raw pointer (cforest), outermost last
    std::vector<std::shared_ptr<void>> life; // SpaceInformation objects of constrained spaces (needed by setup())
};

// ops that change a space AFTER construction (histories):
//   setup                                              sp->setup()
//   setbounds <k> <i>*k <n> <lo>*n <hi>*n              setBounds on the R^n / time node at path i1..ik
//   setweight <k> <i>*k <idx> <w>                      CompoundStateSpace::setSubspaceWeight(idx, w) on the node at the path
//   setweightn <k> <i>*k <idx> <w>                     ... setSubspaceWeight(getSubspace(idx)->getName(), w)
// path navigation: compound -> getSubspace(i); WrapperStateSpace (incl. constrained) -> 0 = getSpace();
// CForest wrapper -> 0 = the wrapped space.
static ob::StateSpace *navigate(const SpaceH &H, const std::vector<unsigned long long> &path)
{
    ob::StateSpace *cur = H.sp.get();
    size_t cf = H.keep.size();
    for (auto i : path)
    {
        if (dynamic_cast<ompl::base::CForestStateSpaceWrapper *>(cur))
        {
            if (i != 0 || cf == 0)
                throw vp::ParseError("path");
            cur = H.keep[--cf].get();
        }
        else if (auto w = dynamic_cast<ob::WrapperStateSpace *>(cur))
        {
            if (i != 0)
                throw vp::ParseError("path");
            cur = w->getSpace().get();
        }
        else if (auto c = dynamic_cast<ob::CompoundStateSpace *>(cur))
        {
            if (i >= c->getSubspaceCount())
                throw vp::ParseError("path");
            cur = c->getSubspace(i).get();
        }
        else
            throw vp::ParseError("path");
    }
    return cur;
}

static std::vector<unsigned long long> needPath(const std::vector<std::string> &t, size_t &i)
{
    auto k = vp::needN(t, i);
    std::vector<unsigned long long> p;
    for (unsigned long long j = 0; j < k; ++j)
        p.push_back(vp::needN(t, i));
    return p;
}

// ||x||^2 = 1 in R^n (co-dimension 1)
class UnitSphereConstraint : public ob::Constraint
{
public:
    explicit UnitSphereConstraint(unsigned n) : ob::Constraint(n, 1)
    {
    }
    void function(const Eigen::Ref<const Eigen::VectorXd> &x, Eigen::Ref<Eigen::VectorXd> out) const override
    {
        out[0] = x.squaredNorm() - 1.0;
    }
    void jacobian(const Eigen::Ref<const Eigen::VectorXd> &x, Eigen::Ref<Eigen::MatrixXd> out) const override
    {
        out = 2.0 * x.transpose();
    }
};

// x[0] = 0 (a hyperplane; co-dimension 1)
class PlaneConstraint : public ob::Constraint
{
public:
    explicit PlaneConstraint(unsigned n) : ob::Constraint(n, 1)
    {
    }
    void function(const Eigen::Ref<const Eigen::VectorXd> &x, Eigen::Ref<Eigen::VectorXd> out) const override
    {
        out[0] = x[0];
    }
};

// torus with radii 2 and 1 in the first three coordinates (numerical Jacobian of the base class)
class TorusConstraint : public ob::Constraint
{
public:
    explicit TorusConstraint(unsigned n) : ob::Constraint(n, 1)
    {
    }
    void function(const Eigen::Ref<const Eigen::VectorXd> &x, Eigen::Ref<Eigen::VectorXd> out) const override
    {
        double c = std::sqrt(x[0] * x[0] + x[1] * x[1]) - 2.0;
        out[0] = c * c + x[2] * x[2] - 1.0;
    }
};

static SpaceH parseSpaceExt(const std::vector<std::string> &t, size_t &i)
{
    if (i >= t.size())
        throw vp::ParseError("eol");
    const std::string k = t[i];
    if (k == "dubins" || k == "reedsshepp")
    {
        bool dub = k == "dubins";
        ++i;
        double rho = vp::needF(t, i);
        bool sym = false;
        if (dub)
            sym = vp::needN(t, i) != 0;
        ob::RealVectorBounds b(2);
        for (unsigned j = 0; j < 2; ++j)
            b.low[j] = vp::needF(t, i);
        for (unsigned j = 0; j < 2; ++j)
            b.high[j] = vp::needF(t, i);
        if (dub)
        {
            auto s = std::make_shared<ob::DubinsStateSpace>(rho, sym);
            s->setBounds(b);
            return {s, s, {}, {}};
        }
        auto s = std::make_shared<ob::ReedsSheppStateSpace>(rho);
        s->setBounds(b);
        return {s, s, {}, {}};
    }
    if (k == "owen" || k == "vana" || k == "vanaowen")
    {
        ++i;
        double rho = vp::needF(t, i);
        double pitch = vp::needF(t, i);
        ob::RealVectorBounds b(3);
        for (unsigned j = 0; j < 3; ++j)
            b.low[j] = vp::needF(t, i);
        for (unsigned j = 0; j < 3; ++j)
            b.high[j] = vp::needF(t, i);
        if (k == "owen")
        {
            auto s = std::make_shared<ob::OwenStateSpace>(rho, pitch);
            s->setBounds(b);
            return {s, s, {}, {}};
        }
        if (k == "vana")
        {
            auto s = std::make_shared<ob::VanaStateSpace>(rho, pitch);
            s->setBounds(b);
            return {s, s, {}, {}};
        }
        auto s = std::make_shared<ob::VanaOwenStateSpace>(rho, pitch);
        s->setBounds(b);
        return {s, s, {}, {}};
    }
    if (k == "empty")
    {
        ++i;
        auto s = std::make_shared<ob::EmptyStateSpace>();
        return {s, s, {}, {}};
    }
    if (k == "spacetime")
    {
        ++i;
        double vmax = vp::needF(t, i);
        double tw = vp::needF(t, i);
        if (i >= t.size())
            throw vp::ParseError("eol");
        std::string m = t[i++];
        double lo = 0, hi = 0;
        if (m == "b")
        {
            lo = vp::needF(t, i);
            hi = vp::needF(t, i);
        }
        else if (m != "u")
            throw vp::ParseError("spacetime");
        auto inner = vp::parseSpace(t, i);
        auto s = std::make_shared<ob::SpaceTimeStateSpace>(inner, vmax, tw);
        if (m == "b")
            s->setTimeBounds(lo, hi);
        return {s, s, {}, {}};
    }
    {
        // projected|atlas|tangentbundle[:sphere|:plane|:torus] <ambient space of spaces.h grammar>
        std::string base = k, cname = "sphere";
        auto colon = k.find(':');
        if (colon != std::string::npos)
        {
            base = k.substr(0, colon);
            cname = k.substr(colon + 1);
        }
        if (base == "projected" || base == "atlas" || base == "tangentbundle")
        {
            ++i;
            auto amb = vp::parseSpace(t, i);
            unsigned n = amb->getDimension();
            if (n < 2 || (cname == "torus" && n < 3))
                throw vp::ParseError("ambient dimension");
            ob::ConstraintPtr con;
            if (cname == "sphere")
                con = std::make_shared<UnitSphereConstraint>(n);
            else if (cname == "plane")
                con = std::make_shared<PlaneConstraint>(n);
            else if (cname == "torus")
                con = std::make_shared<TorusConstraint>(n);
            else
                throw vp::ParseError("constraint");
            ob::StateSpacePtr s;
            if (base == "projected")
                s = std::make_shared<ob::ProjectedStateSpace>(amb, con);
            else if (base == "atlas")
                s = std::make_shared<ob::AtlasStateSpace>(amb, con);
            else
                s = std::make_shared<ob::TangentBundleStateSpace>(amb, con);
            SpaceH out{s, s, {}, {}};
            if (base == "tangentbundle")
                out.life.push_back(std::make_shared<ob::TangentBundleSpaceInformation>(s));
            else
                out.life.push_back(std::make_shared<ob::ConstrainedSpaceInformation>(s));
            return out;
        }
    }
    if (k == "cforest")
    {
        ++i;
        SpaceH in = parseSpaceExt(t, i);
        auto s = std::make_shared<ob::CForestStateSpaceWrapper>(nullptr, in.sp.get());
        SpaceH out{s, in.layout, in.keep, in.life};
        out.keep.push_back(in.sp);
        return out;
    }
    auto s = vp::parseSpace(t, i);
    return {s, s, {}, {}};
}

struct Scoped
{
    ob::StateSpacePtr sp;
    ob::State *s;
    explicit Scoped(const ob::StateSpacePtr &p) : sp(p), s(p->allocState())
    {
    }
    ~Scoped()
    {
        sp->freeState(s);
    }
};

int main()
{
    ompl::msg::setLogLevel(ompl::msg::LOG_NONE);
    std::string line;
    if (!vp::readLine(line))
        return 2;
    auto hdr = vp::tokens(line);
    SpaceH H;
    ob::StateSpacePtr sp;
    if (hdr.empty() || hdr[0] != "spacedist")
    {
        std::cout << "bad-header\n";
        return 2;
    }
    if (hdr.size() > 1)
    {
        try
        {
            size_t i = 1;
            H = parseSpaceExt(hdr, i);
            sp = H.sp;
            if (i != hdr.size())
                throw vp::ParseError("trailing");
        }
        catch (const std::exception &)
        {
            std::cout << "bad-header\n";
            return 2;
        }
    }
    while (vp::readLine(line))
    {
        auto t = vp::tokens(line);
        if (t.empty())
            continue;
        const std::string &op = t[0];
        try
        {
            if (op == "space")
            {
                size_t i = 1;
                auto nsp = parseSpaceExt(t, i);
                if (i != t.size())
                    throw vp::ParseError("trailing");
                H = nsp;
                sp = H.sp;
                std::cout << "ok\n";
            }
            else if (!sp)
                std::cout << "bad-op\n";
            else if (op == "dist" || op == "equal")
            {
                Scoped a(sp), b(sp);
                size_t i = 1;
                vp::parseStateInto(H.layout.get(), a.s, t, i);
                vp::parseStateInto(H.layout.get(), b.s, t, i);
                if (i != t.size())
                    throw vp::ParseError("trailing");
                if (op == "dist")
                {
                    std::cout << "d " << vp::bits(sp->distance(a.s, b.s));
                    // recorded answers for the Lean model (Model/SpaceDistCar.lean): Owen: the root of the bracketing
                    // search; VanaOwen: vertical radius and the three lengths of the SZ Dubins path; none = no path
                    if (auto ow = dynamic_cast<ob::OwenStateSpace *>(sp.get()))
                    {
                        if (auto path = ow->getPath(a.s, b.s))
                            std::cout << " rec 1 " << vp::bits(path->numTurns_ > 0 ? path->turnRadius_ : path->phi_);
                        else
                            std::cout << " rec 0";
                    }
                    else if (auto vo = dynamic_cast<ob::VanaOwenStateSpace *>(sp.get()))
                    {
                        if (auto path = vo->getPath(a.s, b.s))
                            std::cout << " rec 4 " << vp::bits(path->verticalRadius_) << " " << vp::bits(path->pathSZ_.length_[0])
                                      << " " << vp::bits(path->pathSZ_.length_[1]) << " " << vp::bits(path->pathSZ_.length_[2]);
                        else
                            std::cout << " rec 0";
                    }
                    std::cout << "\n";
                }
                else
                    std::cout << "eq " << (sp->equalStates(a.s, b.s) ? 1 : 0) << "\n";
            }
            else if (op == "inbounds")
            {
                Scoped a(sp);
                size_t i = 1;
                vp::parseStateInto(H.layout.get(), a.s, t, i);
                if (i != t.size())
                    throw vp::ParseError("trailing");
                std::cout << "in " << (sp->satisfiesBounds(a.s) ? 1 : 0) << "\n";
            }
            else if (op == "setup" && t.size() == 1)
            {
                // setup() may legitimately refuse a space (all weights zero, zero extent, ...): the space stays
                // usable for distance / extent queries, so a refused setup is answered like a successful one
                try
                {
                    sp->setup();
                }
                catch (const ompl::Exception &)
                {
                }
                std::cout << "ok\n";
            }
            else if (op == "setbounds")
            {
                size_t i = 1;
                auto path = needPath(t, i);
                unsigned n = vp::needN(t, i);
                std::vector<double> lo(n), hi(n);
                for (auto &x : lo)
                    x = vp::needF(t, i);
                for (auto &x : hi)
                    x = vp::needF(t, i);
                if (i != t.size())
                    throw vp::ParseError("trailing");
                ob::StateSpace *node = navigate(H, path);
                if (auto r = dynamic_cast<ob::RealVectorStateSpace *>(node))
                {
                    if (r->getDimension() != n)
                        throw vp::ParseError("dim");
                    ob::RealVectorBounds b(n);
                    b.low = lo;
                    b.high = hi;
                    r->setBounds(b);
                }
                else if (auto tm = dynamic_cast<ob::TimeStateSpace *>(node))
                {
                    if (n != 1)
                        throw vp::ParseError("dim");
                    tm->setBounds(lo[0], hi[0]);
                }
                else if (auto dc = dynamic_cast<ob::DiscreteStateSpace *>(node))
                {
                    if (n != 1)
                        throw vp::ParseError("dim");
                    dc->setBounds((int)lo[0], (int)hi[0]);
                }
                else if (auto s2 = dynamic_cast<ob::SE2StateSpace *>(node))
                {
                    // SE2StateSpace::setBounds / SE3StateSpace::setBounds: the classes' own forwarders
                    if (n != 2)
                        throw vp::ParseError("dim");
                    ob::RealVectorBounds b(2);
                    b.low = lo;
                    b.high = hi;
                    s2->setBounds(b);
                }
                else if (auto s3 = dynamic_cast<ob::SE3StateSpace *>(node))
                {
                    if (n != 3)
                        throw vp::ParseError("dim");
                    ob::RealVectorBounds b(3);
                    b.low = lo;
                    b.high = hi;
                    s3->setBounds(b);
                }
                else
                    throw vp::ParseError("setbounds on a space without bounds");
                std::cout << "ok\n";
            }
            else if (op == "adddim")
            {
                // RealVectorStateSpace::addDimension(minBound, maxBound) on the R^n node at the path
                size_t i = 1;
                auto path = needPath(t, i);
                double lo = vp::needF(t, i), hi = vp::needF(t, i);
                if (i != t.size())
                    throw vp::ParseError("trailing");
                auto r = dynamic_cast<ob::RealVectorStateSpace *>(navigate(H, path));
                if (!r)
                    throw vp::ParseError("adddim");
                r->addDimension(lo, hi);
                std::cout << "ok\n";
            }
            else if (op == "weights")
            {
                // getSubspaceWeight(i) for every i, and by name, of the compound at the path
                size_t i = 1;
                auto path = needPath(t, i);
                if (i != t.size())
                    throw vp::ParseError("trailing");
                auto c = dynamic_cast<ob::CompoundStateSpace *>(navigate(H, path));
                if (!c || dynamic_cast<ob::WrapperStateSpace *>(c))
                    throw vp::ParseError("weights");
                std::string out = "w " + std::to_string(c->getSubspaceCount());
                for (unsigned j = 0; j < c->getSubspaceCount(); ++j)
                {
                    double w = c->getSubspaceWeight(j);
                    double wn = c->getSubspaceWeight(c->getSubspace(j)->getName());
                    if (vp::bits(w) != vp::bits(wn) || vp::bits(w) != vp::bits(c->getSubspaceWeights()[j]))
                        out += " MISMATCH";
                    out += " " + vp::bits(w);
                }
                std::cout << out << "\n";
            }
            else if (op == "setweight" || op == "setweightn")
            {
                size_t i = 1;
                auto path = needPath(t, i);
                unsigned idx = vp::needN(t, i);
                double w = vp::needF(t, i);
                if (i != t.size())
                    throw vp::ParseError("trailing");
                auto c = dynamic_cast<ob::CompoundStateSpace *>(navigate(H, path));
                if (!c || dynamic_cast<ob::WrapperStateSpace *>(c) || idx >= c->getSubspaceCount())
                    throw vp::ParseError("setweight");
                if (op == "setweight")
                    c->setSubspaceWeight(idx, w);
                else
                    c->setSubspaceWeight(c->getSubspace(idx)->getName(), w);
                std::cout << "ok\n";
            }
            else if (op == "extent" && t.size() == 1)
                std::cout << "ext " << vp::bits(sp->getMaximumExtent()) << "\n";
            else if (op == "claims" && t.size() == 1)
                std::cout << "claims metric=" << (sp->isMetricSpace() ? 1 : 0) << " symdist=" << (sp->hasSymmetricDistance() ? 1 : 0)
                          << " syminterp=" << (sp->hasSymmetricInterpolate() ? 1 : 0) << " discrete=" << (sp->isDiscrete() ? 1 : 0)
                          << "\n";
            else
                std::cout << "bad-op\n";
        }
        catch (const vp::ParseError &)
        {
            std::cout << "bad-op\n";
        }
        catch (const ompl::Exception &)
        {
            std::cout << "bad-op\n";
        }
    }
    return 0;
}
