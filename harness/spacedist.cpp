// C06 harness: drives the real distance / equalStates / satisfiesBounds / getMaximumExtent and the
// claim predicates (isMetricSpace, hasSymmetricDistance, hasSymmetricInterpolate, isDiscrete) of the
// state spaces built from /repo's current tree (links libompl).
//
//   header : spacedist [space]
//   ops    : space <space>            -> ok            (re-declares the current space)
//            dist <stateA> <stateB>   -> d <bits>
//            equal <stateA> <stateB>  -> eq 0|1
//            inbounds <state>         -> in 0|1
//            extent                   -> ext <bits>
//            claims                   -> claims metric=b symdist=b syminterp=b discrete=b
//
// space grammar: harness/common/spaces.h plus (implementation-only, no Lean model)
//            dubins <rho> <sym:0|1> <lo>*2 <hi>*2 | reedsshepp <rho> <lo>*2 <hi>*2
// whose states are `x y theta` (they are SE(2) compounds).
#include "common/spaces.h"
#include <ompl/base/spaces/DubinsStateSpace.h>
#include <ompl/base/spaces/ReedsSheppStateSpace.h>
#include <ompl/util/Console.h>
#include <ompl/util/Exception.h>

namespace ob = ompl::base;

static ob::StateSpacePtr parseSpaceExt(const std::vector<std::string> &t, size_t &i)
{
    if (i < t.size() && (t[i] == "dubins" || t[i] == "reedsshepp"))
    {
        bool dub = t[i] == "dubins";
        ++i;
        double rho = vp::needF(t, i);
        bool sym = false;
        if (dub)
            sym = vp::needN(t, i) != 0;
        ob::RealVectorBounds b(2);
        for (unsigned j = 0; j < 2; ++j)
            b.low[j] = vp::needF(t, i);
        for (unsigned j = 0; j < 2; ++j)
            b.high[j] = vp::needF(t, i);
        if (dub)
        {
            auto s = std::make_shared<ob::DubinsStateSpace>(rho, sym);
            s->setBounds(b);
            return s;
        }
        auto s = std::make_shared<ob::ReedsSheppStateSpace>(rho);
        s->setBounds(b);
        return s;
    }
    return vp::parseSpace(t, i);
}

struct Scoped
{
    ob::StateSpacePtr sp;
    ob::State *s;
    explicit Scoped(const ob::StateSpacePtr &p) : sp(p), s(p->allocState())
    {
    }
    ~Scoped()
    {
        sp->freeState(s);
    }
};

int main()
{
    ompl::msg::setLogLevel(ompl::msg::LOG_NONE);
    std::string line;
    if (!vp::readLine(line))
        return 2;
    auto hdr = vp::tokens(line);
    ob::StateSpacePtr sp;
    if (hdr.empty() || hdr[0] != "spacedist")
    {
        std::cout << "bad-header\n";
        return 2;
    }
    if (hdr.size() > 1)
    {
        try
        {
            size_t i = 1;
            sp = parseSpaceExt(hdr, i);
            if (i != hdr.size())
                throw vp::ParseError("trailing");
        }
        catch (const std::exception &)
        {
            std::cout << "bad-header\n";
            return 2;
        }
    }
    while (vp::readLine(line))
    {
        auto t = vp::tokens(line);
        if (t.empty())
            continue;
        const std::string &op = t[0];
        try
        {
            if (op == "space")
            {
                size_t i = 1;
                auto nsp = parseSpaceExt(t, i);
                if (i != t.size())
                    throw vp::ParseError("trailing");
                sp = nsp;
                std::cout << "ok\n";
            }
            else if (!sp)
                std::cout << "bad-op\n";
            else if (op == "dist" || op == "equal")
            {
                Scoped a(sp), b(sp);
                size_t i = 1;
                vp::parseStateInto(sp.get(), a.s, t, i);
                vp::parseStateInto(sp.get(), b.s, t, i);
                if (i != t.size())
                    throw vp::ParseError("trailing");
                if (op == "dist")
                    std::cout << "d " << vp::bits(sp->distance(a.s, b.s)) << "\n";
                else
                    std::cout << "eq " << (sp->equalStates(a.s, b.s) ? 1 : 0) << "\n";
            }
            else if (op == "inbounds")
            {
                Scoped a(sp);
                size_t i = 1;
                vp::parseStateInto(sp.get(), a.s, t, i);
                if (i != t.size())
                    throw vp::ParseError("trailing");
                std::cout << "in " << (sp->satisfiesBounds(a.s) ? 1 : 0) << "\n";
            }
            else if (op == "extent" && t.size() == 1)
                std::cout << "ext " << vp::bits(sp->getMaximumExtent()) << "\n";
            else if (op == "claims" && t.size() == 1)
                std::cout << "claims metric=" << (sp->isMetricSpace() ? 1 : 0) << " symdist=" << (sp->hasSymmetricDistance() ? 1 : 0)
                          << " syminterp=" << (sp->hasSymmetricInterpolate() ? 1 : 0) << " discrete=" << (sp->isDiscrete() ? 1 : 0)
                          << "\n";
            else
                std::cout << "bad-op\n";
        }
        catch (const vp::ParseError &)
        {
            std::cout << "bad-op\n";
        }
        catch (const ompl::Exception &)
        {
            std::cout << "bad-op\n";
        }
    }
    return 0;
}
