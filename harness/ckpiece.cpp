// C13 harness for the copy of the Discretization code inside ompl::control::KPIECE1 (KPIECE1.h: CellData, TreeData,
// OrderCellsByImportance, computeImportance; KPIECE1.cpp: addMotion, selectMotion, clear), an anchored file the geometric
// Discretization engine does not reach: coverage counts motion->steps (0 for start motions), the initial score uses
// DISTANCE_TO_GOAL_OFFSET = 1e-3, the default border fraction is 0.8 and its setter has no range check.  Line protocol of
// lean/OmplModel/Driver/Discretization.lean with header `disc dim=<d> variant=control` and `addw` instead of `add`.
// `protected` is opened for KPIECE1.h in this translation unit only (addMotion, selectMotion, tree_, rng_).
#include "common/proto.h"
#include <Eigen/Core>
#include <algorithm>
#include <map>
#include <memory>
#include <vector>
#include "ompl/base/Planner.h"
#include "ompl/base/spaces/RealVectorStateSpace.h"
#include "ompl/base/spaces/RealVectorStateProjections.h"
#include "ompl/control/SpaceInformation.h"
#include "ompl/control/spaces/RealVectorControlSpace.h"
#include "ompl/util/Console.h"
#include "ompl/util/RandomNumbers.h"
#define private public
#define protected public
#include "ompl/datastructures/BinaryHeap.h"
#include "ompl/datastructures/GridB.h"
#include "ompl/control/planners/kpiece/KPIECE1.h"
#undef private
#undef protected

namespace ob = ompl::base;
namespace oc = ompl::control;
using K = oc::KPIECE1;
using Cell = K::Grid::Cell;

static std::map<const void *, long> cellId, motionId;
static long nextCell = 0;

static std::string joinC(const std::vector<std::string> &v)
{
    if (v.empty())
        return "-";
    std::string s;
    for (size_t i = 0; i < v.size(); ++i)
        s += (i ? "," : "") + v[i];
    return s;
}

static std::string dump(K &p, unsigned dim)
{
    auto &g = p.tree_.grid;
    std::vector<Cell *> cells;
    g.getCells(cells);
    std::sort(cells.begin(), cells.end(), [](Cell *a, Cell *b) { return cellId.at(a) < cellId.at(b); });
    std::string s = "size=" + std::to_string(p.tree_.size) + " iter=" + std::to_string(p.tree_.iteration) +
                    " bf=" + vp::bits(p.selectBorderFraction_) + " tbl=" + std::to_string(g.size());
    s += " | n=" + std::to_string(g.size());
    for (Cell *c : cells)
    {
        std::vector<std::string> xs, ms;
        for (unsigned i = 0; i < dim; ++i)
            xs.push_back(std::to_string(c->coord[i]));
        for (auto *m : c->data->motions)
            ms.push_back(std::to_string(motionId.at(m)));
        s += " " + std::to_string(cellId.at(c)) + ":" + joinC(xs) + ":" + std::to_string(c->neighbors) + ":" + (c->border ? "1" : "0") +
             ":" + joinC(ms) + ":" + vp::bits(c->data->coverage) + ":" + std::to_string(c->data->selections) + ":" +
             vp::bits(c->data->score) + ":" + std::to_string(c->data->iteration) + ":" + vp::bits(c->data->importance);
    }
    std::vector<std::string> hi, he;
    for (auto *e : g.internal_.vector_)
        hi.push_back(std::to_string(cellId.at(static_cast<Cell *>(e->data))));
    for (auto *e : g.external_.vector_)
        he.push_back(std::to_string(cellId.at(static_cast<Cell *>(e->data))));
    s += " | I=" + joinC(hi) + " E=" + joinC(he);
    return s;
}

int main()
{
    ompl::msg::setLogLevel(ompl::msg::LOG_NONE);
    std::string line;
    if (!vp::readLine(line))
        return 2;
    auto h = vp::tokens(line);
    unsigned dim = 0;
    bool ok = h.size() == 3 && h[0] == "disc" && h[1].compare(0, 4, "dim=") == 0 && vp::parseNat(h[1].substr(4)) &&
              h[2] == "variant=control";
    if (ok)
    {
        dim = (unsigned)*vp::parseNat(h[1].substr(4));
        ok = dim >= 1 && dim <= 8;
    }
    if (!ok)
    {
        std::cout << "bad-header\n";
        return 2;
    }
    auto space = std::make_shared<ob::RealVectorStateSpace>(dim);
    ob::RealVectorBounds b(dim);
    b.setLow(-1000.0);
    b.setHigh(1000.0);
    space->setBounds(b);
    auto cspace = std::make_shared<oc::RealVectorControlSpace>(space, 1);
    ob::RealVectorBounds cb(1);
    cb.setLow(-1.0);
    cb.setHigh(1.0);
    cspace->setBounds(cb);
    auto si = std::make_shared<oc::SpaceInformation>(space, cspace);
    si->setStatePropagator([](const ob::State *, const oc::Control *, double, ob::State *) {});
    si->setStateValidityChecker([](const ob::State *) { return true; });
    si->setup();
    {
        K planner(si);
        // cell size 1 in every dimension: the projection coordinate of a state is floor(value)
        std::vector<unsigned int> comps;
        for (unsigned i = 0; i < dim; ++i)
            comps.push_back(i);
        planner.setProjectionEvaluator(std::make_shared<ob::RealVectorOrthogonalProjectionEvaluator>(
            space.get(), std::vector<double>(dim, 1.0), comps));
        planner.setup();
        std::vector<K::Motion *> motions;
        auto fin = [&](const std::string &res) { std::cout << res << " | " << dump(planner, dim) << std::endl; };
        while (vp::readLine(line))
        {
            auto t = vp::tokens(line);
            if (t.empty())
                continue;
            const std::string &op = t[0];
            if (op == "addw")
            {
                bool good = t.size() == dim + 4 && vp::parseInt(t[1]) && vp::parseNat(t[2]) && vp::parseBits(t.back());
                std::vector<long long> x;
                for (unsigned i = 0; good && i < dim; ++i)
                {
                    auto v = vp::parseInt(t[3 + i]);
                    if (!v || *v < -900 || *v > 900) good = false; else x.push_back(*v);
                }
                if (good && (*vp::parseInt(t[1]) < -1 || *vp::parseInt(t[1]) >= (long long)motions.size())) good = false;
                if (!good) { std::cout << "bad-op\n"; continue; }
                auto *m = new K::Motion(si.get());
                for (unsigned i = 0; i < dim; ++i)
                    m->state->as<ob::RealVectorStateSpace::StateType>()->values[i] = (double)x[i] + 0.5;
                si->nullControl(m->control);
                m->steps = (unsigned)*vp::parseNat(t[2]);
                m->parent = *vp::parseInt(t[1]) < 0 ? nullptr : motions[*vp::parseInt(t[1])];
                motionId[m] = (long)motions.size();
                motions.push_back(m);
                unsigned before = planner.tree_.grid.size();
                Cell *c = planner.addMotion(m, *vp::parseBits(t.back()));
                bool created = planner.tree_.grid.size() != before;
                if (created)
                    cellId[c] = nextCell++;
                fin("m=" + std::to_string(motionId.at(m)) + " created=" + (created ? "1" : "0"));
            }
            else if (op == "sel" && t.size() == 2 && vp::parseNat(t[1]))
            {
                if (planner.tree_.size == 0) { fin("none"); continue; }
                planner.rng_.setLocalSeed((std::uint_fast32_t)*vp::parseNat(t[1]));
                K::Motion *m = nullptr;
                Cell *c = nullptr;
                bool r = planner.selectMotion(m, c);
                if (!r) { fin("no-motion"); continue; }
                std::vector<std::string> xs;
                for (unsigned k = 0; k < dim; ++k)
                    xs.push_back(std::to_string(c->coord[k]));
                fin("m=" + std::to_string(motionId.at(m)) + " x=" + joinC(xs));
            }
            else if (op == "score" && t.size() == dim + 2 && vp::parseBits(t.back()))
            {
                K::Grid::Coord x(dim);
                bool good = true;
                for (unsigned i = 0; i < dim; ++i)
                {
                    auto v = vp::parseInt(t[1 + i]);
                    if (!v) good = false; else x[i] = (int)*v;
                }
                if (!good) { std::cout << "bad-op\n"; continue; }
                Cell *c = planner.tree_.grid.getCell(x);
                if (!c) { fin("absent"); continue; }
                c->data->score = *vp::parseBits(t.back());
                planner.tree_.grid.update(c);
                fin("ok");
            }
            else if (op == "iter" && t.size() == 1)
            {
                planner.tree_.iteration++;
                fin("ok");
            }
            else if (op == "bf" && t.size() == 2 && vp::parseBits(t[1]))
            {
                planner.setBorderFraction(*vp::parseBits(t[1]));
                fin("ok");
            }
            else if (op == "clear" && t.size() == 1)
            {
                planner.clear();      // frees the motions of the grid
                cellId.clear();
                fin("ok");
            }
            else
                std::cout << "bad-op\n";
        }
    }
    return 0;
}
