// C02 harness: drives the real ompl::control code (SpaceInformation::propagate / propagateWhileValid,
// PathControl::check / interpolate, control::RRT in lock-step, and all eight control planners)
// through the line protocol.  Header line: `control`.
//
//   SYS   ::= point <lo*2> <hi*2> <clo*2> <chi*2> <dt> <min> <max>      state (x,y)         control (vx,vy)
//           | uni   <lo*2> <hi*2> <clo*2> <chi*2> <dt> <min> <max>      state (x,y,yaw) SE2 control (v,omega)
//           | car   <lo*2> <hi*2> <clo*2> <chi*2> <dt> <min> <max>      state (x,y,yaw) SE2 control (v,steer)
//           | dint  <lo*4> <hi*4> <clo*2> <chi*2> <dt> <min> <max>      state (x,y,vx,vy)   control (ax,ay)
//           | ode   <lo*2> <hi*2> <clo*2> <chi*2> <dt> <min> <max>      the unicycle through ODEBasicSolver (RK4, 4 sub-steps);
//                                                                        harness + Python oracle only (no Lean twin)
//           | dpoint <lo*2> <hi*2> <clo*2> <chi*2> <dt> <min> <max>     state (x,y); DiscreteControlSpace [clo[0], chi[0]] (integers;
//                                                                        clo[1] = chi[1] = 0), control (value, 0): one of eight headings
//   GOAL  ::= goal (pos | pred | l1) <reals> <thr>     pos: sampleable region, L2 position distance; pred: plain ob::Goal
//                                                    predicate (no distance); l1: ob::GoalRegion with |dx|+|dy| (not sampleable)
//   ENV   ::= boxes 2 <k> (<lo*2> <hi*2>)*k                             (planning.h)
//   VAL   ::= v s <n> <b>*n      scripted by isValid call number (calls beyond n answer 1)
//           | v e ENV            satisfiesBounds && outside every box
//   FORM  ::= single | alias | vec 1 | vec 0 <presize>
//
//   pwv  SYS FORM <steps:int> VAL st <reals> ct <reals>      propagateWhileValid
//   prop SYS FORM <steps:int> st <reals> ct <reals>          propagate
//   pcheck  SYS ENV <n> (<reals>)*n (<ctl>)*(n-1) (<dur>)*(n-1)     PathControl::check
//   pinterp SYS ENV <n> …same…                                      PathControl::interpolate
//   pgeom   SYS ENV <n> …same…                                      PathControl::asGeometric
//   stepcount <h> <k>                                               duration fl(k*h) -> steps, through interpolate()/check()
//   rrt  SYS ENV starts <n> (<reals>)*n goal <reals> <thr> k=<n> inter=<0|1> bias=<bits> seed=<n> iters=<n>
//        -> two lines: the result, and the `rrtplay …` line (recorded draws) for the Lean driver
//   sst  SYS ENV starts <n> (<reals>)*n GOAL sel=<bits> prune=<bits> bias=<bits> seed=<n> iters=<n>
//        -> two lines: the result (with tree + witnesses), and the `sstplay …` line for the Lean driver
//   est  SYS ENV starts <n> (<reals>)*n GOAL cell=<bits> k=<n> att=<n> bias=<bits> seed=<n> iters=<n>   -> result + `estplay …`
//   kpiece SYS ENV starts <n> (<reals>)*n GOAL cell=<bits> nclose=<n> bias=<bits> seed=<n> iters=<n>   -> result + `kpieceplay …`
//   pdst SYS ENV starts <n> (<reals>)*n GOAL k=<n> bias=<bits> seed=<n> iters=<n> [resume=<n> clearsol=<0|1>]   -> result(s) + `pdstplay …`
//   hist <planner> SYS ENV starts <n> (<reals>)*n GOAL k=<n> bias=<bits> seed=<n> [steer=<0|1>] [nest=<n>] [fvs=<n>] ops
//        (solve <budget> | clear | clearsol | cb <lo0> <lo1> <hi0> <hi1> | mm <min> <max> | dt <bits> | setup)*      (see opHist)
//   sampler (real <dim> <lo*dim> <hi*dim> | disc <lo> <hi>) lseed=<n> ops (B <bounds> | S | N | K <a> <b> | R <lseed>)*
//   dsampler SYS ENV k=<n> lseed=<n> [steer=<0|1>] ops (B <lo0> <lo1> <hi0> <hi1> | M <min> <max> | D <dt> | R <lseed> | T <src> <dest>)*
//   nest SYS ENV hook=<v|p> at=<k> CALL CALL      CALL ::= (pwv | prop) FORM <steps> st <reals> ct <reals>           (see opNest)
//   plan <planner> SYS ENV starts <n> (<reals>)*n GOAL k=<n> steer=<0|1> bias=<bits> seed=<n> budget=<n> [fvs=<n>]
//
// doubles are decimal u64 bit patterns.  The three systems are written here once (SysPropagator) and
// once in Lean (Driver/Control.lean) with the same operation order.
#include "common/planning.h"
#include <ompl/control/SpaceInformation.h>
#include <ompl/control/StatePropagator.h>
#include <ompl/control/PathControl.h>
#include <ompl/control/ControlSampler.h>
#include <ompl/control/SimpleDirectedControlSampler.h>
#include <ompl/control/ODESolver.h>
#include <ompl/control/spaces/RealVectorControlSpace.h>
#include <ompl/control/spaces/DiscreteControlSpace.h>
#include <ompl/control/SteeredControlSampler.h>
#include <ompl/control/planners/rrt/RRT.h>
#include <ompl/control/planners/sst/SST.h>
#include <ompl/control/planners/est/EST.h>
#include <ompl/control/planners/kpiece/KPIECE1.h>
#include <ompl/control/planners/pdst/PDST.h>
#include <ompl/control/planners/syclop/SyclopRRT.h>
#include <ompl/control/planners/syclop/SyclopEST.h>
#include <ompl/control/planners/syclop/GridDecomposition.h>
#include <ompl/base/goals/GoalSampleableRegion.h>
#include <ompl/base/goals/GoalRegion.h>
#include <ompl/base/ProjectionEvaluator.h>
#include <ompl/base/samplers/UniformValidStateSampler.h>
#include <ompl/datastructures/NearestNeighborsLinear.h>
#include <ompl/util/RandomNumbers.h>
#include <map>
#include <functional>
#include <algorithm>

namespace oc = ompl::control;
namespace og = ompl::geometric;
namespace ob = ompl::base;
using Toks = std::vector<std::string>;

// ------------------------------------------------------------------------------------------ systems
// the control-space kind of the line being executed (set by Sys::parse; one Sys per line): controls cross the protocol as two
// doubles; a discrete control is (value, 0)
static bool g_disc = false;
static inline void ctlGet(const oc::Control *c, double &a, double &b)
{
    if (g_disc)
    {
        a = c->as<oc::DiscreteControlSpace::ControlType>()->value;
        b = 0.0;
    }
    else
    {
        const double *u = c->as<oc::RealVectorControlSpace::ControlType>()->values;
        a = u[0];
        b = u[1];
    }
}
static inline void ctlSet(oc::Control *c, double a, double b)
{
    if (g_disc)
        c->as<oc::DiscreteControlSpace::ControlType>()->value = (int)a;
    else
    {
        double *u = c->as<oc::RealVectorControlSpace::ControlType>()->values;
        u[0] = a;
        u[1] = b;
    }
}
// `dpoint`: eight headings (dyadic speeds so that C++, Lean and Python agree bit for bit), a TOTAL function of the control value
static const double DPX[8] = {1, 0, -1, 0, 0.75, -0.75, -0.75, 0.75};
static const double DPY[8] = {0, 1, 0, -1, 0.75, 0.75, -0.75, -0.75};

struct Sys
{
    std::string kind;
    unsigned nb = 0;  // number of bounded reals
    std::vector<double> lo, hi, clo, chi;
    double dt = 0;
    unsigned minSteps = 0, maxSteps = 0;
    ob::StateSpacePtr space;
    std::shared_ptr<oc::RealVectorControlSpace> cspace;   // null for the discrete kind
    std::shared_ptr<oc::DiscreteControlSpace> dspace;     // `dpoint`: control = one int in [clo[0], chi[0]] (clo[1] = chi[1] = 0)
    bool disc = false;

    unsigned nreals() const
    {
        return (kind == "uni" || kind == "car" || kind == "ode") ? 3 : nb;
    }
    oc::ControlSpacePtr anyspace() const
    {
        return disc ? oc::ControlSpacePtr(dspace) : oc::ControlSpacePtr(cspace);
    }
    // the control space's CURRENT bounds as (lo0, lo1, hi0, hi1)
    void setCBounds(double l0, double l1, double h0, double h1) const
    {
        if (disc)
            dspace->setBounds((int)l0, (int)h0);
        else
        {
            ob::RealVectorBounds cb(2);
            cb.low = {l0, l1};
            cb.high = {h0, h1};
            cspace->setBounds(cb);
        }
    }

    void parse(const Toks &t, size_t &i)
    {
        if (i >= t.size())
            throw vp::ParseError("sys");
        kind = t[i++];
        disc = kind == "dpoint";
        g_disc = disc;
        if (kind == "point" || kind == "uni" || kind == "car" || kind == "ode" || kind == "dpoint")
            nb = 2;
        else if (kind == "dint")
            nb = 4;
        else
            throw vp::ParseError("sys kind");
        for (unsigned j = 0; j < nb; ++j)
            lo.push_back(vp::needF(t, i));
        for (unsigned j = 0; j < nb; ++j)
            hi.push_back(vp::needF(t, i));
        for (unsigned j = 0; j < 2; ++j)
            clo.push_back(vp::needF(t, i));
        for (unsigned j = 0; j < 2; ++j)
            chi.push_back(vp::needF(t, i));
        dt = vp::needF(t, i);
        minSteps = vp::needN(t, i);
        maxSteps = vp::needN(t, i);
        for (unsigned j = 0; j < nb; ++j)
            if (!(lo[j] < hi[j]))
                throw vp::ParseError("bounds");
        // degenerate control bounds (low == high) are legal (RealVectorBounds::check only rejects low > high)
        for (unsigned j = 0; j < 2; ++j)
            if (!(clo[j] <= chi[j]))
                throw vp::ParseError("cbounds");
        // min = max = 0 is legal: control::SpaceInformation::setup() then assumes [1, 10]
        if (!(dt > 1e-9) || (minSteps < 1 && !(minSteps == 0 && maxSteps == 0)) || minSteps > maxSteps || maxSteps > 1000)
            throw vp::ParseError("durations");
        ob::RealVectorBounds b(nb);
        b.low = lo;
        b.high = hi;
        if (kind == "uni" || kind == "car" || kind == "ode")
        {
            auto s = std::make_shared<ob::SE2StateSpace>();
            s->setBounds(b);
            space = s;
        }
        else
        {
            auto s = std::make_shared<ob::RealVectorStateSpace>(nb);
            s->setBounds(b);
            space = s;
        }
        if (disc)
        {
            if (clo[0] != std::floor(clo[0]) || chi[0] != std::floor(chi[0]) || fabs(clo[0]) > 1e6 || fabs(chi[0]) > 1e6 || clo[1] != 0 ||
                chi[1] != 0)
                throw vp::ParseError("discrete bounds");
            dspace = std::make_shared<oc::DiscreteControlSpace>(space, (int)clo[0], (int)chi[0]);
            return;
        }
        cspace = std::make_shared<oc::RealVectorControlSpace>(space, 2);
        ob::RealVectorBounds cb(2);
        cb.low = clo;
        cb.high = chi;
        cspace->setBounds(cb);
    }
};

// the user's propagator: one Euler step of length `duration` (negative for backward propagation)
class SysPropagator : public oc::StatePropagator
{
public:
    SysPropagator(oc::SpaceInformation *si, std::string kind) : oc::StatePropagator(si), kind_(std::move(kind))
    {
    }
    void propagate(const ob::State *state, const oc::Control *control, double duration, ob::State *result) const override
    {
        ++calls;
        if (hook)
            hook();
        double u0, u1;
        ctlGet(control, u0, u1);
        if (kind_ == "dpoint")
        {
            const int k = ((((int)u0) % 8) + 8) % 8;
            const double *s = state->as<ob::RealVectorStateSpace::StateType>()->values;
            const double x = s[0], y = s[1];
            double *r = result->as<ob::RealVectorStateSpace::StateType>()->values;
            r[0] = x + DPX[k] * duration;
            r[1] = y + DPY[k] * duration;
        }
        else if (kind_ == "point")
        {
            const double *s = state->as<ob::RealVectorStateSpace::StateType>()->values;
            const double x = s[0], y = s[1];
            double *r = result->as<ob::RealVectorStateSpace::StateType>()->values;
            r[0] = x + u0 * duration;
            r[1] = y + u1 * duration;
        }
        else if (kind_ == "uni")
        {
            const auto *s = state->as<ob::SE2StateSpace::StateType>();
            const double x = s->getX(), y = s->getY(), yaw = s->getYaw();
            auto *r = result->as<ob::SE2StateSpace::StateType>();
            r->setX(x + u0 * cos(yaw) * duration);
            r->setY(y + u0 * sin(yaw) * duration);
            r->setYaw(yaw + u1 * duration);
            // bounded heading: the library's own SO2 wrap after every step
            si_->getStateSpace()->as<ob::SE2StateSpace>()->getSubspace(1)->enforceBounds(
                r->as<ob::SO2StateSpace::StateType>(1));
        }
        else if (kind_ == "car")
        {
            // kinematic car, wheel base 1, ONE explicit Euler step per call: propagate(s,u,k*dt) != k x propagate(s,u,dt)
            const auto *s = state->as<ob::SE2StateSpace::StateType>();
            const double x = s->getX(), y = s->getY(), yaw = s->getYaw();
            auto *r = result->as<ob::SE2StateSpace::StateType>();
            r->setX(x + u0 * cos(yaw) * duration);
            r->setY(y + u0 * sin(yaw) * duration);
            r->setYaw(yaw + u0 * (sin(u1) / cos(u1)) * duration);
            si_->getStateSpace()->as<ob::SE2StateSpace>()->getSubspace(1)->enforceBounds(
                r->as<ob::SO2StateSpace::StateType>(1));
        }
        else
        {
            const double *s = state->as<ob::RealVectorStateSpace::StateType>()->values;
            const double x = s[0], y = s[1], vx = s[2], vy = s[3];
            double *r = result->as<ob::RealVectorStateSpace::StateType>()->values;
            r[0] = x + vx * duration;
            r[1] = y + vy * duration;
            r[2] = vx + u0 * duration;
            r[3] = vy + u1 * duration;
        }
    }
    mutable unsigned long calls = 0;
    std::function<void()> hook;   // re-entrancy tests: called at the head of every propagator call

    // optional steering function of the first-order point (drives SteeredControlSampler through
    // allocDirectedControlSampler): the straight-line control at the largest admissible speed (control bounds [-1,1])
    bool steerable = false;
    bool canSteer() const override
    {
        return steerable && kind_ == "point";
    }
    bool steer(const ob::State *from, const ob::State *to, oc::Control *result, double &duration) const override
    {
        if (!canSteer())
            return false;
        const double *a = from->as<ob::RealVectorStateSpace::StateType>()->values;
        const double *b = to->as<ob::RealVectorStateSpace::StateType>()->values;
        const double dx = b[0] - a[0], dy = b[1] - a[1];
        const double L = std::max(fabs(dx), fabs(dy));
        if (!(L > 0))
            return false;
        duration = L;
        double *u = result->as<oc::RealVectorControlSpace::ControlType>()->values;
        u[0] = dx / L;
        u[1] = dy / L;
        return true;
    }

private:
    std::string kind_;
};

// ------------------------------------------------------------------------------------------ validity
class EnvValidity : public ob::StateValidityChecker
{
public:
    EnvValidity(const ob::SpaceInformationPtr &si, vp::Env env) : ob::StateValidityChecker(si), env_(std::move(env))
    {
    }
    bool isValid(const ob::State *s) const override
    {
        ++calls;
        std::vector<double> r;
        si_->getStateSpace()->copyToReals(r, s);
        return si_->satisfiesBounds(s) && !env_.collides(r);
    }
    mutable unsigned long calls = 0;

private:
    vp::Env env_;
};

class ScriptedValidity : public ob::StateValidityChecker
{
public:
    ScriptedValidity(const ob::SpaceInformationPtr &si, std::vector<int> a) : ob::StateValidityChecker(si), ans_(std::move(a))
    {
    }
    bool isValid(const ob::State *) const override
    {
        unsigned long c = calls++;
        return c < ans_.size() ? ans_[c] != 0 : true;
    }
    mutable unsigned long calls = 0;

private:
    std::vector<int> ans_;
};

// ------------------------------------------------------------------------------------------ goal
struct Events
{
    std::string log;  // " G" | " U <reals>" | " C <reals>" | " K <n>"
};

class PosGoal : public ob::GoalSampleableRegion
{
public:
    PosGoal(const ob::SpaceInformationPtr &si, std::vector<double> g, double thr, Events *ev)
      : ob::GoalSampleableRegion(si), g_(std::move(g)), ev_(ev)
    {
        setThreshold(thr);
    }
    double distanceGoal(const ob::State *st) const override
    {
        std::vector<double> r;
        si_->getStateSpace()->copyToReals(r, st);
        const double dx = r[0] - g_[0], dy = r[1] - g_[1];
        return sqrt(dx * dx + dy * dy);
    }
    void sampleGoal(ob::State *st) const override
    {
        si_->getStateSpace()->copyFromReals(st, g_);
        if (ev_)
            ev_->log += " G";
    }
    unsigned int maxSampleCount() const override
    {
        return 1;
    }

private:
    std::vector<double> g_;
    Events *ev_;
};

// a plain predicate goal: Goal::isSatisfied(st, &d) leaves d at numeric_limits<double>::max()
class PredGoal : public ob::Goal
{
public:
    PredGoal(const ob::SpaceInformationPtr &si, std::vector<double> g, double thr) : ob::Goal(si), g_(std::move(g)), thr_(thr)
    {
    }
    bool isSatisfied(const ob::State *st) const override
    {
        std::vector<double> r;
        si_->getStateSpace()->copyToReals(r, st);
        const double dx = r[0] - g_[0], dy = r[1] - g_[1];
        return sqrt(dx * dx + dy * dy) < thr_;
    }

private:
    std::vector<double> g_;
    double thr_;
};

// a (non-sampleable) goal region whose distance is not the state-space distance: L1 over the position
class L1Goal : public ob::GoalRegion
{
public:
    L1Goal(const ob::SpaceInformationPtr &si, std::vector<double> g, double thr) : ob::GoalRegion(si), g_(std::move(g))
    {
        setThreshold(thr);
    }
    double distanceGoal(const ob::State *st) const override
    {
        std::vector<double> r;
        si_->getStateSpace()->copyToReals(r, st);
        return fabs(r[0] - g_[0]) + fabs(r[1] - g_[1]);
    }

private:
    std::vector<double> g_;
};

// a goal region with an extra condition: satisfied only if ALSO the speed (double integrator: |(vx,vy)|) is small, while the
// reported distance is the position distance alone — a non-satisfying state can be closer than a satisfying one
class PosVGoal : public ob::GoalRegion
{
public:
    PosVGoal(const ob::SpaceInformationPtr &si, std::vector<double> g, double thr) : ob::GoalRegion(si), g_(std::move(g))
    {
        setThreshold(thr);
    }
    double distanceGoal(const ob::State *st) const override
    {
        std::vector<double> r;
        si_->getStateSpace()->copyToReals(r, st);
        const double dx = r[0] - g_[0], dy = r[1] - g_[1];
        return sqrt(dx * dx + dy * dy);
    }
    bool isSatisfied(const ob::State *st) const override
    {
        return isSatisfied(st, nullptr);
    }
    bool isSatisfied(const ob::State *st, double *distance) const override
    {
        std::vector<double> r;
        si_->getStateSpace()->copyToReals(r, st);
        const double d = distanceGoal(st);
        if (distance != nullptr)
            *distance = d;
        const double speed = r.size() >= 4 ? sqrt(r[2] * r[2] + r[3] * r[3]) : 0.0;
        return d < threshold_ && speed < 0.75;
    }

private:
    std::vector<double> g_;
};

static ob::GoalPtr makeGoal(const std::string &kind, const ob::SpaceInformationPtr &si, const std::vector<double> &g, double thr,
                            Events *ev)
{
    if (kind == "pos")
        return std::make_shared<PosGoal>(si, g, thr, ev);
    if (kind == "pred")
        return std::make_shared<PredGoal>(si, g, thr);
    if (kind == "posv")
        return std::make_shared<PosVGoal>(si, g, thr);
    return std::make_shared<L1Goal>(si, g, thr);
}

// ------------------------------------------------------------------------------------------ recorders
class RecStateSampler : public ob::StateSampler
{
public:
    RecStateSampler(const ob::StateSpace *sp, ob::StateSamplerPtr inner, Events *ev)
      : ob::StateSampler(sp), inner_(std::move(inner)), ev_(ev)
    {
    }
    void sampleUniform(ob::State *s) override
    {
        inner_->sampleUniform(s);
        std::vector<double> r;
        space_->copyToReals(r, s);
        ev_->log += " U " + vp::showReals(r);
    }
    void sampleUniformNear(ob::State *s, const ob::State *n, double d) override
    {
        inner_->sampleUniformNear(s, n, d);
    }
    void sampleGaussian(ob::State *s, const ob::State *m, double d) override
    {
        inner_->sampleGaussian(s, m, d);
    }

private:
    ob::StateSamplerPtr inner_;
    Events *ev_;
};

class RecControlSampler : public oc::ControlSampler
{
public:
    RecControlSampler(const oc::ControlSpace *cs, oc::ControlSamplerPtr inner, Events *ev)
      : oc::ControlSampler(cs), inner_(std::move(inner)), ev_(ev)
    {
    }
    void sample(oc::Control *c) override
    {
        inner_->sample(c);
        const double *u = c->as<oc::RealVectorControlSpace::ControlType>()->values;
        ev_->log += " C " + vp::bits(u[0]) + " " + vp::bits(u[1]);
    }
    unsigned int sampleStepCount(unsigned int a, unsigned int b) override
    {
        unsigned int k = inner_->sampleStepCount(a, b);
        ev_->log += " K " + std::to_string(k);
        return k;
    }

private:
    oc::ControlSamplerPtr inner_;
    Events *ev_;
};



// records the outcome of the valid-state sampler (control::EST: sampler_->sampleNear)
class RecValidSampler : public ob::ValidStateSampler
{
public:
    RecValidSampler(const ob::SpaceInformation *si, Events *ev, unsigned attempts = 100)
      : ob::ValidStateSampler(si), inner_(std::make_shared<ob::UniformValidStateSampler>(si)), ev_(ev)
    {
        inner_->setNrAttempts(attempts);
    }
    bool sample(ob::State *s) override
    {
        return note(inner_->sample(s), s);
    }
    bool sampleNear(ob::State *s, const ob::State *near, double d) override
    {
        return note(inner_->sampleNear(s, near, d), s);
    }

private:
    bool note(bool ok, const ob::State *s)
    {
        if (ok)
        {
            std::vector<double> r;
            si_->getStateSpace()->copyToReals(r, s);
            ev_->log += " N " + vp::showReals(r);
        }
        else
            ev_->log += " X";
        return ok;
    }
    std::shared_ptr<ob::UniformValidStateSampler> inner_;
    Events *ev_;
};

// ------------------------------------------------------------------------------------------ scripted samplers (rrtplay)
struct DrawScript
{
    std::vector<std::vector<double>> samples;   // one per iteration (the goal state for a `G` draw)
    std::vector<std::vector<double>> controls;  // in call order
    std::vector<unsigned> counts;               // in call order
    size_t si = 0, ci = 0, ki = 0;
    bool exhausted = false;
};

class ScriptStateSampler : public ob::StateSampler
{
public:
    ScriptStateSampler(const ob::StateSpace *sp, DrawScript *d) : ob::StateSampler(sp), d_(d)
    {
    }
    void sampleUniform(ob::State *s) override
    {
        if (d_->si >= d_->samples.size())
        {
            d_->exhausted = true;
            return;
        }
        space_->copyFromReals(s, d_->samples[d_->si++]);
    }
    void sampleUniformNear(ob::State *s, const ob::State *, double) override
    {
        sampleUniform(s);
    }
    void sampleGaussian(ob::State *s, const ob::State *, double) override
    {
        sampleUniform(s);
    }

private:
    DrawScript *d_;
};

class ScriptControlSampler : public oc::ControlSampler
{
public:
    ScriptControlSampler(const oc::ControlSpace *cs, DrawScript *d) : oc::ControlSampler(cs), d_(d)
    {
    }
    void sample(oc::Control *c) override
    {
        double *u = c->as<oc::RealVectorControlSpace::ControlType>()->values;
        if (d_->ci >= d_->controls.size())
        {
            d_->exhausted = true;
            u[0] = u[1] = 0;
            return;
        }
        u[0] = d_->controls[d_->ci][0];
        u[1] = d_->controls[d_->ci][1];
        ++d_->ci;
    }
    unsigned int sampleStepCount(unsigned int, unsigned int) override
    {
        if (d_->ki >= d_->counts.size())
        {
            d_->exhausted = true;
            return 0;
        }
        return d_->counts[d_->ki++];
    }

private:
    DrawScript *d_;
};

// ------------------------------------------------------------------------------------------ projection / decomposition
class XYProjection : public ob::ProjectionEvaluator
{
public:
    XYProjection(const ob::StateSpacePtr &sp, const Sys &sys, double cell = 1.0) : ob::ProjectionEvaluator(sp), cell_(cell)
    {
        ob::RealVectorBounds b(2);
        for (unsigned j = 0; j < 2; ++j)
        {
            b.low[j] = sys.lo[j];
            b.high[j] = sys.hi[j];
        }
        setBounds(b);
    }
    unsigned int getDimension() const override
    {
        return 2;
    }
    void defaultCellSizes() override
    {
        cellSizes_.assign(2, cell_);
    }
    double cell_;
    void project(const ob::State *s, Eigen::Ref<Eigen::VectorXd> p) const override
    {
        std::vector<double> r;
        space_->copyToReals(r, s);
        p[0] = r[0];
        p[1] = r[1];
    }
};

class XYDecomposition : public oc::GridDecomposition
{
public:
    XYDecomposition(int len, const ob::RealVectorBounds &b, ob::StateSpacePtr sp)
      : oc::GridDecomposition(len, 2, b), sp_(std::move(sp))
    {
    }
    void project(const ob::State *s, std::vector<double> &coord) const override
    {
        std::vector<double> r;
        sp_->copyToReals(r, s);
        coord.assign({r[0], r[1]});
    }
    void sampleFullState(const ob::StateSamplerPtr &sampler, const std::vector<double> &coord, ob::State *s) const override
    {
        sampler->sampleUniform(s);
        std::vector<double> r;
        sp_->copyToReals(r, s);
        r[0] = coord[0];
        r[1] = coord[1];
        sp_->copyFromReals(s, r);
    }

private:
    ob::StateSpacePtr sp_;
};

// ------------------------------------------------------------------------------------------ helpers
static std::vector<double> needReals(const Toks &t, size_t &i, unsigned n)
{
    std::vector<double> r;
    for (unsigned j = 0; j < n; ++j)
        r.push_back(vp::needF(t, i));
    return r;
}
static void expect(const Toks &t, size_t &i, const std::string &w)
{
    if (i >= t.size() || t[i] != w)
        throw vp::ParseError("expected " + w);
    ++i;
}
static unsigned long long needKV(const Toks &t, size_t &i, const std::string &key)
{
    if (i >= t.size() || t[i].rfind(key + "=", 0) != 0)
        throw vp::ParseError("expected " + key);
    auto v = vp::parseNat(t[i].substr(key.size() + 1));
    if (!v)
        throw vp::ParseError(key);
    ++i;
    return *v;
}
static std::string showSt(const Sys &sys, const ob::State *s)
{
    return vp::showReals(vp::realsOf(sys.space, s));
}
static std::string showCt(const oc::Control *c)
{
    double a, b;
    ctlGet(c, a, b);
    return vp::bits(a) + " " + vp::bits(b);
}

static std::shared_ptr<oc::SpaceInformation> makeSI(const Sys &sys, std::shared_ptr<SysPropagator> &prop)
{
    auto si = std::make_shared<oc::SpaceInformation>(sys.space, sys.anyspace());
    prop = std::make_shared<SysPropagator>(si.get(), sys.kind);
    if (sys.kind == "ode")
    {
        // the unicycle through the library's ODE machinery: ODEBasicSolver (boost odeint runge_kutta4, integrate_const with
        // integration step = propagation step / 4) behind ODESolver::getStatePropagator, SO(2) wrap as post-propagation event
        auto ode = [](const oc::ODESolver::StateType &q, const oc::Control *c, oc::ODESolver::StateType &qdot) {
            const double *u = c->as<oc::RealVectorControlSpace::ControlType>()->values;
            qdot.resize(q.size(), 0);
            qdot[0] = u[0] * cos(q[2]);
            qdot[1] = u[0] * sin(q[2]);
            qdot[2] = u[1];
        };
        auto solver = std::make_shared<oc::ODEBasicSolver<>>(si, ode, sys.dt / 4.0);
        auto post = [si](const ob::State *, const oc::Control *, const double, ob::State *result) {
            si->getStateSpace()->as<ob::SE2StateSpace>()->getSubspace(1)->enforceBounds(
                result->as<ob::SE2StateSpace::StateType>()->as<ob::SO2StateSpace::StateType>(1));
        };
        si->setStatePropagator(oc::ODESolver::getStatePropagator(solver, post));
    }
    else
        si->setStatePropagator(prop);
    si->setPropagationStepSize(sys.dt);
    si->setMinMaxControlDuration(sys.minSteps, sys.maxSteps);
    return si;
}

struct Form
{
    std::string kind;  // single | alias | vec
    bool alloc = false;
    unsigned presize = 0;
    void parse(const Toks &t, size_t &i)
    {
        if (i >= t.size())
            throw vp::ParseError("form");
        kind = t[i++];
        if (kind == "vec")
        {
            alloc = vp::needN(t, i) != 0;
            if (!alloc)
            {
                presize = vp::needN(t, i);
                if (presize > 4096)
                    throw vp::ParseError("presize");
            }
        }
        else if (kind != "single" && kind != "alias")
            throw vp::ParseError("form kind");
    }
};

static std::string showVec(const Sys &sys, const std::vector<ob::State *> &v)
{
    std::string s = "vec=" + std::to_string(v.size());
    for (auto *p : v)
        s += " [" + (p ? showSt(sys, p) : std::string("null")) + "]";
    return s;
}

// pre-sized vectors hold recognisable sentinel states: every real = 777 + slot index
static void presizeVec(const Sys &sys, const oc::SpaceInformation &si, std::vector<ob::State *> &v, unsigned n)
{
    for (unsigned j = 0; j < n; ++j)
    {
        ob::State *s = si.allocState();
        std::vector<double> r(sys.nreals(), 777.0 + j);
        sys.space->copyFromReals(s, r);
        v.push_back(s);
    }
}

// ------------------------------------------------------------------------------------------ pwv / prop
static std::string opPwv(const Toks &t, bool whileValid)
{
    size_t i = 1;
    Sys sys;
    sys.parse(t, i);
    Form f;
    f.parse(t, i);
    long long steps = vp::needI(t, i);
    if (steps > 100000 || steps < -100000)
        throw vp::ParseError("steps");
    std::shared_ptr<SysPropagator> prop;
    auto si = makeSI(sys, prop);
    ScriptedValidity *sv = nullptr;
    EnvValidity *evv = nullptr;
    if (whileValid)
    {
        expect(t, i, "v");
        if (i >= t.size())
            throw vp::ParseError("val");
        std::string vk = t[i++];
        if (vk == "s")
        {
            unsigned n = vp::needN(t, i);
            std::vector<int> a;
            for (unsigned j = 0; j < n; ++j)
                a.push_back(vp::needN(t, i) != 0);
            auto p = std::make_shared<ScriptedValidity>(si, a);
            sv = p.get();
            si->setStateValidityChecker(p);
        }
        else if (vk == "e")
        {
            vp::Env env;
            env.parse(t, i);
            if (env.pdim != 2)
                throw vp::ParseError("pdim");
            auto p = std::make_shared<EnvValidity>(si, env);
            evv = p.get();
            si->setStateValidityChecker(p);
        }
        else
            throw vp::ParseError("val kind");
    }
    else
        si->setStateValidityChecker(std::make_shared<ScriptedValidity>(si, std::vector<int>()));
    expect(t, i, "st");
    auto st = needReals(t, i, sys.nreals());
    expect(t, i, "ct");
    auto ct = needReals(t, i, 2);
    if (i != t.size())
        throw vp::ParseError("trailing");
    si->setup();
    if (sv)
        sv->calls = 0;
    if (evv)
        evv->calls = 0;
    ob::State *state = si->allocState();
    sys.space->copyFromReals(state, st);
    oc::Control *ctl = si->allocControl();
    ctlSet(ctl, ct[0], ct[1]);
    prop->calls = 0;
    std::string out;
    unsigned r = 0;
    if (f.kind == "single" || f.kind == "alias")
    {
        ob::State *result = f.kind == "alias" ? state : si->allocState();
        if (f.kind == "single")
        {
            // recognisable initial content of the result buffer
            std::vector<double> z(sys.nreals(), 555.0);
            sys.space->copyFromReals(result, z);
        }
        if (whileValid)
            r = si->propagateWhileValid(state, ctl, (int)steps, result);
        else
            si->propagate(state, ctl, (int)steps, result);
        out = (whileValid ? "r=" + std::to_string(r) + " " : std::string()) + "res=" + showSt(sys, result) + " vec=-";
        if (result != state)
            si->freeState(result);
    }
    else
    {
        std::vector<ob::State *> v;
        if (!f.alloc)
            presizeVec(sys, *si, v, f.presize);
        if (whileValid)
            r = si->propagateWhileValid(state, ctl, (int)steps, v, f.alloc);
        else
            si->propagate(state, ctl, (int)steps, v, f.alloc);
        out = (whileValid ? "r=" + std::to_string(r) + " " : std::string()) + "res=- " + showVec(sys, v);
        for (auto *p : v)
            if (p)
                si->freeState(p);
    }
    unsigned long vcalls = sv ? sv->calls : (evv ? evv->calls : 0);
    out += " | calls=" + std::to_string(vcalls) + " props=" + std::to_string(prop->calls);
    si->freeState(state);
    si->freeControl(ctl);
    return out;
}

// ------------------------------------------------------------------------------------------ path check / interpolate
static std::string showPath(const Sys &sys, const oc::PathControl &p)
{
    std::string s = "n=" + std::to_string(p.getStateCount()) + " nc=" + std::to_string(p.getControlCount()) + " S";
    for (size_t j = 0; j < p.getStateCount(); ++j)
        s += " " + showSt(sys, p.getState(j));
    s += " C";
    for (size_t j = 0; j < p.getControlCount(); ++j)
        s += " " + showCt(p.getControl(j));
    s += " D";
    for (size_t j = 0; j < p.getControlCount(); ++j)
        s += " " + vp::bits(p.getControlDuration(j));
    return s;
}

static std::string opPath(const Toks &t, int mode)  // 0 check, 1 interpolate, 2 asGeometric
{
    size_t i = 1;
    Sys sys;
    sys.parse(t, i);
    vp::Env env;
    env.parse(t, i);
    if (env.pdim != 2)
        throw vp::ParseError("pdim");
    unsigned n = vp::needN(t, i);
    if (n < 1 || n > 5000)
        throw vp::ParseError("n");
    std::vector<std::vector<double>> S, C;
    std::vector<double> D;
    for (unsigned j = 0; j < n; ++j)
        S.push_back(needReals(t, i, sys.nreals()));
    for (unsigned j = 0; j + 1 < n; ++j)
        C.push_back(needReals(t, i, 2));
    for (unsigned j = 0; j + 1 < n; ++j)
        D.push_back(vp::needF(t, i));
    if (i != t.size())
        throw vp::ParseError("trailing");
    for (double d : D)
        if (!(d >= 0) || d / sys.dt > 10000)
            throw vp::ParseError("duration");
    std::shared_ptr<SysPropagator> prop;
    auto si = makeSI(sys, prop);
    si->setStateValidityChecker(std::make_shared<EnvValidity>(si, env));
    si->setup();
    oc::PathControl p(si);
    ob::State *s = si->allocState();
    oc::Control *c = si->allocControl();
    for (unsigned j = 0; j < n; ++j)
    {
        sys.space->copyFromReals(s, S[j]);
        if (j == 0)
            p.append(s);
        else
        {
            // append(state, control, duration): the control/duration that led to this state
            ctlSet(c, C[j - 1][0], C[j - 1][1]);
            p.append(s, c, D[j - 1]);
        }
    }
    si->freeState(s);
    si->freeControl(c);
    if (mode == 0)
        return std::string("check=") + (p.check() ? "1" : "0");
    if (mode == 2)
    {
        og::PathGeometric pg = p.asGeometric();
        std::string o = "geom n=" + std::to_string(pg.getStateCount());
        for (size_t j = 0; j < pg.getStateCount(); ++j)
            o += " " + showSt(sys, pg.getState(j));
        return o;
    }
    p.interpolate();
    return showPath(sys, p);
}

// `stepcount <h:bits> <k>`: the duration -> step-count conversion of PathControl, observed through the library itself:
// a two-state path of the point system (zero control) with duration fl(k*h), interpolate(), count the controls
// (max(1, steps)).  `trunc` is what a truncating conversion static_cast<int>(d/h) would give (computed here).
static std::string opStepCount(const Toks &t)
{
    size_t i = 1;
    double h = vp::needF(t, i);
    unsigned k = vp::needN(t, i);
    if (i != t.size() || !(h > 1e-9) || !(h < 1e6) || k > 100000)
        throw vp::ParseError("stepcount");
    Sys sys;
    Toks st = {"point", vp::bits(0.0), vp::bits(0.0), vp::bits(10.0), vp::bits(10.0), vp::bits(-1.0), vp::bits(-1.0),
               vp::bits(1.0), vp::bits(1.0), vp::bits(h), "1", "1000"};
    size_t j = 0;
    sys.parse(st, j);
    std::shared_ptr<SysPropagator> prop;
    auto si = makeSI(sys, prop);
    si->setStateValidityChecker(std::make_shared<ScriptedValidity>(si, std::vector<int>()));
    si->setup();
    const double d = k * h;   // as the planners write it: unsigned * double
    oc::PathControl p(si);
    ob::State *s = si->allocState();
    oc::Control *c = si->allocControl();
    sys.space->copyFromReals(s, {1.0, 1.0});
    c->as<oc::RealVectorControlSpace::ControlType>()->values[0] = 0.0;
    c->as<oc::RealVectorControlSpace::ControlType>()->values[1] = 0.0;
    p.append(s);
    p.append(s, c, d);
    si->freeState(s);
    si->freeControl(c);
    const bool chk = p.check();
    p.interpolate();
    return "steps=" + std::to_string(p.getControlCount()) + " check=" + (chk ? "1" : "0") + " d=" + vp::bits(d) + " trunc=" +
           std::to_string(static_cast<int>(d / h));
}

// `pmisc SYS ENV seed=<n> attempts=<n> <n> states controls durations`: the remaining PathControl methods on one path —
// length(), copy constructor, operator=, print() (its per-control step counts), printAsMatrix() (row count),
// random(), randomValid(attempts).  Oracle-only (checks/c02.py); one per process (global RNG seed).
static std::string opPmisc(const Toks &t)
{
    size_t i = 1;
    Sys sys;
    sys.parse(t, i);
    vp::Env env;
    env.parse(t, i);
    if (env.pdim != 2)
        throw vp::ParseError("pdim");
    unsigned long seed = needKV(t, i, "seed");
    unsigned attempts = needKV(t, i, "attempts");
    unsigned n = vp::needN(t, i);
    if (n < 1 || n > 5000 || attempts > 10000)
        throw vp::ParseError("n");
    std::vector<std::vector<double>> S, C;
    std::vector<double> D;
    for (unsigned j = 0; j < n; ++j)
        S.push_back(needReals(t, i, sys.nreals()));
    for (unsigned j = 0; j + 1 < n; ++j)
        C.push_back(needReals(t, i, 2));
    for (unsigned j = 0; j + 1 < n; ++j)
        D.push_back(vp::needF(t, i));
    if (i != t.size())
        throw vp::ParseError("trailing");
    ompl::RNG::setSeed(seed + 1);
    std::shared_ptr<SysPropagator> prop;
    auto si = makeSI(sys, prop);
    si->setStateValidityChecker(std::make_shared<EnvValidity>(si, env));
    si->setup();
    oc::PathControl p(si);
    ob::State *s = si->allocState();
    oc::Control *c = si->allocControl();
    for (unsigned j = 0; j < n; ++j)
    {
        sys.space->copyFromReals(s, S[j]);
        if (j == 0)
            p.append(s);
        else
        {
            ctlSet(c, C[j - 1][0], C[j - 1][1]);
            p.append(s, c, D[j - 1]);
        }
    }
    si->freeState(s);
    si->freeControl(c);
    std::string out = "len=" + vp::bits(p.length());
    oc::PathControl q(p);
    out += std::string(" copyeq=") + (showPath(sys, q) == showPath(sys, p) ? "1" : "0");
    oc::PathControl r(si);
    r.random();
    r = q;
    out += std::string(" assigneq=") + (showPath(sys, r) == showPath(sys, p) ? "1" : "0");
    std::ostringstream os;
    p.print(os);
    out += " print=";
    {
        std::string txt = os.str();
        size_t pos = 0;
        bool first = true;
        while ((pos = txt.find("  for ", pos)) != std::string::npos)
        {
            pos += 6;
            size_t e = txt.find(" steps", pos);
            out += (first ? "" : ",") + txt.substr(pos, e - pos);
            first = false;
        }
        if (first)
            out += "-";
    }
    std::ostringstream om;
    p.printAsMatrix(om);
    {
        std::string txt = om.str();
        out += " matrix_rows=" + std::to_string(std::count(txt.begin(), txt.end(), '\n'));
    }
    oc::PathControl rnd(si);
    rnd.random();
    out += " rnd " + showPath(sys, rnd);
    oc::PathControl rv(si);
    bool ok = rv.randomValid(attempts);
    out += std::string(" rv=") + (ok ? "1 " + showPath(sys, rv) : "0");
    return out;
}

// ------------------------------------------------------------------------------------------ planners
struct Problem
{
    Sys sys;
    vp::Env env;
    std::vector<std::vector<double>> starts;
    std::vector<double> goal;
    std::string goalKind;
    double thr = 0;
    void parse(const Toks &t, size_t &i)
    {
        sys.parse(t, i);
        env.parse(t, i);
        if (env.pdim != 2)
            throw vp::ParseError("pdim");
        expect(t, i, "starts");
        unsigned ns = vp::needN(t, i);
        if (ns < 1 || ns > 16)
            throw vp::ParseError("starts");
        for (unsigned j = 0; j < ns; ++j)
            starts.push_back(needReals(t, i, sys.nreals()));
        expect(t, i, "goal");
        if (i >= t.size() || (t[i] != "pos" && t[i] != "pred" && t[i] != "l1" && t[i] != "posv"))
            throw vp::ParseError("goal kind");
        goalKind = t[i++];
        goal = needReals(t, i, sys.nreals());
        thr = vp::needF(t, i);
    }
};

static double needKVbits(const Toks &t, size_t &i, const std::string &key)
{
    if (i >= t.size() || t[i].rfind(key + "=", 0) != 0)
        throw vp::ParseError("expected " + key);
    auto v = vp::parseBits(t[i].substr(key.size() + 1));
    if (!v)
        throw vp::ParseError(key);
    ++i;
    return *v;
}

// control::RRT with its tree readable (Motion and nn_ are protected)
class RRTx : public oc::RRT
{
public:
    using oc::RRT::RRT;
    std::string dumpTree(const Sys &sys) const
    {
        std::vector<Motion *> ms;
        nn_->list(ms);
        std::map<const Motion *, size_t> idx;
        for (size_t j = 0; j < ms.size(); ++j)
            idx[ms[j]] = j;
        std::string s = "tree " + std::to_string(ms.size());
        for (auto *m : ms)
        {
            s += " [" + showSt(sys, m->state) + " ; " + showCt(m->control) + " ; " + std::to_string(m->steps) + " ; ";
            s += m->parent ? std::to_string(idx.at(m->parent)) : std::string("-");
            s += "]";
        }
        return s;
    }
};

static std::string sysBounds(const oc::SpaceInformation &si)
{
    if (g_disc)
    {
        const auto *ds = si.getControlSpace()->as<oc::DiscreteControlSpace>();
        return "cb " + vp::bits((double)ds->getLowerBound()) + " " + vp::bits(0.0) + " " + vp::bits((double)ds->getUpperBound()) + " " +
               vp::bits(0.0) + " dt=" + vp::bits(si.getPropagationStepSize()) + " min=" + std::to_string(si.getMinControlDuration()) +
               " max=" + std::to_string(si.getMaxControlDuration());
    }
    const auto &cb = si.getControlSpace()->as<oc::RealVectorControlSpace>()->getBounds();
    return "cb " + vp::bits(cb.low[0]) + " " + vp::bits(cb.low[1]) + " " + vp::bits(cb.high[0]) + " " +
           vp::bits(cb.high[1]) + " dt=" + vp::bits(si.getPropagationStepSize()) + " min=" +
           std::to_string(si.getMinControlDuration()) + " max=" + std::to_string(si.getMaxControlDuration());
}

static std::string showSolution(const Sys &sys, const ob::ProblemDefinitionPtr &pdef, const ob::PlannerStatus &st,
                                const oc::SpaceInformation &si)
{
    std::string out = std::string("status=") + vp::statusName(st);
    bool has = pdef->hasSolution();
    out += " has=" + std::to_string(has ? 1 : 0);
    out += " approx=" + std::to_string(has && pdef->hasApproximateSolution() ? 1 : 0);
    out += " dif=" + vp::bits(has ? pdef->getSolutionDifference() : -1.0);
    out += " " + sysBounds(si);
    if (has)
    {
        auto *p = dynamic_cast<oc::PathControl *>(pdef->getSolutionPath().get());
        if (!p)
            return out + " path=not-a-PathControl";
        out += std::string(" libcheck=") + (p->check() ? "1" : "0");
        // the goal's own verdict on the reported last state
        out += std::string(" insidegoal=") +
               (p->getStateCount() > 0 && pdef->getGoal()->isSatisfied(p->getState(p->getStateCount() - 1)) ? "1" : "0");
        out += " path " + showPath(sys, *p);
    }
    else
        out += " libcheck=- insidegoal=- path none";
    return out;
}

static std::string opRrt(const Toks &t, std::string &playLine)
{
    size_t i = 1;
    Problem pb;
    pb.parse(t, i);
    unsigned k = needKV(t, i, "k");
    unsigned inter = needKV(t, i, "inter");
    double bias = needKVbits(t, i, "bias");
    unsigned long seed = needKV(t, i, "seed");
    unsigned long iters = needKV(t, i, "iters");
    if (i != t.size() || k < 1 || k > 50 || iters > 2000000)
        throw vp::ParseError("rrt args");
    // header part of the play line: everything up to and including inter=
    playLine = "rrtplay";
    for (size_t j = 1; j < t.size(); ++j)
        if (t[j].rfind("k=", 0) != 0 && t[j].rfind("bias=", 0) != 0 && t[j].rfind("seed=", 0) != 0 &&
            t[j].rfind("iters=", 0) != 0)
            playLine += " " + t[j];
    ompl::RNG::setSeed(seed + 1);
    Events ev;
    const Sys &sys = pb.sys;
    std::shared_ptr<SysPropagator> prop;
    auto si = makeSI(sys, prop);
    si->setStateValidityChecker(std::make_shared<EnvValidity>(si, pb.env));
    sys.space->setStateSamplerAllocator([&ev](const ob::StateSpace *sp) {
        return std::make_shared<RecStateSampler>(sp, sp->allocDefaultStateSampler(), &ev);
    });
    if (sys.disc)
        throw vp::ParseError("real-vector controls only");
    sys.cspace->setControlSamplerAllocator([&ev](const oc::ControlSpace *cs) {
        return std::make_shared<RecControlSampler>(cs, cs->allocDefaultControlSampler(), &ev);
    });
    si->setDirectedControlSamplerAllocator(
        [k](const oc::SpaceInformation *s) { return std::make_shared<oc::SimpleDirectedControlSampler>(s, k); });
    si->setup();
    auto pdef = std::make_shared<ob::ProblemDefinition>(si);
    ob::State *s0 = si->allocState();
    for (const auto &st0 : pb.starts)
    {
        sys.space->copyFromReals(s0, st0);
        pdef->addStartState(s0);
    }
    si->freeState(s0);
    pdef->setGoal(makeGoal(pb.goalKind, si, pb.goal, pb.thr, &ev));
    auto planner = std::make_shared<RRTx>(si);
    planner->setNearestNeighbors<ompl::NearestNeighborsLinear>();
    planner->setGoalBias(bias);
    planner->setIntermediateStates(inter != 0);
    planner->setProblemDefinition(pdef);
    planner->setup();
    ev.log.clear();
    auto cnt = std::make_shared<vp::EvalCounter>();
    cnt->fireAt = iters;
    ob::PlannerStatus st = planner->solve(vp::evalCountPtc(cnt));
    std::string out = showSolution(sys, pdef, st, *si) + " | " + planner->dumpTree(sys);
    playLine += " draws" + ev.log;
    return out;
}


// `rrtplay SYS ENV starts … goal … thr inter=<b> draws (G | U <reals>) (C <ctl> | K <n>)* …` — the real control::RRT driven by
// scripted samplers (goal bias 0: a `G` draw hands the goal state to the scripted state sampler).  Same line as the Lean driver's.
static std::string opRrtPlay(const Toks &t)
{
    size_t i = 1;
    Problem pb;
    pb.parse(t, i);
    unsigned inter = needKV(t, i, "inter");
    expect(t, i, "draws");
    DrawScript ds;
    const Sys &sys = pb.sys;
    size_t k = 0;
    bool first = true;
    while (i < t.size())
    {
        if (t[i] == "G")
        {
            ++i;
            ds.samples.push_back(pb.goal);
        }
        else if (t[i] == "U")
        {
            ++i;
            ds.samples.push_back(needReals(t, i, sys.nreals()));
        }
        else
            throw vp::ParseError("draw");
        size_t nc = 0, nk = 0;
        while (i < t.size() && (t[i] == "C" || t[i] == "K"))
        {
            if (t[i++] == "C")
            {
                ds.controls.push_back(needReals(t, i, 2));
                ++nc;
            }
            else
            {
                unsigned long long n = vp::needN(t, i);
                if (n > 100000)
                    throw vp::ParseError("count");
                ds.counts.push_back((unsigned)n);
                ++nk;
            }
        }
        if (nc != nk || nc < 1 || (!first && nc != k))
            throw vp::ParseError("uniform k");
        k = nc;
        first = false;
    }
    if (k > 50)
        throw vp::ParseError("k");
    std::shared_ptr<SysPropagator> prop;
    auto si = makeSI(sys, prop);
    si->setStateValidityChecker(std::make_shared<EnvValidity>(si, pb.env));
    unsigned kk = k == 0 ? 1 : (unsigned)k;
    si->setDirectedControlSamplerAllocator(
        [kk](const oc::SpaceInformation *s) { return std::make_shared<oc::SimpleDirectedControlSampler>(s, kk); });
    si->setup();
    auto pdef = std::make_shared<ob::ProblemDefinition>(si);
    ob::State *s0 = si->allocState();
    for (const auto &st0 : pb.starts)
    {
        sys.space->copyFromReals(s0, st0);
        pdef->addStartState(s0);
    }
    si->freeState(s0);
    pdef->setGoal(makeGoal(pb.goalKind, si, pb.goal, pb.thr, nullptr));
    auto planner = std::make_shared<RRTx>(si);
    planner->setNearestNeighbors<ompl::NearestNeighborsLinear>();
    planner->setGoalBias(0.0);
    planner->setIntermediateStates(inter != 0);
    planner->setProblemDefinition(pdef);
    planner->setup();
    // installed only now: StateSpace::setup() of a RealVector space with more than two dimensions registers a random linear
    // default projection whose setup draws 100 uniform samples from the space's sampler to infer cell sizes
    sys.space->setStateSamplerAllocator([&ds](const ob::StateSpace *sp) { return std::make_shared<ScriptStateSampler>(sp, &ds); });
    if (sys.disc)
        throw vp::ParseError("real-vector controls only");
    sys.cspace->setControlSamplerAllocator(
        [&ds](const oc::ControlSpace *cs) { return std::make_shared<ScriptControlSampler>(cs, &ds); });
    auto cnt = std::make_shared<vp::EvalCounter>();
    cnt->fireAt = ds.samples.size();
    ob::PlannerStatus st = planner->solve(vp::evalCountPtc(cnt));
    if (ds.exhausted)
        return "script-exhausted samples=" + std::to_string(ds.si) + "/" + std::to_string(ds.samples.size()) + " controls=" +
               std::to_string(ds.ci) + "/" + std::to_string(ds.controls.size()) + " counts=" + std::to_string(ds.ki) + "/" +
               std::to_string(ds.counts.size()) + " evals=" + std::to_string(cnt->evals.load());
    return showSolution(sys, pdef, st, *si) + " | " + planner->dumpTree(sys);
}

// control::SST with its tree, witnesses and RNG reachable (all protected)
class SSTx : public oc::SST
{
public:
    using oc::SST::SST;
    void seedRng(std::uint_fast32_t s)
    {
        rng_.setLocalSeed(s);
    }
    std::string dump(const Sys &sys) const
    {
        std::vector<Motion *> ms, ws;
        nn_->list(ms);
        witnesses_->list(ws);
        std::map<const Motion *, size_t> idx;
        for (size_t j = 0; j < ms.size(); ++j)
            idx[ms[j]] = j;
        auto pos = [&](const Motion *m) {
            auto it = idx.find(m);
            return m == nullptr ? std::string("-") : (it == idx.end() ? std::string("x") : std::to_string(it->second));
        };
        std::string s = "tree " + std::to_string(ms.size());
        for (auto *m : ms)
            s += " [" + showSt(sys, m->state_) + " ; " + showCt(m->control_) + " ; " + std::to_string(m->steps_) + " ; " +
                 pos(m->parent_) + " ; " + vp::bits(m->accCost_.value()) + " ; " + std::to_string(m->numChildren_) + " ; " +
                 (m->inactive_ ? "1" : "0") + "]";
        s += " | wits " + std::to_string(ws.size());
        for (auto *w : ws)
            s += " [" + showSt(sys, w->state_) + " ; " + pos(static_cast<Witness *>(w)->rep_) + "]";
        return s;
    }
};

// `sst SYS ENV starts … GOAL sel=<bits> prune=<bits> bias=<bits> seed=<n> iters=<n>` -> the result line and the `sstplay …`
// line for the Lean driver.  State samples, goal samples and controls are recorded by the wrappers; the step counts come
// from the planner's own RNG (`rng_.uniformInt(min, max)`, not interceptable), so the planner's RNG is re-seeded with a known
// local seed; a twin RNG replays its calls (uniform01 for the goal bias when the goal is sampleable, then uniformInt) for the
// `K` events, and the Lean driver recomputes both the goal-bias outcome and the step count from the bit-exact RNG model
// (`lseed`, `bias` on the play line) and reports a desync if the recorded events differ.
static std::string opSst(const Toks &t, std::string &playLine)
{
    size_t i = 1;
    Problem pb;
    pb.parse(t, i);
    double sel = needKVbits(t, i, "sel");
    double prune = needKVbits(t, i, "prune");
    double bias = needKVbits(t, i, "bias");
    unsigned long seed = needKV(t, i, "seed");
    unsigned long iters = needKV(t, i, "iters");
    if (i != t.size() || iters > 2000000 || !(sel >= 0) || !(prune >= 0))
        throw vp::ParseError("sst args");
    playLine = "sstplay";
    for (size_t j = 1; j < t.size(); ++j)
        if (t[j].rfind("seed=", 0) != 0 && t[j].rfind("iters=", 0) != 0)
            playLine += " " + t[j];
    ompl::RNG::setSeed(seed + 1);
    Events ev;
    const Sys &sys = pb.sys;
    std::shared_ptr<SysPropagator> prop;
    auto si = makeSI(sys, prop);
    si->setStateValidityChecker(std::make_shared<EnvValidity>(si, pb.env));
    sys.space->setStateSamplerAllocator([&ev](const ob::StateSpace *sp) {
        return std::make_shared<RecStateSampler>(sp, sp->allocDefaultStateSampler(), &ev);
    });
    if (sys.disc)
        throw vp::ParseError("real-vector controls only");
    sys.cspace->setControlSamplerAllocator([&ev](const oc::ControlSpace *cs) {
        return std::make_shared<RecControlSampler>(cs, cs->allocDefaultControlSampler(), &ev);
    });
    si->setup();
    auto pdef = std::make_shared<ob::ProblemDefinition>(si);
    ob::State *s0 = si->allocState();
    for (const auto &st0 : pb.starts)
    {
        sys.space->copyFromReals(s0, st0);
        pdef->addStartState(s0);
    }
    si->freeState(s0);
    pdef->setGoal(makeGoal(pb.goalKind, si, pb.goal, pb.thr, &ev));
    auto planner = std::make_shared<SSTx>(si);
    planner->setProblemDefinition(pdef);
    planner->setNearestNeighbors<ompl::NearestNeighborsLinear>();
    planner->setGoalBias(bias);
    planner->setSelectionRadius(sel);
    planner->setPruningRadius(prune);
    planner->setup();
    const std::uint_fast32_t lseed = (std::uint_fast32_t)((seed * 7919u + 12345u) % 4000000000u + 1u);
    planner->seedRng(lseed);
    playLine += " lseed=" + std::to_string(lseed);
    ev.log.clear();
    auto cnt = std::make_shared<vp::EvalCounter>();
    cnt->fireAt = iters;
    ob::PlannerStatus st = planner->solve(vp::evalCountPtc(cnt));
    std::string out = showSolution(sys, pdef, st, *si) + " | " + planner->dump(sys);
    // weave the twin RNG's step counts into the event log: one `K` after every `C`
    ompl::RNG twin(lseed);
    const bool sampleable = pb.goalKind == "pos";
    std::string woven;
    auto toks = vp::tokens(ev.log);
    for (size_t j = 0; j < toks.size(); ++j)
    {
        woven += " " + toks[j];
        if (toks[j] == "C" && j + 2 < toks.size())
        {
            woven += " " + toks[j + 1] + " " + toks[j + 2];
            j += 2;
            if (sampleable)
                twin.uniform01();
            woven += " K " + std::to_string(twin.uniformInt(si->getMinControlDuration(), si->getMaxControlDuration()));
        }
    }
    playLine += " draws" + woven;
    return out;
}

// control::EST with its grid, PDF and RNG reachable (all protected)
class ESTx : public oc::EST
{
public:
    using oc::EST::EST;
    void seedRng(std::uint_fast32_t s)
    {
        rng_.setLocalSeed(s);
    }
    // cells in lexicographic coordinate order; motions in cell order; a parent is named by (cell coordinate, position)
    std::string dump(const Sys &sys) const
    {
        std::map<std::pair<int, int>, const GridCell *> cells;
        std::map<const Motion *, std::string> name;
        for (auto it = tree_.grid.begin(); it != tree_.grid.end(); ++it)
        {
            const GridCell *c = it->second;
            cells[{c->coord[0], c->coord[1]}] = c;
            for (size_t j = 0; j < c->data.motions_.size(); ++j)
                name[c->data.motions_[j]] =
                    std::to_string(c->coord[0]) + " " + std::to_string(c->coord[1]) + " " + std::to_string(j);
        }
        std::string s = "est size=" + std::to_string(tree_.size) + " cells=" + std::to_string(cells.size()) + " pdf=" +
                        std::to_string(pdf_.size());
        for (auto &kv : cells)
        {
            const GridCell *c = kv.second;
            s += " [" + std::to_string(kv.first.first) + " " + std::to_string(kv.first.second) + " ; " +
                 vp::bits(pdf_.getWeight(c->data.elem_)) + " ; " + std::to_string(c->data.motions_.size());
            for (const Motion *m : c->data.motions_)
                s += " {" + showSt(sys, m->state) + " ; " + showCt(m->control) + " ; " + std::to_string(m->steps) + " ; " +
                     (m->parent ? name.at(m->parent) : std::string("-")) + "}";
            s += "]";
        }
        return s;
    }
};

// `est SYS ENV starts … GOAL cell=<bits> k=<n> bias=<bits> seed=<n> iters=<n>` -> the result line and the `estplay …` line.
// The planner's own RNG (pdf sample, index inside the cell, goal bias) is re-seeded with a known local seed; the Lean model
// runs the bit-exact RNG model from the same seed.  Recorded: valid-state-sampler outcomes (N/X), goal samples (G), the
// control sampler's controls and step counts (C/K).
static std::string opEst(const Toks &t, std::string &playLine)
{
    size_t i = 1;
    Problem pb;
    pb.parse(t, i);
    double cell = needKVbits(t, i, "cell");
    unsigned k = needKV(t, i, "k");
    unsigned att = needKV(t, i, "att");
    double bias = needKVbits(t, i, "bias");
    unsigned long seed = needKV(t, i, "seed");
    unsigned long iters = needKV(t, i, "iters");
    if (i != t.size() || iters > 2000000 || !(cell > 1e-6) || k < 1 || k > 50 || !(bias >= 0) || !(bias <= 1) || att < 1 ||
        att > 1000)
        throw vp::ParseError("est args");
    const std::uint_fast32_t lseed = (std::uint_fast32_t)((seed * 7919u + 12345u) % 4000000000u + 1u);
    playLine = "estplay";
    for (size_t j = 1; j < t.size(); ++j)
        if (t[j].rfind("k=", 0) != 0 && t[j].rfind("att=", 0) != 0 && t[j].rfind("seed=", 0) != 0 && t[j].rfind("iters=", 0) != 0)
            playLine += " " + t[j];
    playLine += " lseed=" + std::to_string(lseed);
    ompl::RNG::setSeed(seed + 1);
    Events ev;
    const Sys &sys = pb.sys;
    std::shared_ptr<SysPropagator> prop;
    auto si = makeSI(sys, prop);
    si->setStateValidityChecker(std::make_shared<EnvValidity>(si, pb.env));
    si->setValidStateSamplerAllocator(
        [&ev, att](const ob::SpaceInformation *s) { return std::make_shared<RecValidSampler>(s, &ev, att); });
    if (sys.disc)
        throw vp::ParseError("real-vector controls only");
    sys.cspace->setControlSamplerAllocator([&ev](const oc::ControlSpace *cs) {
        return std::make_shared<RecControlSampler>(cs, cs->allocDefaultControlSampler(), &ev);
    });
    si->setDirectedControlSamplerAllocator(
        [k](const oc::SpaceInformation *s) { return std::make_shared<oc::SimpleDirectedControlSampler>(s, k); });
    si->setup();
    auto pdef = std::make_shared<ob::ProblemDefinition>(si);
    ob::State *s0 = si->allocState();
    for (const auto &st0 : pb.starts)
    {
        sys.space->copyFromReals(s0, st0);
        pdef->addStartState(s0);
    }
    si->freeState(s0);
    pdef->setGoal(makeGoal(pb.goalKind, si, pb.goal, pb.thr, &ev));
    auto planner = std::make_shared<ESTx>(si);
    planner->setProjectionEvaluator(std::make_shared<XYProjection>(sys.space, sys, cell));
    planner->setGoalBias(bias);
    planner->setProblemDefinition(pdef);
    planner->setup();
    planner->seedRng(lseed);
    ev.log.clear();
    auto cnt = std::make_shared<vp::EvalCounter>();
    cnt->fireAt = iters;
    ob::PlannerStatus st = planner->solve(vp::evalCountPtc(cnt));
    playLine += " draws" + ev.log;
    return showSolution(sys, pdef, st, *si) + " | " + planner->dump(sys);
}

// control::KPIECE1 with its grid and RNG reachable (all protected)
class KPIECEx : public oc::KPIECE1
{
public:
    using oc::KPIECE1::KPIECE1;
    void seedRng(std::uint_fast32_t s)
    {
        rng_.setLocalSeed(s);
    }
    std::string dump(const Sys &sys) const
    {
        Grid::CellArray arr;
        tree_.grid.getCells(arr);
        std::map<std::pair<int, int>, const Grid::Cell *> cells;
        std::map<const Motion *, std::string> name;
        for (const Grid::Cell *c : arr)
        {
            cells[{c->coord[0], c->coord[1]}] = c;
            for (size_t j = 0; j < c->data->motions.size(); ++j)
                name[c->data->motions[j]] =
                    std::to_string(c->coord[0]) + " " + std::to_string(c->coord[1]) + " " + std::to_string(j);
        }
        std::string s = "kpiece size=" + std::to_string(tree_.size) + " cells=" + std::to_string(cells.size()) +
                        " iteration=" + std::to_string(tree_.iteration) + " int=" + std::to_string(tree_.grid.countInternal()) +
                        " ext=" + std::to_string(tree_.grid.countExternal());
        for (auto &kv : cells)
        {
            const Grid::Cell *c = kv.second;
            const CellData &d = *c->data;
            s += " [" + std::to_string(kv.first.first) + " " + std::to_string(kv.first.second) + " ; " + vp::bits(d.coverage) +
                 " ; " + std::to_string(d.selections) + " ; " + vp::bits(d.score) + " ; " + std::to_string(d.iteration) + " ; " +
                 vp::bits(d.importance) + " ; " + std::to_string(c->neighbors) + " ; " + (c->border ? "1" : "0") + " ; " +
                 std::to_string(d.motions.size());
            for (const Motion *m : d.motions)
                s += " {" + showSt(sys, m->state) + " ; " + showCt(m->control) + " ; " + std::to_string(m->steps) + " ; " +
                     (m->parent ? name.at(m->parent) : std::string("-")) + "}";
            s += "]";
        }
        return s;
    }
};

// `kpiece SYS ENV starts … GOAL cell=<bits> nclose=<n> bias=<bits> seed=<n> iters=<n>` -> result + `kpieceplay …`.
// The planner's RNG (goal bias, border choice, half-normal pick, the 5% draw) is re-seeded with a known local seed and
// modelled bit-exactly on the Lean side; recorded: the control sampler's control (C) and step count (K) per iteration.
static std::string opKpiece(const Toks &t, std::string &playLine)
{
    size_t i = 1;
    Problem pb;
    pb.parse(t, i);
    double cell = needKVbits(t, i, "cell");
    unsigned nclose = needKV(t, i, "nclose");
    double bias = needKVbits(t, i, "bias");
    unsigned long seed = needKV(t, i, "seed");
    unsigned long iters = needKV(t, i, "iters");
    if (i != t.size() || iters > 2000000 || !(cell > 1e-6) || !(bias >= 0) || !(bias <= 1) || nclose > 1000)
        throw vp::ParseError("kpiece args");
    const std::uint_fast32_t lseed = (std::uint_fast32_t)((seed * 7919u + 12345u) % 4000000000u + 1u);
    ompl::RNG::setSeed(seed + 1);
    Events ev;
    const Sys &sys = pb.sys;
    std::shared_ptr<SysPropagator> prop;
    auto si = makeSI(sys, prop);
    si->setStateValidityChecker(std::make_shared<EnvValidity>(si, pb.env));
    if (sys.disc)
        throw vp::ParseError("real-vector controls only");
    sys.cspace->setControlSamplerAllocator([&ev](const oc::ControlSpace *cs) {
        return std::make_shared<RecControlSampler>(cs, cs->allocDefaultControlSampler(), &ev);
    });
    si->setup();
    auto pdef = std::make_shared<ob::ProblemDefinition>(si);
    ob::State *s0 = si->allocState();
    for (const auto &st0 : pb.starts)
    {
        sys.space->copyFromReals(s0, st0);
        pdef->addStartState(s0);
    }
    si->freeState(s0);
    pdef->setGoal(makeGoal(pb.goalKind, si, pb.goal, pb.thr, &ev));
    auto planner = std::make_shared<KPIECEx>(si);
    planner->setProjectionEvaluator(std::make_shared<XYProjection>(sys.space, sys, cell));
    planner->setGoalBias(bias);
    planner->setMaxCloseSamplesCount(nclose);
    planner->setProblemDefinition(pdef);
    planner->setup();
    planner->seedRng(lseed);
    playLine = "kpieceplay";
    for (size_t j = 1; j < t.size(); ++j)
        if (t[j].rfind("seed=", 0) != 0 && t[j].rfind("iters=", 0) != 0)
            playLine += " " + t[j];
    playLine += " bf=" + vp::bits(planner->getBorderFraction()) + " good=" + vp::bits(planner->getGoodCellScoreFactor()) +
                " bad=" + vp::bits(planner->getBadCellScoreFactor()) + " lseed=" + std::to_string(lseed);
    ev.log.clear();
    auto cnt = std::make_shared<vp::EvalCounter>();
    cnt->fireAt = iters;
    ob::PlannerStatus st = planner->solve(vp::evalCountPtc(cnt));
    playLine += " draws" + ev.log;
    return showSolution(sys, pdef, st, *si) + " | " + planner->dump(sys);
}

// control::PDST with its queue, BSP and RNG reachable (all protected)
class PDSTx : public oc::PDST
{
public:
    using oc::PDST::PDST;
    void seedRng(std::uint_fast32_t s)
    {
        rng_.setLocalSeed(s);
    }
    // motions in the order of the priority queue's array (the heap layout itself is compared)
    std::string dump(const Sys &sys) const
    {
        std::vector<Motion *> ms;
        priorityQueue_.getContent(ms);
        std::map<const Motion *, size_t> idx;
        for (size_t j = 0; j < ms.size(); ++j)
            idx[ms[j]] = j;
        std::string s = "pdst n=" + std::to_string(ms.size()) + " cells=" + std::to_string(bsp_ ? bsp_->size() : 0) +
                        " iteration=" + std::to_string(iteration_) + " last=" +
                        (lastGoalMotion_ ? std::to_string(idx.at(lastGoalMotion_)) : std::string("-"));
        for (const Motion *m : ms)
        {
            s += " [" + showSt(sys, m->startState_) + " ; " + showSt(sys, m->endState_) + " ; " +
                 (m->control_ ? showCt(m->control_) : std::string("-")) + " ; " + std::to_string(m->controlDuration_) + " ; " +
                 vp::bits(m->priority_) + " ; " + vp::bits(m->cell_->volume_) + " ; ";
            s += m->parent_ ? std::to_string(idx.at(m->parent_)) : std::string("-");
            s += std::string(" ; ") + (m->isSplit_ ? "1" : "0") + "]";
        }
        return s;
    }
};

// `pdst SYS ENV starts … GOAL k=<n> bias=<bits> seed=<n> iters=<n>` -> result + `pdstplay …`.  The planner's RNG (point
// inside the selected segment, goal bias) is the RNG model seeded with `lseed`; recorded: uniform state samples (U), goal
// samples (G), the control sampler's controls and step counts (C/K).
static std::string opPdst(const Toks &t, std::string &playLine)
{
    size_t i = 1;
    Problem pb;
    pb.parse(t, i);
    unsigned k = needKV(t, i, "k");
    double bias = needKVbits(t, i, "bias");
    unsigned long seed = needKV(t, i, "seed");
    unsigned long iters = needKV(t, i, "iters");
    // optional second solve() on the same planner object: `resume=<iters2> clearsol=<0|1>` (clearsol: the caller clears the
    // problem definition's solution paths in between)
    bool doResume = false;
    unsigned long iters2 = 0, clearsol = 0;
    if (i < t.size())
    {
        iters2 = needKV(t, i, "resume");
        clearsol = needKV(t, i, "clearsol");
        doResume = true;
    }
    if (i != t.size() || iters > 2000000 || iters2 > 2000000 || k < 1 || k > 50 || !(bias >= 0) || !(bias <= 1))
        throw vp::ParseError("pdst args");
    const std::uint_fast32_t lseed = (std::uint_fast32_t)((seed * 7919u + 12345u) % 4000000000u + 1u);
    playLine = "pdstplay";
    for (size_t j = 1; j < t.size(); ++j)
        if (t[j].rfind("k=", 0) != 0 && t[j].rfind("seed=", 0) != 0 && t[j].rfind("iters=", 0) != 0 && t[j].rfind("resume=", 0) != 0)
            playLine += " " + t[j];
    playLine += " lseed=" + std::to_string(lseed);
    ompl::RNG::setSeed(seed + 1);
    Events ev;
    const Sys &sys = pb.sys;
    std::shared_ptr<SysPropagator> prop;
    auto si = makeSI(sys, prop);
    si->setStateValidityChecker(std::make_shared<EnvValidity>(si, pb.env));
    if (sys.disc)
        throw vp::ParseError("real-vector controls only");
    sys.cspace->setControlSamplerAllocator([&ev](const oc::ControlSpace *cs) {
        return std::make_shared<RecControlSampler>(cs, cs->allocDefaultControlSampler(), &ev);
    });
    si->setDirectedControlSamplerAllocator(
        [k](const oc::SpaceInformation *s) { return std::make_shared<oc::SimpleDirectedControlSampler>(s, k); });
    si->setup();
    auto pdef = std::make_shared<ob::ProblemDefinition>(si);
    ob::State *s0 = si->allocState();
    for (const auto &st0 : pb.starts)
    {
        sys.space->copyFromReals(s0, st0);
        pdef->addStartState(s0);
    }
    si->freeState(s0);
    pdef->setGoal(makeGoal(pb.goalKind, si, pb.goal, pb.thr, &ev));
    auto planner = std::make_shared<PDSTx>(si);
    planner->setProjectionEvaluator(std::make_shared<XYProjection>(sys.space, sys, 1.0));
    planner->setGoalBias(bias);
    planner->setProblemDefinition(pdef);
    planner->setup();
    planner->seedRng(lseed);
    // installed after setup (see opRrtPlay): the recording state sampler
    sys.space->setStateSamplerAllocator([&ev](const ob::StateSpace *sp) {
        return std::make_shared<RecStateSampler>(sp, sp->allocDefaultStateSampler(), &ev);
    });
    ev.log.clear();
    auto cnt = std::make_shared<vp::EvalCounter>();
    cnt->fireAt = iters;
    ob::PlannerStatus st = planner->solve(vp::evalCountPtc(cnt));
    std::string out = showSolution(sys, pdef, st, *si) + " | " + planner->dump(sys);
    if (doResume)
    {
        ev.log += " S";
        if (clearsol)
            pdef->clearSolutionPaths();
        auto cnt2 = std::make_shared<vp::EvalCounter>();
        cnt2->fireAt = iters2;
        ob::PlannerStatus st2 = planner->solve(vp::evalCountPtc(cnt2));
        // with a cleared problem definition the whole solution is comparable; otherwise (it still holds the first path)
        // only the status, the solution count and the planner state
        out += " ### " + (clearsol ? showSolution(sys, pdef, st2, *si)
                                   : std::string("status=") + vp::statusName(st2) + " nsol=" + std::to_string(pdef->getSolutionCount())) +
               " | " + planner->dump(sys);
    }
    playLine += " draws" + ev.log;
    return out;
}

// Syclop's free-volume estimate (setup of the first solve): 0 = the library default (100000 sampled states, each validity-checked)
static unsigned long g_fvs = 0;
static ob::PlannerPtr makeControlPlanner(const std::string &name, const std::shared_ptr<oc::SpaceInformation> &si, const Sys &sys,
                                         double bias)
{
    auto proj = std::make_shared<XYProjection>(sys.space, sys);
    ob::PlannerPtr planner;
    if (name == "RRT" || name == "RRTi")
    {
        auto p = std::make_shared<oc::RRT>(si);
        p->setIntermediateStates(name == "RRTi");
        p->setGoalBias(bias);
        planner = p;
    }
    else if (name == "SST")
    {
        auto p = std::make_shared<oc::SST>(si);
        p->setGoalBias(bias);
        planner = p;
    }
    else if (name == "EST")
    {
        auto p = std::make_shared<oc::EST>(si);
        p->setGoalBias(bias);
        p->setProjectionEvaluator(proj);
        planner = p;
    }
    else if (name == "KPIECE1")
    {
        auto p = std::make_shared<oc::KPIECE1>(si);
        p->setGoalBias(bias);
        p->setProjectionEvaluator(proj);
        planner = p;
    }
    else if (name == "PDST")
    {
        auto p = std::make_shared<oc::PDST>(si);
        p->setGoalBias(bias);
        p->setProjectionEvaluator(proj);
        planner = p;
    }
    else if (name == "SyclopRRT" || name == "SyclopEST")
    {
        ob::RealVectorBounds b(2);
        for (unsigned j = 0; j < 2; ++j)
        {
            b.low[j] = sys.lo[j];
            b.high[j] = sys.hi[j];
        }
        auto dec = std::make_shared<XYDecomposition>(4, b, sys.space);
        if (name == "SyclopRRT")
            planner = std::make_shared<oc::SyclopRRT>(si, dec);
        else
            planner = std::make_shared<oc::SyclopEST>(si, dec);
        if (g_fvs > 0)
            static_cast<oc::Syclop *>(planner.get())->setNumFreeVolumeSamples((int)g_fvs);
    }
    else
        throw vp::ParseError("planner " + name);
    return planner;
}

static std::string opPlan(const Toks &t)
{
    size_t i = 1;
    if (i >= t.size())
        throw vp::ParseError("planner");
    std::string name = t[i++];
    Problem pb;
    pb.parse(t, i);
    unsigned k = needKV(t, i, "k");
    unsigned steer = needKV(t, i, "steer");
    double bias = needKVbits(t, i, "bias");
    unsigned long seed = needKV(t, i, "seed");
    unsigned long budget = needKV(t, i, "budget");
    g_fvs = 0;
    if (i < t.size() && t[i].rfind("fvs=", 0) == 0)   // optional: Syclop::setNumFreeVolumeSamples
        g_fvs = needKV(t, i, "fvs");
    if (i != t.size() || budget > 5000000 || k < 1 || k > 50 || g_fvs > 1000000)
        throw vp::ParseError("plan args");
    ompl::RNG::setSeed(seed + 1);
    const Sys &sys = pb.sys;
    std::shared_ptr<SysPropagator> prop;
    auto si = makeSI(sys, prop);
    prop->steerable = steer != 0;   // canSteer() => allocDirectedControlSampler() hands out a SteeredControlSampler
    si->setStateValidityChecker(std::make_shared<EnvValidity>(si, pb.env));
    // k = 1 is the library default (SimpleDirectedControlSampler with one control sample)
    if (k > 1)
        si->setDirectedControlSamplerAllocator(
            [k](const oc::SpaceInformation *s) { return std::make_shared<oc::SimpleDirectedControlSampler>(s, k); });
    si->setup();
    auto pdef = std::make_shared<ob::ProblemDefinition>(si);
    ob::State *s0 = si->allocState();
    for (const auto &st0 : pb.starts)
    {
        sys.space->copyFromReals(s0, st0);
        pdef->addStartState(s0);
    }
    si->freeState(s0);
    pdef->setGoal(makeGoal(pb.goalKind, si, pb.goal, pb.thr, nullptr));
    ob::PlannerPtr planner = makeControlPlanner(name, si, sys, bias);
    planner->setProblemDefinition(pdef);
    planner->setup();
    auto cnt = std::make_shared<vp::EvalCounter>();
    cnt->fireAt = budget;
    ob::PlannerStatus st = planner->solve(vp::evalCountPtc(cnt));
    return showSolution(sys, pdef, st, *si) + " evals=" + std::to_string(cnt->evals.load());
}


// one solution of the problem definition, in the format of showSolution
static std::string showOne(const Sys &sys, const ob::PlannerSolution &sol, const ob::GoalPtr &goal, const char *status,
                           const oc::SpaceInformation &si)
{
    std::string out = std::string("status=") + status + " has=1 approx=" + (sol.approximate_ ? "1" : "0") + " dif=" +
                      vp::bits(sol.difference_) + " " + sysBounds(si);
    auto *p = dynamic_cast<oc::PathControl *>(sol.path_.get());
    if (!p)
        return out + " path=not-a-PathControl";
    out += std::string(" libcheck=") + (p->check() ? "1" : "0");
    out += std::string(" insidegoal=") +
           (p->getStateCount() > 0 && goal->isSatisfied(p->getState(p->getStateCount() - 1)) ? "1" : "0");
    return out + " path " + showPath(sys, *p);
}

// validity checker of the history runs: EnvValidity, and (re-entrancy) at every `period`-th top-level query a complete nested
// propagateWhileValid of a fixed (state, control, 6 steps) on the SAME SpaceInformation (single-result and vector overload
// alternating).  The answer is the environment's; a re-entrant propagateWhileValid is not disturbed by the nested call.
class NestValidity : public EnvValidity
{
public:
    NestValidity(const std::shared_ptr<oc::SpaceInformation> &si, vp::Env env, unsigned period, std::vector<double> st)
      : EnvValidity(si, std::move(env)), csi_(si.get()), period_(period), st_(std::move(st))
    {
    }
    bool isValid(const ob::State *s) const override
    {
        const bool ans = EnvValidity::isValid(s);
        if (period_ == 0 || depth_ > 0 || !armed)
            return ans;
        if (++top_ % period_ != 0)
            return ans;
        ++depth_;
        ob::State *a = csi_->allocState(), *b = csi_->allocState();
        csi_->getStateSpace()->copyFromReals(a, st_);
        oc::Control *c = csi_->allocControl();
        csi_->nullControl(c);
        if ((nested++ & 1) == 0)
            csi_->propagateWhileValid(a, c, 6, b);
        else
        {
            std::vector<ob::State *> v;
            csi_->propagateWhileValid(a, c, 6, v, true);
            for (auto *p : v)
                csi_->freeState(p);
        }
        csi_->freeControl(c);
        csi_->freeState(a);
        csi_->freeState(b);
        --depth_;
        return ans;
    }
    mutable unsigned long nested = 0;
    bool armed = false;

private:
    const oc::SpaceInformation *csi_;
    unsigned period_;
    std::vector<double> st_;
    mutable unsigned long top_ = 0;
    mutable int depth_ = 0;
};

// `hist <planner> SYS ENV starts … GOAL k=<n> bias=<bits> seed=<n> [steer=<0|1>] [nest=<n>] ops OP*`: a HISTORY on one planner
// object.   OP ::= solve <budget>           planner->solve
//                | clear                    planner->clear() + pdef->clearSolutionPaths()
//                | clearsol                 pdef->clearSolutionPaths() only
//                | cb <lo0> <lo1> <hi0> <hi1>   RealVectorControlSpace::setBounds / DiscreteControlSpace::setBounds(lo0, hi0)
//                | mm <min> <max>           SpaceInformation::setMinMaxControlDuration
//                | dt <bits>                SpaceInformation::setPropagationStepSize
//                | setup                    si->setup(); planner->setup()
// One output line per `solve`: the status and EVERY solution path the problem definition holds afterwards (` || ` separated), each
// with the control bounds / step size / durations the space information reports AT THAT TIME, so that paths reported by a
// continued, re-started or re-configured planner go through the same replay oracle against the CURRENT system.
struct HistOp
{
    int kind;   // 0 solve, 1 clear, 2 clearsol, 3 cb, 4 mm, 5 dt, 6 setup
    unsigned long n = 0, m = 0;
    double v[4] = {0, 0, 0, 0};
};
static std::string opHist(const Toks &t)
{
    size_t i = 1;
    if (i >= t.size())
        throw vp::ParseError("planner");
    std::string name = t[i++];
    Problem pb;
    pb.parse(t, i);
    unsigned k = needKV(t, i, "k");
    double bias = needKVbits(t, i, "bias");
    unsigned long seed = needKV(t, i, "seed");
    unsigned steer = 0, nest = 0;
    if (i < t.size() && t[i].rfind("steer=", 0) == 0)
        steer = needKV(t, i, "steer");
    if (i < t.size() && t[i].rfind("nest=", 0) == 0)
        nest = needKV(t, i, "nest");
    g_fvs = 0;
    if (i < t.size() && t[i].rfind("fvs=", 0) == 0)
        g_fvs = needKV(t, i, "fvs");
    if (g_fvs > 1000000)
        throw vp::ParseError("fvs");
    expect(t, i, "ops");
    std::vector<HistOp> ops;
    while (i < t.size())
    {
        HistOp o;
        const std::string w = t[i++];
        if (w == "clear")
            o.kind = 1;
        else if (w == "clearsol")   // the caller clears only the problem definition's solution paths
            o.kind = 2;
        else if (w == "solve")
        {
            o.kind = 0;
            o.n = vp::needN(t, i);
            if (o.n > 5000000)
                throw vp::ParseError("budget");
        }
        else if (w == "cb")
        {
            o.kind = 3;
            for (double &x : o.v)
                x = vp::needF(t, i);
            if (!(o.v[0] <= o.v[2]) || !(o.v[1] <= o.v[3]))
                throw vp::ParseError("cb");
            if (pb.sys.disc && (o.v[0] != std::floor(o.v[0]) || o.v[2] != std::floor(o.v[2]) || fabs(o.v[0]) > 1e6 || fabs(o.v[2]) > 1e6))
                throw vp::ParseError("cb discrete");
        }
        else if (w == "mm")
        {
            o.kind = 4;
            o.n = vp::needN(t, i);
            o.m = vp::needN(t, i);
            if (o.n < 1 || o.n > o.m || o.m > 1000)
                throw vp::ParseError("mm");
        }
        else if (w == "dt")
        {
            o.kind = 5;
            o.v[0] = vp::needF(t, i);
            if (!(o.v[0] > 1e-9) || !(o.v[0] < 1e3) || pb.sys.kind == "ode")   // the ODE solver's integration step is fixed at construction
                throw vp::ParseError("dt");
        }
        else if (w == "setup")
            o.kind = 6;
        else
            throw vp::ParseError("hist op");
        ops.push_back(o);
    }
    if (k < 1 || k > 50 || ops.size() > 24 || nest > 1000000)
        throw vp::ParseError("hist args");
    ompl::RNG::setSeed(seed + 1);
    const Sys &sys = pb.sys;
    std::shared_ptr<SysPropagator> prop;
    auto si = makeSI(sys, prop);
    prop->steerable = steer != 0;
    auto val = std::make_shared<NestValidity>(si, pb.env, nest, pb.starts[0]);
    si->setStateValidityChecker(val);
    if (k > 1)
        si->setDirectedControlSamplerAllocator(
            [k](const oc::SpaceInformation *s) { return std::make_shared<oc::SimpleDirectedControlSampler>(s, k); });
    si->setup();
    auto pdef = std::make_shared<ob::ProblemDefinition>(si);
    ob::State *s0 = si->allocState();
    for (const auto &st0 : pb.starts)
    {
        sys.space->copyFromReals(s0, st0);
        pdef->addStartState(s0);
    }
    si->freeState(s0);
    pdef->setGoal(makeGoal(pb.goalKind, si, pb.goal, pb.thr, nullptr));
    ob::PlannerPtr planner = makeControlPlanner(name, si, sys, bias);
    planner->setProblemDefinition(pdef);
    planner->setup();
    std::string out;
    for (const HistOp &op : ops)
    {
        switch (op.kind)
        {
            case 2:
                pdef->clearSolutionPaths();
                continue;
            case 1:
                planner->clear();
                pdef->clearSolutionPaths();
                continue;
            case 3:
                sys.setCBounds(op.v[0], op.v[1], op.v[2], op.v[3]);
                continue;
            case 4:
                si->setMinMaxControlDuration(op.n, op.m);
                continue;
            case 5:
                si->setPropagationStepSize(op.v[0]);
                continue;
            case 6:
                si->setup();
                planner->setup();
                continue;
            default:
                break;
        }
        auto cnt = std::make_shared<vp::EvalCounter>();
        cnt->fireAt = op.n;
        val->armed = true;    // nested propagations only while the planner runs (not during the reporting below)
        ob::PlannerStatus st = planner->solve(vp::evalCountPtc(cnt));
        val->armed = false;
        std::string line = std::string("solve status=") + vp::statusName(st) + " nsol=" + std::to_string(pdef->getSolutionCount()) +
                           " nested=" + std::to_string(val->nested);
        for (const auto &sol : pdef->getSolutions())
            line += " || " + showOne(sys, sol, pdef->getGoal(), vp::statusName(st), *si);
        out += (out.empty() ? "" : "\n") + line;
    }
    return out.empty() ? "solve none" : out;
}

// ------------------------------------------------------------------------------------------ sampler histories (lock-step)
// the library's own samplers with their (protected) RNG reachable: sample()/sampleStepCount() are inherited unchanged
class RealSamplerX : public oc::RealVectorControlUniformSampler
{
public:
    using oc::RealVectorControlUniformSampler::RealVectorControlUniformSampler;
    void reseed(unsigned long s)
    {
        rng_.setLocalSeed(s);
    }
};
class DiscSamplerX : public oc::DiscreteControlSampler
{
public:
    using oc::DiscreteControlSampler::DiscreteControlSampler;
    void reseed(unsigned long s)
    {
        rng_.setLocalSeed(s);
    }
};
static void reseedSampler(oc::ControlSampler *cs, unsigned long s)
{
    if (auto *r = dynamic_cast<RealSamplerX *>(cs))
        r->reseed(s);
    else if (auto *d = dynamic_cast<DiscSamplerX *>(cs))
        d->reseed(s);
    else
        throw vp::ParseError("sampler type");
}
class SimpleDirX : public oc::SimpleDirectedControlSampler
{
public:
    using oc::SimpleDirectedControlSampler::SimpleDirectedControlSampler;
    void reseed(unsigned long s)
    {
        reseedSampler(cs_.get(), s);
    }
};

// `sampler (real <dim> <lo*dim> <hi*dim> | disc <lo> <hi>) lseed=<n> ops OP*`: ONE control sampler object kept across
// reconfigurations of its control space.  OP ::= B <bounds as in the header>   setBounds
//                                              | S | N                          sample / sampleNext(previous draw)
//                                              | K <a> <b>                      sampleStepCount(a, b)
//                                              | R <lseed>                      the owner drops the sampler and allocates a new one
// Output: one token group per draw (`S <values>` / `K <n>`).  A draw depends on the bounds at draw time.
static std::string opSampler(const Toks &t)
{
    size_t i = 1;
    if (i >= t.size())
        throw vp::ParseError("kind");
    const bool disc = t[i] == "disc";
    if (!disc && t[i] != "real")
        throw vp::ParseError("kind");
    ++i;
    unsigned dim = 1;
    auto space = std::make_shared<ob::RealVectorStateSpace>(1);
    std::shared_ptr<oc::RealVectorControlSpace> rs;
    std::shared_ptr<oc::DiscreteControlSpace> ds;
    auto readBounds = [&](bool first) {
        if (disc)
        {
            long long lo = vp::needI(t, i), hi = vp::needI(t, i);
            if (lo > hi || lo < -1000000 || hi > 1000000)
                throw vp::ParseError("bounds");
            if (first)
                ds = std::make_shared<oc::DiscreteControlSpace>(space, (int)lo, (int)hi);
            else
                ds->setBounds((int)lo, (int)hi);
        }
        else
        {
            ob::RealVectorBounds b(dim);
            for (unsigned j = 0; j < dim; ++j)
                b.low[j] = vp::needF(t, i);
            for (unsigned j = 0; j < dim; ++j)
                b.high[j] = vp::needF(t, i);
            for (unsigned j = 0; j < dim; ++j)
                if (!(b.low[j] <= b.high[j]) || !(fabs(b.low[j]) < 1e12) || !(fabs(b.high[j]) < 1e12))
                    throw vp::ParseError("bounds");
            if (first)
                rs = std::make_shared<oc::RealVectorControlSpace>(space, dim);
            rs->setBounds(b);
        }
    };
    if (!disc)
    {
        dim = vp::needN(t, i);
        if (dim < 1 || dim > 6)
            throw vp::ParseError("dim");
    }
    readBounds(true);
    unsigned long lseed = needKV(t, i, "lseed");
    expect(t, i, "ops");
    oc::ControlSpacePtr cs = disc ? oc::ControlSpacePtr(ds) : oc::ControlSpacePtr(rs);
    cs->setControlSamplerAllocator([disc](const oc::ControlSpace *sp) -> oc::ControlSamplerPtr {
        if (disc)
            return std::make_shared<DiscSamplerX>(sp);
        return std::make_shared<RealSamplerX>(sp);
    });
    cs->setup();
    oc::ControlSamplerPtr smp = cs->allocControlSampler();
    reseedSampler(smp.get(), lseed);
    oc::Control *c = cs->allocControl(), *prev = cs->allocControl();
    cs->nullControl(prev);
    std::string out = "draws";
    unsigned nops = 0;
    try
    {
        while (i < t.size())
        {
            if (++nops > 4000)
                throw vp::ParseError("too many ops");
            const std::string w = t[i++];
            if (w == "B")
                readBounds(false);
            else if (w == "S" || w == "N")
            {
                if (w == "S")
                    smp->sample(c);
                else
                    smp->sampleNext(c, prev);
                cs->copyControl(prev, c);
                out += " S";
                if (disc)
                    out += " " + std::to_string(c->as<oc::DiscreteControlSpace::ControlType>()->value);
                else
                    for (unsigned j = 0; j < dim; ++j)
                        out += " " + vp::bits(c->as<oc::RealVectorControlSpace::ControlType>()->values[j]);
            }
            else if (w == "K")
            {
                unsigned a = vp::needN(t, i), b = vp::needN(t, i);
                if (a > b || b > 1000000)
                    throw vp::ParseError("K");
                out += " K " + std::to_string(smp->sampleStepCount(a, b));
            }
            else if (w == "R")
            {
                unsigned long s2 = vp::needN(t, i);
                smp = cs->allocControlSampler();
                reseedSampler(smp.get(), s2);
            }
            else
                throw vp::ParseError("sampler op");
        }
    }
    catch (...)
    {
        cs->freeControl(c);
        cs->freeControl(prev);
        throw;
    }
    cs->freeControl(c);
    cs->freeControl(prev);
    return out;
}

// `dsampler SYS ENV k=<n> lseed=<n> ops OP*`: ONE SimpleDirectedControlSampler (k control samples) kept across reconfigurations
// of the control space and the space information.
//   OP ::= B <lo0> <lo1> <hi0> <hi1> | M <min> <max> | D <dt:bits> | R <lseed> (new directed sampler) | T <src reals> <dest reals>
// Output per T: `T <control*2> <steps> <reached state>` (sampleTo with the previous control = the last chosen one).
static std::string opDSampler(const Toks &t)
{
    size_t i = 1;
    Sys sys;
    sys.parse(t, i);
    if (sys.kind == "ode")
        throw vp::ParseError("no ode");
    vp::Env env;
    env.parse(t, i);
    if (env.pdim != 2)
        throw vp::ParseError("pdim");
    unsigned k = needKV(t, i, "k");
    unsigned long lseed = needKV(t, i, "lseed");
    // steer=1 (point system only): the SteeredControlSampler that allocDirectedControlSampler() hands out when the propagator
    // can steer, kept across the same reconfigurations (it reads the step size at every call)
    unsigned steer = 0;
    if (i < t.size() && t[i].rfind("steer=", 0) == 0)
        steer = needKV(t, i, "steer");
    expect(t, i, "ops");
    if (k < 1 || k > 20 || steer > 1 || (steer && sys.kind != "point"))
        throw vp::ParseError("k");
    std::shared_ptr<SysPropagator> prop;
    auto si = makeSI(sys, prop);
    prop->steerable = steer != 0;
    si->setStateValidityChecker(std::make_shared<EnvValidity>(si, env));
    const bool disc = sys.disc;
    sys.anyspace()->setControlSamplerAllocator([disc](const oc::ControlSpace *sp) -> oc::ControlSamplerPtr {
        if (disc)
            return std::make_shared<DiscSamplerX>(sp);
        return std::make_shared<RealSamplerX>(sp);
    });
    si->setup();
    oc::DirectedControlSamplerPtr dsm;
    auto alloc = [&](unsigned long sd) {
        if (steer)
        {
            dsm = si->allocDirectedControlSampler();
            if (!dynamic_cast<oc::SteeredControlSampler *>(dsm.get()))
                throw vp::ParseError("not steered");
        }
        else
        {
            auto x = std::make_shared<SimpleDirX>(si.get(), k);
            x->reseed(sd);
            dsm = x;
        }
    };
    alloc(lseed);
    ob::State *src = si->allocState(), *dst = si->allocState();
    oc::Control *c = si->allocControl(), *prev = si->allocControl();
    si->nullControl(prev);
    std::string out = "dsampler";
    unsigned nops = 0;
    try
    {
        while (i < t.size())
        {
            if (++nops > 2000)
                throw vp::ParseError("too many ops");
            const std::string w = t[i++];
            if (w == "B")
            {
                double v[4];
                for (double &x : v)
                    x = vp::needF(t, i);
                if (!(v[0] <= v[2]) || !(v[1] <= v[3]) || (disc && (v[0] != std::floor(v[0]) || v[2] != std::floor(v[2]) || fabs(v[0]) > 1e6 || fabs(v[2]) > 1e6)))
                    throw vp::ParseError("B");
                sys.setCBounds(v[0], v[1], v[2], v[3]);
            }
            else if (w == "M")
            {
                unsigned a = vp::needN(t, i), b = vp::needN(t, i);
                if (a < 1 || a > b || b > 1000)
                    throw vp::ParseError("M");
                si->setMinMaxControlDuration(a, b);
            }
            else if (w == "D")
            {
                double d = vp::needF(t, i);
                if (!(d > 1e-9) || !(d < 1e3))
                    throw vp::ParseError("D");
                si->setPropagationStepSize(d);
            }
            else if (w == "R")
            {
                unsigned long s2 = vp::needN(t, i);
                alloc(s2);
            }
            else if (w == "T")
            {
                sys.space->copyFromReals(src, needReals(t, i, sys.nreals()));
                sys.space->copyFromReals(dst, needReals(t, i, sys.nreals()));
                double dummy = 0;
                if (steer && !prop->steer(src, dst, c, dummy))
                {
                    // steer() fails (source = destination): sampleTo returns 0 and leaves control and dest alone
                    unsigned r0 = dsm->sampleTo(c, prev, src, dst);
                    out += std::string(" T none") + (r0 == 0 ? "" : "!");
                    continue;
                }
                unsigned r = dsm->sampleTo(c, prev, src, dst);
                si->copyControl(prev, c);
                out += " T " + showCt(c) + " " + std::to_string(r) + " " + showSt(sys, dst);
            }
            else
                throw vp::ParseError("dsampler op");
        }
    }
    catch (...)
    {
        si->freeState(src);
        si->freeState(dst);
        si->freeControl(c);
        si->freeControl(prev);
        throw;
    }
    si->freeState(src);
    si->freeState(dst);
    si->freeControl(c);
    si->freeControl(prev);
    return out;
}

// ------------------------------------------------------------------------------------------ re-entrancy
// `nest SYS ENV hook=<v|p> at=<k> CALL CALL` with CALL ::= (pwv | prop) FORM <steps> st <reals> ct <reals>: the first CALL runs
// on a SpaceInformation whose validity checker (hook=v) / propagator (hook=p) performs, at its k-th top-level invocation
// (0-based), the COMPLETE second CALL on the same SpaceInformation.  Output: `<outer result> ## <inner result | not-run>`, each
// formatted like a pwv/prop line without counters; both must be what each call gives alone.
struct NestCall
{
    bool whileValid = true;
    Form f;
    long long steps = 0;
    std::vector<double> st, ct;
    void parse(const Sys &sys, const Toks &t, size_t &i)
    {
        if (i >= t.size() || (t[i] != "pwv" && t[i] != "prop"))
            throw vp::ParseError("call");
        whileValid = t[i++] == "pwv";
        f.parse(t, i);
        steps = vp::needI(t, i);
        if (steps > 10000 || steps < -10000)
            throw vp::ParseError("steps");
        expect(t, i, "st");
        st = needReals(t, i, sys.nreals());
        expect(t, i, "ct");
        ct = needReals(t, i, 2);
    }
    std::string run(const Sys &sys, const oc::SpaceInformation &si) const
    {
        ob::State *state = si.allocState();
        sys.space->copyFromReals(state, st);
        oc::Control *ctl = si.allocControl();
        ctlSet(ctl, ct[0], ct[1]);
        std::string out;
        unsigned r = 0;
        if (f.kind == "single" || f.kind == "alias")
        {
            ob::State *result = f.kind == "alias" ? state : si.allocState();
            if (f.kind == "single")
            {
                std::vector<double> z(sys.nreals(), 555.0);
                sys.space->copyFromReals(result, z);
            }
            if (whileValid)
                r = si.propagateWhileValid(state, ctl, (int)steps, result);
            else
                si.propagate(state, ctl, (int)steps, result);
            out = (whileValid ? "r=" + std::to_string(r) + " " : std::string()) + "res=" + showSt(sys, result) + " vec=-";
            if (result != state)
                si.freeState(result);
        }
        else
        {
            std::vector<ob::State *> v;
            if (!f.alloc)
                presizeVec(sys, si, v, f.presize);
            if (whileValid)
                r = si.propagateWhileValid(state, ctl, (int)steps, v, f.alloc);
            else
                si.propagate(state, ctl, (int)steps, v, f.alloc);
            out = (whileValid ? "r=" + std::to_string(r) + " " : std::string()) + "res=- " + showVec(sys, v);
            for (auto *p : v)
                if (p)
                    si.freeState(p);
        }
        si.freeState(state);
        si.freeControl(ctl);
        return out;
    }
};

class HookValidity : public EnvValidity
{
public:
    using EnvValidity::EnvValidity;
    bool isValid(const ob::State *s) const override
    {
        // the nested call runs FIRST, then the state handed in is judged: a non-re-entrant caller's buffer is read after the
        // nested call wrote to it
        if (hook)
            hook();
        return EnvValidity::isValid(s);
    }
    std::function<void()> hook;
};

static std::string opNest(const Toks &t)
{
    size_t i = 1;
    Sys sys;
    sys.parse(t, i);
    if (sys.kind == "ode")
        throw vp::ParseError("no ode");
    vp::Env env;
    env.parse(t, i);
    if (env.pdim != 2)
        throw vp::ParseError("pdim");
    if (i >= t.size() || (t[i] != "hook=v" && t[i] != "hook=p"))
        throw vp::ParseError("hook");
    const bool hookV = t[i++] == "hook=v";
    unsigned long at = needKV(t, i, "at");
    NestCall outer, inner;
    outer.parse(sys, t, i);
    inner.parse(sys, t, i);
    if (i != t.size())
        throw vp::ParseError("trailing");
    std::shared_ptr<SysPropagator> prop;
    auto si = makeSI(sys, prop);
    auto val = std::make_shared<HookValidity>(si, env);
    si->setStateValidityChecker(val);
    si->setup();
    unsigned long count = 0;
    int depth = 0;
    std::string innerOut = "not-run";
    auto hook = [&]() {
        if (depth > 0)
            return;
        if (count++ != at)
            return;
        ++depth;
        innerOut = inner.run(sys, *si);
        --depth;
    };
    if (hookV)
        val->hook = hook;
    else
        prop->hook = hook;
    std::string outerOut = outer.run(sys, *si);
    val->hook = nullptr;
    prop->hook = nullptr;
    return outerOut + " ## " + innerOut;
}

int main()
{
    vp::quietLogs();
    std::string line;
    if (!vp::readLine(line))
        return 2;
    auto hdr = vp::tokens(line);
    if (hdr.size() != 1 || hdr[0] != "control")
    {
        std::cout << "bad-header\n";
        return 2;
    }
    bool planned = false;
    while (vp::readLine(line))
    {
        auto t = vp::tokens(line);
        if (t.empty())
            continue;
        try
        {
            if (t[0] == "pwv")
                std::cout << opPwv(t, true) << "\n";
            else if (t[0] == "prop")
                std::cout << opPwv(t, false) << "\n";
            else if (t[0] == "pcheck")
                std::cout << opPath(t, 0) << "\n";
            else if (t[0] == "pinterp")
                std::cout << opPath(t, 1) << "\n";
            else if (t[0] == "pgeom")
                std::cout << opPath(t, 2) << "\n";
            else if (t[0] == "hist")
            {
                planned = true;
                std::cout << opHist(t) << "\n";
            }
            else if (t[0] == "pmisc")
            {
                planned = true;
                std::cout << opPmisc(t) << "\n";
            }
            else if (t[0] == "stepcount")
                std::cout << opStepCount(t) << "\n";
            else if (t[0] == "sampler")
                std::cout << opSampler(t) << "\n";
            else if (t[0] == "dsampler")
                std::cout << opDSampler(t) << "\n";
            else if (t[0] == "nest")
                std::cout << opNest(t) << "\n";
            else if ((t[0] == "rrt" || t[0] == "plan" || t[0] == "sst" || t[0] == "est" || t[0] == "kpiece" || t[0] == "pdst" || t[0] == "pmisc" || t[0] == "hist") && planned)
                std::cout << "bad-op\n";  // the global RNG seed can be set once per process
            else if (t[0] == "rrt")
            {
                planned = true;
                std::string play;
                std::string out = opRrt(t, play);
                std::cout << out << "\n" << play << "\n";
            }
            else if (t[0] == "rrtplay")
                std::cout << opRrtPlay(t) << "\n";
            else if (t[0] == "pdst")
            {
                planned = true;
                std::string play;
                std::string out = opPdst(t, play);
                std::cout << out << "\n" << play << "\n";
            }
            else if (t[0] == "kpiece")
            {
                planned = true;
                std::string play;
                std::string out = opKpiece(t, play);
                std::cout << out << "\n" << play << "\n";
            }
            else if (t[0] == "est")
            {
                planned = true;
                std::string play;
                std::string out = opEst(t, play);
                std::cout << out << "\n" << play << "\n";
            }
            else if (t[0] == "sst")
            {
                planned = true;
                std::string play;
                std::string out = opSst(t, play);
                std::cout << out << "\n" << play << "\n";
            }
            else if (t[0] == "plan")
            {
                planned = true;
                std::cout << opPlan(t) << "\n";
            }
            else
                std::cout << "bad-op\n";
        }
        catch (const vp::ParseError &)
        {
            std::cout << "bad-op\n";
        }
        std::cout.flush();
    }
    return 0;
}
