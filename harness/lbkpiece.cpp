// C13 (round 4) harness: runs the REAL ompl::geometric::LBKPIECE1 on an R^n box environment and prints every oracle
// answer the planner receives as an event line, and at every loop-head evaluation of the termination condition (and
// at the end) the full planner state: every motion ever created (ids in order of creation; alive ones with tree,
// parent, valid flag, state bits and children; freed ones as `x`), both discretizations (cell tables and heap arrays),
// the goal-sample counter and the order in which motions were freed.  checks/c13.py turns the events into the script
// of the Lean model (lean/OmplModel/Driver/LBKPIECE1.lean) and compares the state sequences line by line.
//
// Observation points (no source hooks): a RealVectorStateSpace subclass logging allocState/freeState (motion identity =
// allocation of its state; frees of motion states are the free-event list), a ProjectionEvaluator subclass (orthogonal
// on components 0,1, default cell sizes extent/20) whose project() is the creation event of a motion (the code calls
// computeCoordinates(motion->state) right before every disc.addMotion), recording sampler / goal (GoalStates) /
// DiscreteMotionValidator wrappers.  `private`/`protected` are opened for LBKPIECE1.h (and the discretization headers)
// in this translation unit only: dStart_, dGoal_ are read and the three rng_ members are reseeded before solve().
//
// input: `lbkpiece` | `dim n` | `bounds lo*n hi*n` | `boxes k (lo*n hi*n)*k` | `res r` | `start s*n`* | `goal s*n`* |
//        `range r` | `bf b` | `mvf f` | `seeds dstart dgoal planner global` | `iters k` | `go`
#include "common/proto.h"
#include <Eigen/Core>
#include <algorithm>
#include <map>
#include <memory>
#include <set>
#include <vector>
#include "ompl/base/Planner.h"
#include "ompl/base/PlannerData.h"
#include "ompl/base/ProblemDefinition.h"
#include "ompl/base/ProjectionEvaluator.h"
#include "ompl/base/SpaceInformation.h"
#include "ompl/base/DiscreteMotionValidator.h"
#include "ompl/base/goals/GoalStates.h"
#include "ompl/base/goals/GoalSampleableRegion.h"
#include "ompl/base/spaces/RealVectorStateSpace.h"
#include "ompl/geometric/PathGeometric.h"
#include "ompl/util/Console.h"
#include "ompl/util/RandomNumbers.h"
#define private public
#define protected public
#include "ompl/datastructures/BinaryHeap.h"
#include "ompl/datastructures/GridB.h"
#include "ompl/geometric/planners/kpiece/Discretization.h"
#include "ompl/geometric/planners/kpiece/LBKPIECE1.h"
#undef private
#undef protected

namespace ob = ompl::base;
namespace og = ompl::geometric;

static unsigned N = 2;
static bool running = false;   // events are recorded only while solve() runs

static std::string sbits(const ob::State *s)
{
    const auto *rv = s->as<ob::RealVectorStateSpace::StateType>();
    std::string out;
    for (unsigned i = 0; i < N; ++i)
        out += (i ? "," : "") + vp::bits(rv->values[i]);
    return out;
}

static std::string joinC(const std::vector<std::string> &v)
{
    if (v.empty())
        return "-";
    std::string s;
    for (size_t i = 0; i < v.size(); ++i)
        s += (i ? "," : "") + v[i];
    return s;
}

// ------------------------------------------------------------------ motion identity through state allocations
static std::map<const void *, long> motionOfState;   // live State* -> motion id (only for states that became motions)
static std::set<const void *> liveStates;
static long nextMotion = 0;
static std::vector<long> freedOrder;

class RecSpace : public ob::RealVectorStateSpace
{
public:
    using ob::RealVectorStateSpace::RealVectorStateSpace;
    ob::State *allocState() const override
    {
        ob::State *s = ob::RealVectorStateSpace::allocState();
        liveStates.insert(s);
        return s;
    }
    void freeState(ob::State *s) const override
    {
        auto it = motionOfState.find(s);
        if (it != motionOfState.end())
        {
            if (running)
                freedOrder.push_back(it->second);
            motionOfState.erase(it);
        }
        liveStates.erase(s);
        ob::RealVectorStateSpace::freeState(s);
    }
};

class RecProj : public ob::ProjectionEvaluator
{
public:
    RecProj(const ob::StateSpacePtr &space) : ob::ProjectionEvaluator(space) {}
    unsigned int getDimension() const override { return 2; }
    void defaultCellSizes() override
    {
        const ob::RealVectorBounds &b = space_->as<ob::RealVectorStateSpace>()->getBounds();
        bounds_.resize(2);
        cellSizes_.resize(2);
        for (unsigned i = 0; i < 2; ++i)
        {
            bounds_.low[i] = b.low[i];
            bounds_.high[i] = b.high[i];
            cellSizes_[i] = (b.high[i] - b.low[i]) / 20.0;
        }
    }
    void project(const ob::State *state, Eigen::Ref<Eigen::VectorXd> projection) const override
    {
        const auto *rv = state->as<ob::RealVectorStateSpace::StateType>();
        projection[0] = rv->values[0];
        projection[1] = rv->values[1];
        if (running)
        {
            // the creation event of a motion: computeCoordinates(motion->state) precedes every disc.addMotion
            if (!motionOfState.count(state))
                motionOfState[state] = nextMotion++;
            Eigen::VectorXi c(2);
            computeCoordinates(projection, c);
            std::cout << "ev proj m=" << motionOfState[state] << " s=" << sbits(state) << " c=" << c[0] << "," << c[1] << std::endl;
        }
    }
};

class RecSampler : public ob::StateSampler
{
public:
    RecSampler(const ob::StateSpace *sp, ob::StateSamplerPtr inner) : ob::StateSampler(sp), inner_(std::move(inner)) {}
    void sampleUniform(ob::State *s) override { inner_->sampleUniform(s); }
    void sampleUniformNear(ob::State *s, const ob::State *near, double d) override
    {
        inner_->sampleUniformNear(s, near, d);
        if (running)
        {
            std::cout << "ev near x=" << sbits(s) << std::endl;
            sampled = true;
        }
    }
    void sampleGaussian(ob::State *s, const ob::State *mean, double sd) override { inner_->sampleGaussian(s, mean, sd); }
    static bool sampled;

private:
    ob::StateSamplerPtr inner_;
};
bool RecSampler::sampled = false;

class RecGoal : public ob::GoalSampleableRegion
{
public:
    RecGoal(const ob::SpaceInformationPtr &si, std::shared_ptr<ob::GoalStates> inner)
      : ob::GoalSampleableRegion(si), inner_(std::move(inner))
    {
    }
    double distanceGoal(const ob::State *st) const override { return inner_->distanceGoal(st); }
    void sampleGoal(ob::State *st) const override
    {
        inner_->sampleGoal(st);
        if (running)
            std::cout << "ev goal s=" << sbits(st) << std::endl;
    }
    unsigned int maxSampleCount() const override { return inner_->maxSampleCount(); }

private:
    std::shared_ptr<ob::GoalStates> inner_;
};

class RecMV : public ob::MotionValidator
{
public:
    RecMV(const ob::SpaceInformationPtr &si) : ob::MotionValidator(si), inner_(si) {}
    bool checkMotion(const ob::State *s1, const ob::State *s2) const override { return inner_.checkMotion(s1, s2); }
    bool checkMotion(const ob::State *s1, const ob::State *s2, std::pair<ob::State *, double> &lastValid) const override
    {
        std::string a = sbits(s1), b = sbits(s2);
        lastValid.second = 0.0;
        bool r = inner_.checkMotion(s1, s2, lastValid);
        std::cout << "ev cm a=" << a << " b=" << b << " r=" << (r ? 1 : 0) << " frac=" << vp::bits(lastValid.second)
                  << " lv=" << (r ? b : sbits(lastValid.first)) << std::endl;
        return r;
    }

private:
    ob::DiscreteMotionValidator inner_;
};

using M = og::LBKPIECE1::Motion;
using D = og::Discretization<M>;

static std::string dumpDisc(D &d, int which, std::map<long, const M *> &alive, std::map<long, char> &treeOf)
{
    auto &g = d.grid_;
    unsigned dim = g.getDimension();
    std::vector<D::Cell *> cells;
    g.getCells(cells);
    auto mid = [](const M *m) {
        auto it = motionOfState.find(m->state);
        return it == motionOfState.end() ? -1L : it->second;
    };
    // cells are identified by their coordinate (a cell created and destroyed between two dumps is never seen)
    auto ckey = [dim](D::Cell *c) {
        std::string k;
        for (unsigned i = 0; i < dim; ++i)
            k += (i ? "." : "") + std::to_string(c->coord[i]);
        return k;
    };
    std::sort(cells.begin(), cells.end(), [dim](D::Cell *a, D::Cell *b) {
        for (unsigned i = 0; i < dim; ++i)
            if (a->coord[i] != b->coord[i])
                return a->coord[i] < b->coord[i];
        return false;
    });
    std::string s = "size=" + std::to_string(d.size_) + " iter=" + std::to_string(d.iteration_) +
                    " bf=" + vp::bits(d.selectBorderFraction_) + " tbl=" + std::to_string(g.size());
    s += " | n=" + std::to_string(g.size());
    for (auto *c : cells)
    {
        std::vector<std::string> ms;
        for (auto *m : c->data->motions)
        {
            ms.push_back(std::to_string(mid(m)));
            alive[mid(m)] = m;
            treeOf[mid(m)] = which == 0 ? 'S' : 'G';
        }
        s += " " + ckey(c) + ":" + std::to_string(c->neighbors) + ":" +
             (c->border ? "1" : "0") + ":" + joinC(ms) + ":" + vp::bits(c->data->coverage) + ":" +
             std::to_string(c->data->selections) + ":" + vp::bits(c->data->score) + ":" + std::to_string(c->data->iteration) +
             ":" + vp::bits(c->data->importance);
    }
    std::vector<std::string> hi, he;
    for (auto *e : g.internal_.vector_)
        hi.push_back(ckey(static_cast<D::Cell *>(e->data)));
    for (auto *e : g.external_.vector_)
        he.push_back(ckey(static_cast<D::Cell *>(e->data)));
    s += " | I=" + joinC(hi) + " E=" + joinC(he);
    return s;
}

static std::string dump(og::LBKPIECE1 &p)
{
    std::map<long, const M *> alive;
    std::map<long, char> treeOf;
    std::string ds = dumpDisc(p.dStart_, 0, alive, treeOf);
    std::string dg = dumpDisc(p.dGoal_, 1, alive, treeOf);
    std::string s = "goals=" + std::to_string(p.getPlannerInputStates().getSampledGoalsCount()) + " || S " + ds + " || G " + dg + " || motions n=" +
                    std::to_string(nextMotion);
    auto idOf = [](const M *m) {
        auto it = motionOfState.find(m->state);
        return it == motionOfState.end() ? std::string("?") : std::to_string(it->second);
    };
    for (long i = 0; i < nextMotion; ++i)
    {
        auto it = alive.find(i);
        if (it == alive.end())
        {
            s += " " + std::to_string(i) + ":x";
            continue;
        }
        const M *m = it->second;
        std::vector<std::string> ch;
        for (auto *c : m->children)
            ch.push_back(idOf(c));
        s += " " + std::to_string(i) + ":" + treeOf[i] + ":" + (m->parent ? idOf(m->parent) : std::string("-1")) + ":" +
             (m->valid ? "1" : "0") + ":" + sbits(m->state) + ":" + joinC(ch);
    }
    std::vector<std::string> fr;
    for (long f : freedOrder)
        fr.push_back(std::to_string(f));
    s += " || freed=" + joinC(fr);
    return s;
}

int main()
{
    ompl::msg::setLogLevel(ompl::msg::LOG_NONE);
    std::string line;
    if (!vp::readLine(line) || vp::tokens(line) != std::vector<std::string>{"lbkpiece"})
    {
        std::cout << "bad-header\n";
        return 2;
    }
    std::vector<double> lo, hi;
    std::vector<std::vector<double>> boxes, starts, goals;
    double res = 0.01, range = 0.0, bf = 0.9, mvf = 0.5;
    unsigned long seedS = 1, seedG = 2, seedP = 3, seedGlobal = 4, iters = 10;
    auto dbl = [](const std::string &t) { return *vp::parseBits(t); };
    try
    {
        while (vp::readLine(line))
        {
            auto t = vp::tokens(line);
            if (t.empty())
                continue;
            const std::string &op = t[0];
            if (op == "go")
                break;
            else if (op == "dim" && t.size() == 2)
                N = (unsigned)std::stoul(t[1]);
            else if (op == "bounds" && t.size() == 1 + 2 * N)
            {
                for (unsigned i = 0; i < N; ++i) lo.push_back(dbl(t[1 + i]));
                for (unsigned i = 0; i < N; ++i) hi.push_back(dbl(t[1 + N + i]));
            }
            else if (op == "boxes" && t.size() >= 2 && t.size() == 2 + std::stoul(t[1]) * 2 * N)
            {
                size_t k = std::stoul(t[1]);
                for (size_t b = 0; b < k; ++b)
                {
                    std::vector<double> bx;
                    for (unsigned i = 0; i < 2 * N; ++i) bx.push_back(dbl(t[2 + b * 2 * N + i]));
                    boxes.push_back(bx);
                }
            }
            else if (op == "res" && t.size() == 2) res = dbl(t[1]);
            else if ((op == "start" || op == "goal") && t.size() == 1 + N)
            {
                std::vector<double> s;
                for (unsigned i = 0; i < N; ++i) s.push_back(dbl(t[1 + i]));
                (op == "start" ? starts : goals).push_back(s);
            }
            else if (op == "range" && t.size() == 2) range = dbl(t[1]);
            else if (op == "bf" && t.size() == 2) bf = dbl(t[1]);
            else if (op == "mvf" && t.size() == 2) mvf = dbl(t[1]);
            else if (op == "seeds" && t.size() == 5)
            {
                seedS = std::stoul(t[1]);
                seedG = std::stoul(t[2]);
                seedP = std::stoul(t[3]);
                seedGlobal = std::stoul(t[4]);
            }
            else if (op == "iters" && t.size() == 2) iters = std::stoul(t[1]);
            else
            {
                std::cout << "bad-op " << line << "\n";
                return 2;
            }
        }
    }
    catch (...)
    {
        std::cout << "bad-op\n";
        return 2;
    }
    if (lo.size() != N || goals.empty() || (N != 2 && N != 3))
    {
        std::cout << "bad-problem\n";
        return 2;
    }
    ompl::RNG::setSeed(seedGlobal);
    auto space = std::make_shared<RecSpace>(N);
    ob::RealVectorBounds b(N);
    for (unsigned i = 0; i < N; ++i)
    {
        b.setLow(i, lo[i]);
        b.setHigh(i, hi[i]);
    }
    space->setBounds(b);
    space->setStateSamplerAllocator([](const ob::StateSpace *sp) -> ob::StateSamplerPtr {
        return std::make_shared<RecSampler>(sp, sp->allocDefaultStateSampler());
    });
    auto si = std::make_shared<ob::SpaceInformation>(space);
    si->setStateValidityChecker([&boxes](const ob::State *s) {
        const auto *rv = s->as<ob::RealVectorStateSpace::StateType>();
        for (auto &bx : boxes)
        {
            bool in = true;
            for (unsigned i = 0; i < N; ++i)
                if (rv->values[i] < bx[i] || rv->values[i] > bx[N + i])
                    in = false;
            if (in)
                return false;
        }
        return true;
    });
    si->setStateValidityCheckingResolution(res);
    si->setMotionValidator(std::make_shared<RecMV>(si));
    si->setup();
    auto pdef = std::make_shared<ob::ProblemDefinition>(si);
    for (auto &sv : starts)
    {
        ob::ScopedState<> st(space);
        for (unsigned i = 0; i < N; ++i)
            st[i] = sv[i];
        pdef->addStartState(st);
    }
    auto gs = std::make_shared<ob::GoalStates>(si);
    for (auto &gv : goals)
    {
        ob::ScopedState<> g(space);
        for (unsigned i = 0; i < N; ++i)
            g[i] = gv[i];
        gs->addState(g);
        std::cout << "goalstate ok=" << ((si->satisfiesBounds(g.get()) && si->isValid(g.get())) ? 1 : 0) << " state=" << sbits(g.get())
                  << std::endl;
    }
    pdef->setGoal(std::make_shared<RecGoal>(si, gs));
    {
        og::LBKPIECE1 planner(si);
        if (range > 0.0)
            planner.setRange(range);
        planner.setBorderFraction(bf);
        planner.setMinValidPathFraction(mvf);
        planner.setProjectionEvaluator(std::make_shared<RecProj>(space));
        planner.setProblemDefinition(pdef);
        planner.setup();
        std::cout << "cfg pdim=" << planner.getProjectionEvaluator()->getDimension() << " range=" << vp::bits(planner.getRange())
                  << std::endl;
        for (size_t k = 0; k < starts.size(); ++k)
        {
            const ob::State *st = pdef->getStartState(k);
            bool ok = si->satisfiesBounds(st) && si->isValid(st);
            std::cout << "start i=" << k << " ok=" << (ok ? 1 : 0) << " state=" << sbits(st) << std::endl;
        }
        planner.dStart_.rng_.setLocalSeed(seedS);
        planner.dGoal_.rng_.setLocalSeed(seedG);
        planner.rng_.setLocalSeed(seedP);
        unsigned long heads = 0, internal = 0;
        ob::PlannerTerminationCondition ptc([&]() {
            // a loop-head evaluation is the first one, or one that follows a sampleUniformNear; the others happen inside
            // pis_.nextGoal(ptc) (goal tree still empty): they are not dumped and end the wait after 20 evaluations
            if (heads == 0 || RecSampler::sampled)
            {
                ++heads;
                RecSampler::sampled = false;
                internal = 0;
                std::cout << "st " << dump(planner) << std::endl;
                return heads > iters;
            }
            ++internal;
            return internal > 20;
        });
        running = true;
        ob::PlannerStatus status = planner.solve(ptc);
        running = false;
        std::string path = "-";
        if (pdef->hasSolution())
        {
            auto *pg = pdef->getSolutionPath()->as<og::PathGeometric>();
            path.clear();
            for (size_t i = 0; i < pg->getStateCount(); ++i)
                path += (i ? ";" : "") + sbits(pg->getState(i));
        }
        std::cout << "final status=" << status.asString() << " nsol=" << pdef->getSolutionCount()
                  << " approx=" << (pdef->hasSolution() && pdef->hasApproximateSolution() ? 1 : 0) << " heads=" << heads
                  << " path=" << path << std::endl;
        std::cout << "st " << dump(planner) << std::endl;
        ob::PlannerData pd(si);
        planner.getPlannerData(pd);
        std::cout << "pd v=" << pd.numVertices() << " e=" << pd.numEdges() << " s=" << pd.numStartVertices()
                  << " g=" << pd.numGoalVertices() << std::endl;
    }
    std::cout << "leak-check live-states=" << liveStates.size() << std::endl;
    return 0;
}
