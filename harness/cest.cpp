// C12 (sixth engine) harness: the cell PDF of the REAL ompl::control::EST (pdf_ over grid cells, the control:: sibling of
// geometric::ProjEST: same add / update(elem_, 1.0/size) protocol, different class).  Same protocol and dump format as
// harness/sbl.cpp (one tree, printed as `Ts`; the `Tg` part is an empty placeholder):
//   ops      add s -1 <x>*dim   (Motion(siC) + addMotion)  -> m=<id>      sel s (selectMotion) -> m=<id> | null | empty
//   go       control::EST::solve on a single-integrator system (x' = u) with a termination condition firing after <iters>
//            evaluations -> status
// `private` of PDF.h is opened for this translation unit only; pdf_ / tree_ / addMotion / selectMotion are protected.
#include "common/proto.h"
#include <ompl/util/Exception.h>
#include <vector>
#define private public
#include <ompl/datastructures/PDF.h>
#undef private
#include "common/planning.h"
#include <ompl/base/spaces/RealVectorStateProjections.h>
#include <ompl/base/spaces/RealVectorStateSpace.h>
#include <ompl/control/SpaceInformation.h>
#include <ompl/control/spaces/RealVectorControlSpace.h>
#include <ompl/control/planners/est/EST.h>
#include <map>

namespace ob = ompl::base;
namespace oc = ompl::control;

class OpenCEST : public oc::EST
{
public:
    using oc::EST::EST;
    using M = oc::EST::Motion;
    std::map<M *, long> ids;
    std::vector<M *> byId;
    void seedRng(std::uint_fast32_t s)
    {
        rng_.setLocalSeed(s);
    }
    long opAdd(const std::vector<double> &x)
    {
        auto *m = new M(siC_);
        for (size_t d = 0; d < x.size(); ++d)
            m->state->as<ob::RealVectorStateSpace::StateType>()->values[d] = x[d];
        siC_->nullControl(m->control);
        ids[m] = (long)byId.size();
        byId.push_back(m);
        addMotion(m);
        return ids[m];
    }
    long opSelect()
    {
        M *m = selectMotion();
        if (!m)
            return -1;
        auto it = ids.find(m);
        return it == ids.end() ? -2 : it->second;
    }
    bool pdfEmpty() const
    {
        return pdf_.empty();
    }
    std::string dumpTree(bool withStates)
    {
        auto &p = pdf_;
        std::string s = "Ts size=" + std::to_string(tree_.size) + " grid=" + std::to_string(tree_.grid.size()) + " pdf n=" +
                        std::to_string(p.size()) + " ix=";
        for (size_t i = 0; i < p.data_.size(); ++i)
            s += (i ? "," : "") + std::to_string(p.data_[i]->index_);
        s += " rows=" + std::to_string(p.tree_.size());
        for (const auto &row : p.tree_)
        {
            s += " [" + std::to_string(row.size()) + ":";
            for (size_t j = 0; j < row.size(); ++j)
                s += (j ? "," : "") + vp::bits(row[j]);
            s += "]";
        }
        s += " cells=";
        for (size_t i = 0; i < p.data_.size(); ++i)
        {
            GridCell *c = p.data_[i]->data_;
            std::string co;
            for (int d = 0; d < c->coord.size(); ++d)
                co += (d ? "," : "") + std::to_string(c->coord[d]);
            s += (i ? ";" : "") + co + ":" + std::to_string(c->data.size()) + ":" + (c->data.elem_ == p.data_[i] ? "1" : "0") + ":" +
                 (tree_.grid.getCell(c->coord) == c ? "1" : "0") + ":";
            for (unsigned j = 0; j < c->data.size(); ++j)
            {
                M *m = c->data[j];
                if (withStates)
                {
                    std::vector<double> r;
                    si_->getStateSpace()->copyToReals(r, m->state);
                    std::string st;
                    for (size_t q = 0; q < r.size(); ++q)
                        st += (q ? "_" : "") + vp::bits(r[q]);
                    s += (j ? "," : "") + st;
                }
                else
                {
                    auto it = ids.find(m);
                    s += (j ? "," : "") + (it == ids.end() ? std::string("?") : std::to_string(it->second));
                }
            }
        }
        return s;
    }
};

static const char *EMPTY_G = "Tg size=0 grid=0 pdf n=0 ix= rows=0 cells=";

int main()
{
    vp::quietLogs();
    std::string line;
    if (!vp::readLine(line))
        return 2;
    auto hdr = vp::tokens(line);
    if (hdr.size() != 2 || hdr[0] != "cest" || !vp::parseNat(hdr[1]) || *vp::parseNat(hdr[1]) == 0)
    {
        std::cout << "bad-header\n";
        return 2;
    }
    const unsigned dim = *vp::parseNat(hdr[1]);
    std::vector<double> lo, hi, goal;
    std::vector<std::vector<double>> starts;
    vp::Env env;
    double thr = 0.05, range = 0.0;
    unsigned long seed = 1, iters = 0;
    std::vector<unsigned int> comps;
    std::vector<double> cellSizes;
    std::string mode;
    try
    {
        while (vp::readLine(line))
        {
            auto t = vp::tokens(line);
            if (t.empty())
                continue;
            size_t i = 1;
            const std::string &op = t[0];
            auto floats = [&](size_t n) {
                std::vector<double> v;
                for (size_t k = 0; k < n; ++k)
                    v.push_back(vp::needF(t, i));
                return v;
            };
            if (op == "bounds" && t.size() == 1 + 2 * dim)
            {
                lo = floats(dim);
                hi = floats(dim);
            }
            else if (op == "boxes")
            {
                i = 0;
                env.parse(t, i);
                if (i != t.size() || env.pdim > dim)
                    throw vp::ParseError("boxes");
            }
            else if ((op == "res" || op == "bias") && t.size() == 2)
                (void)vp::needF(t, i);
            else if (op == "range" && t.size() == 2)
                range = vp::needF(t, i);
            else if (op == "thr" && t.size() == 2)
                thr = vp::needF(t, i);
            else if (op == "goal" && t.size() == 1 + dim)
                goal = floats(dim);
            else if (op == "start" && t.size() == 1 + dim)
                starts.push_back(floats(dim));
            else if (op == "proj" && t.size() >= 2)
            {
                unsigned k = vp::needN(t, i);
                if (k == 0 || t.size() != 2 + 2 * k)
                    throw vp::ParseError("proj");
                for (unsigned j = 0; j < k; ++j)
                {
                    unsigned c = vp::needN(t, i);
                    if (c >= dim)
                        throw vp::ParseError("proj component");
                    comps.push_back(c);
                }
                for (unsigned j = 0; j < k; ++j)
                    cellSizes.push_back(vp::needF(t, i));
            }
            else if (op == "seed" && t.size() == 2)
                seed = vp::needN(t, i);
            else if (op == "iters" && t.size() == 2)
                iters = vp::needN(t, i);
            else if ((op == "go" || op == "ops") && t.size() == 1)
            {
                mode = op;
                break;
            }
            else
                throw vp::ParseError(line);
        }
        if (lo.size() != dim || goal.size() != dim || comps.empty() || mode.empty())
            throw vp::ParseError("incomplete configuration");
    }
    catch (const std::exception &e)
    {
        std::cout << "bad-op " << e.what() << "\n";
        return 2;
    }
    (void)range;
    ompl::RNG::setSeed(seed ? seed : 1);
    auto space = std::make_shared<ob::RealVectorStateSpace>(dim);
    ob::RealVectorBounds b(dim);
    for (unsigned d = 0; d < dim; ++d)
    {
        b.low[d] = lo[d];
        b.high[d] = hi[d];
    }
    space->setBounds(b);
    auto cspace = std::make_shared<oc::RealVectorControlSpace>(space, dim);
    ob::RealVectorBounds cb(dim);
    cb.setLow(-1.0);
    cb.setHigh(1.0);
    cspace->setBounds(cb);
    auto si = std::make_shared<oc::SpaceInformation>(space, cspace);
    si->setStatePropagator([dim](const ob::State *s, const oc::Control *c, const double dt, ob::State *r) {
        for (unsigned d = 0; d < dim; ++d)
            r->as<ob::RealVectorStateSpace::StateType>()->values[d] =
                s->as<ob::RealVectorStateSpace::StateType>()->values[d] +
                dt * c->as<oc::RealVectorControlSpace::ControlType>()->values[d];
    });
    si->setPropagationStepSize(0.05);
    si->setMinMaxControlDuration(1, 5);
    auto vc = std::make_shared<vp::RecordingValidityChecker>(si, env, false);
    si->setStateValidityChecker(vc);
    si->setup();

    auto pdef = std::make_shared<ob::ProblemDefinition>(si);
    for (const auto &st : starts)
    {
        ob::ScopedState<> s(space);
        for (unsigned d = 0; d < dim; ++d)
            s[d] = st[d];
        pdef->addStartState(s);
    }
    auto gs = std::make_shared<ob::GoalState>(si);
    {
        ob::ScopedState<> g(space);
        for (unsigned d = 0; d < dim; ++d)
            g[d] = goal[d];
        gs->setState(g);
    }
    gs->setThreshold(thr);
    pdef->setGoal(gs);

    auto planner = std::make_shared<OpenCEST>(si);
    planner->setProblemDefinition(pdef);
    planner->setProjectionEvaluator(std::make_shared<ob::RealVectorOrthogonalProjectionEvaluator>(space, cellSizes, comps));
    planner->setup();
    planner->seedRng((std::uint_fast32_t)(seed * 7919u + 12345u));

    if (mode == "go")
    {
        auto cnt = std::make_shared<vp::EvalCounter>();
        cnt->fireAt = iters;
        ob::PlannerStatus st = planner->solve(vp::evalCountPtc(cnt));
        std::cout << "status=" << vp::statusName(st) << " | " << planner->dumpTree(true) << " | " << EMPTY_G << std::endl;
        return 0;
    }
    auto fin = [&](const std::string &r) { std::cout << r << " | " << planner->dumpTree(false) << " | " << EMPTY_G << std::endl; };
    while (vp::readLine(line))
    {
        auto t = vp::tokens(line);
        if (t.empty())
            continue;
        const std::string &op = t[0];
        if (op == "add" && t.size() == 3 + dim && t[1] == "s" && t[2] == "-1")
        {
            std::vector<double> x;
            bool ok = true;
            for (unsigned d = 0; d < dim && ok; ++d)
            {
                auto v = vp::parseBits(t[3 + d]);
                if (!v)
                    ok = false;
                else
                    x.push_back(*v);
            }
            if (!ok) { std::cout << "bad-op" << std::endl; continue; }
            fin("m=" + std::to_string(planner->opAdd(x)));
        }
        else if (op == "clear" && t.size() == 1)
        {
            // control::EST::clear(): frees every motion, clears the grid and the PDF; the planner is then used again
            planner->clear();
            planner->ids.clear();
            for (auto &m : planner->byId)
                m = nullptr;
            fin("ok");
        }
        else if (op == "sel" && t.size() == 2 && t[1] == "s")
        {
            if (planner->pdfEmpty()) { fin("empty"); continue; }
            long m = planner->opSelect();
            fin(m == -1 ? std::string("null") : "m=" + std::to_string(m));
        }
        else
            std::cout << "bad-op" << std::endl;
    }
    return 0;
}
