// C20 harness: drives the real ompl::RNG / seed generator and real planners from the current tree.
//
// Two modes, chosen by the header line (one process per script: the seed generator is process-global and
// RNG::setSeed must precede the creation of any RNG, so there is exactly one global seed per process).
//
//  "rng clock=<ignored>"  line protocol shared with the Lean driver drv_rng (see lean/OmplModel/Driver/Rng.lean):
//        clock getseed setseed new newl lseed reseed u01 g01 bool quat rpy u01n g01n ureal gauss hnr uint hni
//     plus implementation-only ops (boost::uniform_on_sphere is not modelled):
//        sphere <k> <dim>            RNG::uniformNormalVector            -> bits…
//        ball <k> <dim> <rbits>      RNG::uniformInBall                  -> bits…
//     Log messages of RNG::setSeed are captured through ompl::msg::OutputHandler.
//
//  "samp"  sampler outputs must not depend on what the output state held before the call (see sampMode()).
//
//  "plan"  each following line runs ONE planner once (normally one line per process):
//        run planner=<name> env=<box2|box3|se2|ctl2|ml3> seed=<s> budget=<n> [trace=1]
//     RNG::setSeed(seed) first, then the problem is built, the planner is run under a termination condition that
//     depends only on counters the planner itself drives (#state-validity evaluations + #propagations >= budget,
//     or #termination-condition polls >= 2*budget+2000); never on time.  Prints
//        status=<n> approx=<b> evals=<n> polls=<n> qhash=<h> path=<len>:<h> pdata=<nv>:<h-in-order>:<h-sorted>
//     qhash hashes every validity query (state bits + answer) and every propagation in order; with trace=1 every
//     query is also printed ("q <i> <answer> <bits…>") so that two diverging runs can be diffed.
//     Environment C20_HEAP_NOISE=<k> fragments the heap first (see heapNoise()); C20_PAD only enlarges the environment.
//     A line "# heap=<addr> stack=<addr>" (not compared; it shows that the address space really moved) precedes it.
#include "common/proto.h"

#include <algorithm>
#include <cmath>
#include <csignal>
#include <cstdlib>
#include <functional>
#include <map>
#include <memory>
#include <unistd.h>

#include <boost/random/normal_distribution.hpp>
#include <boost/random/exponential_distribution.hpp>
#include <ompl/util/RandomNumbers.h>
#include <ompl/util/ProlateHyperspheroid.h>
#include <ompl/util/Console.h>
#include <ompl/base/SpaceInformation.h>
#include <ompl/base/ProblemDefinition.h>
#include <ompl/base/PlannerData.h>
#include <ompl/base/PlannerTerminationCondition.h>
#include <ompl/base/spaces/RealVectorStateSpace.h>
#include <ompl/base/spaces/SE2StateSpace.h>
#include <ompl/base/spaces/DiscreteStateSpace.h>
#include <ompl/base/objectives/PathLengthOptimizationObjective.h>
#include <ompl/base/goals/GoalState.h>
#include <ompl/base/goals/GoalStates.h>
#include <ompl/base/terminationconditions/IterationTerminationCondition.h>
#include <ompl/tools/thunder/SPARSdb.h>
#include <ompl/geometric/PathGeometric.h>
#include <ompl/geometric/planners/rrt/RRT.h>
#include <ompl/geometric/planners/rrt/RRTConnect.h>
#include <ompl/geometric/planners/rrt/RRTstar.h>
#include <ompl/geometric/planners/rrt/InformedRRTstar.h>
#include <ompl/geometric/planners/rrt/LBTRRT.h>
#include <ompl/geometric/planners/rrt/LazyRRT.h>
#include <ompl/geometric/planners/rrt/TRRT.h>
#include <ompl/geometric/planners/rrt/BiTRRT.h>
#include <ompl/geometric/planners/rrt/pRRT.h>
#include <ompl/geometric/planners/prm/PRM.h>
#include <ompl/geometric/planners/prm/PRMstar.h>
#include <ompl/geometric/planners/prm/LazyPRM.h>
#include <ompl/geometric/planners/prm/SPARS.h>
#include <ompl/geometric/planners/prm/SPARStwo.h>
#include <ompl/geometric/planners/kpiece/KPIECE1.h>
#include <ompl/geometric/planners/kpiece/BKPIECE1.h>
#include <ompl/geometric/planners/kpiece/LBKPIECE1.h>
#include <ompl/geometric/planners/est/EST.h>
#include <ompl/geometric/planners/est/BiEST.h>
#include <ompl/geometric/planners/est/ProjEST.h>
#include <ompl/geometric/planners/sbl/SBL.h>
#include <ompl/geometric/planners/sbl/pSBL.h>
#include <ompl/geometric/planners/stride/STRIDE.h>
#include <ompl/geometric/planners/pdst/PDST.h>
#include <ompl/geometric/planners/fmt/FMT.h>
#include <ompl/geometric/planners/fmt/BFMT.h>
#include <ompl/geometric/planners/sst/SST.h>
#include <ompl/geometric/planners/informedtrees/ABITstar.h>
#include <ompl/geometric/planners/informedtrees/AITstar.h>
#include <ompl/geometric/planners/informedtrees/BITstar.h>
#include <ompl/geometric/planners/informedtrees/EITstar.h>
#include <ompl/geometric/planners/informedtrees/EIRMstar.h>
#include <ompl/geometric/planners/rlrt/RLRT.h>
#include <ompl/geometric/planners/rlrt/BiRLRT.h>
#include <ompl/geometric/planners/rrt/RRTXstatic.h>
#include <ompl/geometric/planners/rrt/RRTsharp.h>
#include <ompl/geometric/planners/rrt/SORRTstar.h>
#include <ompl/geometric/planners/rrt/LazyLBTRRT.h>
#include <ompl/geometric/planners/prm/LazyPRMstar.h>
#include <ompl/geometric/planners/cforest/CForest.h>
#include <ompl/geometric/planners/AnytimePathShortening.h>
#include <ompl/control/SpaceInformation.h>
#include <ompl/control/PathControl.h>
#include <ompl/control/spaces/RealVectorControlSpace.h>
#include <ompl/control/planners/rrt/RRT.h>
#include <ompl/control/planners/sst/SST.h>
#include <ompl/control/planners/est/EST.h>
#include <ompl/control/planners/kpiece/KPIECE1.h>
#include <ompl/control/planners/pdst/PDST.h>
#include <ompl/multilevel/planners/qrrt/QRRT.h>
#include <ompl/multilevel/planners/qrrt/QRRTStar.h>
#include <ompl/multilevel/planners/qmp/QMP.h>
#include <ompl/multilevel/planners/qmp/QMPStar.h>

namespace ob = ompl::base;
namespace og = ompl::geometric;
namespace oc = ompl::control;
namespace om = ompl::multilevel;

// ------------------------------------------------------------------------------------------------ rng protocol mode
struct Fnv
{
    uint64_t h = 1469598103934665603ULL;
    void byte(unsigned char c)
    {
        h ^= c;
        h *= 1099511628211ULL;
    }
    void u64(uint64_t v)
    {
        for (int i = 0; i < 8; ++i)
            byte((v >> (8 * i)) & 0xff);
    }
    void dbl(double d)
    {
        uint64_t u;
        std::memcpy(&u, &d, 8);
        u64(u);
    }
    std::string hex() const
    {
        char b[32];
        snprintf(b, sizeof b, "%016lx", (unsigned long)h);
        return b;
    }
};

struct LogCapture : ompl::msg::OutputHandler
{
    std::string last = "silent";
    void log(const std::string &text, ompl::msg::LogLevel level, const char *, int) override
    {
        if (level == ompl::msg::LOG_ERROR && text.find("already started") != std::string::npos)
            last = "error-started";
        else if (level == ompl::msg::LOG_WARN && text.find("Ignoring seed") != std::string::npos)
            last = "warn-zero-ignored";
        else if (level == ompl::msg::LOG_WARN && text.find("Using 1 instead") != std::string::npos)
            last = "warn-zero-using-one";
        else if (level >= ompl::msg::LOG_WARN)
            last = "other:" + text;
    }
};

static std::string joinBits(const std::vector<double> &v)
{
    std::string s;
    for (size_t i = 0; i < v.size(); ++i)
        s += (i ? " " : "") + vp::bits(v[i]);
    return s;
}

static int rngMode()
{
    LogCapture cap;
    ompl::msg::useOutputHandler(&cap);
    ompl::msg::setLogLevel(ompl::msg::LOG_WARN);
    const std::uint_fast32_t clock0 = ompl::RNG::getSeed();  // creates the seed generator; hands out no seed
    std::vector<std::unique_ptr<ompl::RNG>> rngs;
    auto first = [&]() {
        std::uint_fast32_t f = ompl::RNG::getSeed();
        return f == clock0 ? std::string("first=clock") : "first=" + std::to_string(f);
    };
    std::string line;
    while (vp::readLine(line))
    {
        auto t = vp::tokens(line);
        if (t.empty())
            continue;
        const std::string &op = t[0];
        auto rngOf = [&](const std::string &k) -> ompl::RNG * {
            auto n = vp::parseNat(k);
            if (!n || *n >= rngs.size())
                return nullptr;
            return rngs[*n].get();
        };
        // ops that address an RNG: ill-formed index -> bad-op, unknown index -> no-such-rng
        auto withRng = [&](const std::string &k, const std::function<std::string(ompl::RNG &)> &f) {
            if (!vp::parseNat(k))
            {
                std::cout << "bad-op\n";
                return;
            }
            ompl::RNG *r = rngOf(k);
            if (!r)
            {
                std::cout << "no-such-rng\n";
                return;
            }
            std::cout << f(*r) << "\n";
        };
        auto intsOk = [&](const std::string &a, const std::string &b) {
            auto x = vp::parseInt(a), y = vp::parseInt(b);
            // the Lean side does not accept a leading '+'
            if (!x || !y || a[0] == '+' || b[0] == '+')
                return false;
            return *x <= *y && *x >= -1000000000LL && *y <= 1000000000LL;
        };
        // uniformInt accepts the whole int range (upper bound INT_MAX is the boundary fixed by /repo ebb35683a)
        auto intsFull = [&](const std::string &a, const std::string &b) {
            auto x = vp::parseInt(a), y = vp::parseInt(b);
            if (!x || !y || a[0] == '+' || b[0] == '+')
                return false;
            return *x <= *y && *x >= -2147483648LL && *y <= 2147483647LL;
        };
        if (op == "boosttables" && t.size() == 1)
        {
            Fnv h;
            for (int i = 0; i < 129; ++i)
                h.dbl(boost::random::detail::normal_table<double>::table_x[i]);
            for (int i = 0; i < 129; ++i)
                h.dbl(boost::random::detail::normal_table<double>::table_y[i]);
            for (int i = 0; i < 257; ++i)
                h.dbl(boost::random::detail::exponential_table<double>::table_x[i]);
            for (int i = 0; i < 257; ++i)
                h.dbl(boost::random::detail::exponential_table<double>::table_y[i]);
            std::cout << "tables=" << h.h << "\n";
        }
        else if (op == "clock" && t.size() == 1)
            std::cout << "clock=" << clock0 << "\n";
        else if (op == "getseed" && t.size() == 1)
            std::cout << first() << "\n";
        else if (op == "setseed" && t.size() == 2 && vp::parseNat(t[1]))
        {
            cap.last = "silent";
            ompl::RNG::setSeed(*vp::parseNat(t[1]));
            std::cout << "msg=" << cap.last << " " << first() << "\n";
        }
        else if (op == "new" && t.size() == 1)
        {
            rngs.emplace_back(new ompl::RNG());
            std::cout << "id=" << rngs.size() - 1 << " seed=" << rngs.back()->getLocalSeed() << "\n";
        }
        else if (op == "newl" && t.size() == 2 && vp::parseNat(t[1]))
        {
            rngs.emplace_back(new ompl::RNG(*vp::parseNat(t[1])));
            std::cout << "id=" << rngs.size() - 1 << " seed=" << rngs.back()->getLocalSeed() << "\n";
        }
        else if (op == "copy" && t.size() == 2 && vp::parseNat(t[1]))
        {
            ompl::RNG *r = rngOf(t[1]);
            if (!r)
            {
                std::cout << "no-such-rng\n";
                continue;
            }
            rngs.emplace_back(new ompl::RNG(*r));  // implicit copy constructor
            std::cout << "id=" << rngs.size() - 1 << " seed=" << rngs.back()->getLocalSeed() << "\n";
        }
        else if (op == "lseed" && t.size() == 2)
            withRng(t[1], [&](ompl::RNG &r) { return "seed=" + std::to_string(r.getLocalSeed()); });
        else if (op == "reseed" && t.size() == 3 && vp::parseNat(t[2]))
            withRng(t[1], [&](ompl::RNG &r) {
                r.setLocalSeed(*vp::parseNat(t[2]));
                return std::string("ok");
            });
        else if (op == "u01" && t.size() == 2)
            withRng(t[1], [&](ompl::RNG &r) { return vp::bits(r.uniform01()); });
        else if (op == "g01" && t.size() == 2)
            withRng(t[1], [&](ompl::RNG &r) { return vp::bits(r.gaussian01()); });
        else if (op == "bool" && t.size() == 2)
            withRng(t[1], [&](ompl::RNG &r) { return std::string(r.uniformBool() ? "1" : "0"); });
        else if (op == "quat" && t.size() == 2)
            withRng(t[1], [&](ompl::RNG &r) {
                double q[4];
                r.quaternion(q);
                return joinBits({q[0], q[1], q[2], q[3]});
            });
        else if (op == "rpy" && t.size() == 2)
            withRng(t[1], [&](ompl::RNG &r) {
                double q[3];
                r.eulerRPY(q);
                return joinBits({q[0], q[1], q[2]});
            });
        else if ((op == "u01n" || op == "g01n") && t.size() == 3)
        {
            auto n = vp::parseNat(t[2]);
            if (!n || !vp::parseNat(t[1]) || *n > 100000)
            {
                std::cout << "bad-op\n";
                continue;
            }
            withRng(t[1], [&](ompl::RNG &r) {
                std::string s = "n";
                for (size_t i = 0; i < *n; ++i)
                    s += " " + vp::bits(op == "u01n" ? r.uniform01() : r.gaussian01());
                return s;
            });
        }
        else if (op == "ureal" && t.size() == 4 && vp::parseBits(t[2]) && vp::parseBits(t[3]))
            withRng(t[1], [&](ompl::RNG &r) { return vp::bits(r.uniformReal(*vp::parseBits(t[2]), *vp::parseBits(t[3]))); });
        else if (op == "gauss" && t.size() == 4 && vp::parseBits(t[2]) && vp::parseBits(t[3]))
            withRng(t[1], [&](ompl::RNG &r) { return vp::bits(r.gaussian(*vp::parseBits(t[2]), *vp::parseBits(t[3]))); });
        else if (op == "hnr" && t.size() == 5 && vp::parseBits(t[2]) && vp::parseBits(t[3]) && vp::parseBits(t[4]))
            withRng(t[1], [&](ompl::RNG &r) {
                return vp::bits(r.halfNormalReal(*vp::parseBits(t[2]), *vp::parseBits(t[3]), *vp::parseBits(t[4])));
            });
        else if (op == "uint" && t.size() == 4 && intsFull(t[2], t[3]))
            withRng(t[1], [&](ompl::RNG &r) {
                return std::to_string(r.uniformInt((int)*vp::parseInt(t[2]), (int)*vp::parseInt(t[3])));
            });
        else if (op == "hni" && t.size() == 5 && intsFull(t[2], t[3]) && vp::parseBits(t[4]))
            withRng(t[1], [&](ompl::RNG &r) {
                return std::to_string(
                    r.halfNormalInt((int)*vp::parseInt(t[2]), (int)*vp::parseInt(t[3]), *vp::parseBits(t[4])));
            });
        else if ((op == "phs" || op == "phss") && t.size() >= 4 && vp::parseNat(t[2]) && *vp::parseNat(t[2]) >= 2 &&
                 *vp::parseNat(t[2]) <= 16 && vp::parseBits(t[3]))
        {
            // uniformProlateHyperspheroid[Surface]: foci (-0.5,0,…), (0.5,0,…), transverse diameter d.  The extra tokens
            // are the unit-ball / sphere point the MODEL computed; this line reads "pre <those bits>" exactly when the
            // real output equals ProlateHyperspheroid::transform of that point.
            const unsigned n = *vp::parseNat(t[2]);
            if (!vp::parseNat(t[1]))
            {
                std::cout << "bad-op\n";
                continue;
            }
            ompl::RNG *r = rngOf(t[1]);
            if (!r)
            {
                std::cout << "no-such-rng\n";
                continue;
            }
            std::vector<double> f1(n, 0.0), f2(n, 0.0), out(n), pre, out2(n);
            f1[0] = -0.5;
            f2[0] = 0.5;
            auto phs = std::make_shared<ompl::ProlateHyperspheroid>(n, f1.data(), f2.data());
            phs->setTransverseDiameter(*vp::parseBits(t[3]));
            if (op == "phs")
                r->uniformProlateHyperspheroid(phs, out.data());
            else
                r->uniformProlateHyperspheroidSurface(phs, out.data());
            bool ok = t.size() == 4 + n;
            for (size_t i = 4; ok && i < t.size(); ++i)
            {
                auto b = vp::parseBits(t[i]);
                if (!b)
                    ok = false;
                else
                    pre.push_back(*b);
            }
            if (ok)
            {
                phs->transform(pre.data(), out2.data());
                ok = std::memcmp(out.data(), out2.data(), n * sizeof(double)) == 0;
            }
            if (ok)
                std::cout << "pre " << joinBits(pre) << "\n";
            else
                std::cout << "out " << joinBits(out) << (pre.size() == n ? " transform(pre) " + joinBits(out2) : std::string(" (no pre given)"))
                          << "\n";
        }
        else if (op == "shuffle" && t.size() == 3 && vp::parseNat(t[1]) && vp::parseNat(t[2]))
        {
            if (*vp::parseNat(t[2]) > 5000)
            {
                std::cout << "bad-op\n";
                continue;
            }
            withRng(t[1], [&](ompl::RNG &r) {
                std::vector<int> v(*vp::parseNat(t[2]));
                for (size_t i = 0; i < v.size(); ++i)
                    v[i] = (int)i;
                r.shuffle(v.begin(), v.end());
                std::string s = "perm";
                for (int x : v)
                    s += " " + std::to_string(x);
                return s;
            });
        }
        else if (op == "sphere" && t.size() == 3 && vp::parseNat(t[2]) && *vp::parseNat(t[2]) >= 1 &&
                 *vp::parseNat(t[2]) <= 64)
            withRng(t[1], [&](ompl::RNG &r) {
                std::vector<double> v(*vp::parseNat(t[2]));
                r.uniformNormalVector(v);
                return joinBits(v);
            });
        else if (op == "ball" && t.size() == 4 && vp::parseNat(t[2]) && *vp::parseNat(t[2]) >= 1 &&
                 *vp::parseNat(t[2]) <= 64 && vp::parseBits(t[3]))
            withRng(t[1], [&](ompl::RNG &r) {
                std::vector<double> v(*vp::parseNat(t[2]));
                r.uniformInBall(*vp::parseBits(t[3]), v);
                return joinBits(v);
            });
        else
            std::cout << "bad-op\n";
    }
    ompl::msg::useOutputHandler(nullptr);
    return 0;
}

// ------------------------------------------------------------------------------------------------ planner mode

struct Counters
{
    unsigned long evals = 0, polls = 0, budget = 0;
    Fnv q;
    bool trace = false;
    void query(const std::vector<double> &reals, int answer, const char *kind)
    {
        for (double d : reals)
            q.dbl(d);
        q.byte((unsigned char)answer);
        if (trace)
            std::cout << kind << " " << evals << " " << answer << " " << joinBits(reals) << "\n";
        ++evals;
    }
};

// an assert() inside libompl (the cached build keeps assertions on) ends the run; report how far the run got so that
// two processes can still be compared up to that point
static Counters *g_counters = nullptr;
static void onAbort(int)
{
    char b[160];
    int n = snprintf(b, sizeof b, "aborted evals=%lu polls=%lu qhash=%s\n", g_counters ? g_counters->evals : 0UL,
                     g_counters ? g_counters->polls : 0UL, g_counters ? g_counters->q.hex().c_str() : "-");
    fflush(stdout);
    if (n > 0 && write(1, b, (size_t)n) < 0)
    {
    }
    _exit(134);
}

struct Box
{
    std::vector<double> lo, hi;
};

// axis-aligned boxes in the first lo.size() coordinates of the state's real vector
class BoxChecker : public ob::StateValidityChecker
{
public:
    BoxChecker(const ob::SpaceInformationPtr &si, std::vector<Box> boxes, Counters *c)
      : ob::StateValidityChecker(si), boxes_(std::move(boxes)), c_(c)
    {
    }
    bool isValid(const ob::State *s) const override
    {
        std::vector<double> r;
        si_->getStateSpace()->copyToReals(r, s);
        bool ok = si_->satisfiesBounds(s);
        for (const Box &b : boxes_)
        {
            bool in = true;
            for (size_t i = 0; i < b.lo.size() && i < r.size(); ++i)
                if (r[i] < b.lo[i] || r[i] > b.hi[i])
                    in = false;
            if (in)
                ok = false;
        }
        c_->query(r, ok ? 1 : 0, "q");
        return ok;
    }

private:
    std::vector<Box> boxes_;
    Counters *c_;
};

static std::vector<Box> boxesFor(unsigned dim)
{
    std::vector<Box> b;
    if (dim == 1)
        return b;
    // a wall with a gap, a block in the middle, a small block near the goal (first two coordinates);
    // in 3-D the blocks are bounded in z as well so that there is a way over them
    auto mk = [&](double x0, double y0, double x1, double y1, double z0, double z1) {
        Box bx;
        bx.lo = {x0, y0};
        bx.hi = {x1, y1};
        if (dim >= 3)
        {
            bx.lo.push_back(z0);
            bx.hi.push_back(z1);
        }
        b.push_back(bx);
    };
    mk(0.30, 0.00, 0.36, 0.62, 0.0, 0.8);
    mk(0.30, 0.74, 0.36, 1.00, 0.0, 1.0);
    mk(0.55, 0.35, 0.75, 0.65, 0.2, 1.0);
    mk(0.80, 0.70, 0.86, 0.86, 0.0, 0.6);
    return b;
}

struct Problem
{
    std::vector<ob::SpaceInformationPtr> sis;  // multilevel: lowest-dimensional first; last one is the full problem
    ob::SpaceInformationPtr si;
    std::shared_ptr<oc::SpaceInformation> csi;
    ob::ProblemDefinitionPtr pdef;
};

// Freshly allocated states are uninitialised by contract.  To make "what a fresh state happens to contain" a controlled,
// process-specific input (independent of malloc internals), the planner problems use these subclasses, whose allocState()
// leaves an in-bounds filler chosen by C20_STATE_FILL=<1|2> in every new state (unset: plain allocState).
static int stateFill()
{
    static const int k = [] {
        const char *e = getenv("C20_STATE_FILL");
        return e ? atoi(e) : 0;
    }();
    return k;
}
class FillRV : public ob::RealVectorStateSpace
{
public:
    using ob::RealVectorStateSpace::RealVectorStateSpace;
    ob::State *allocState() const override
    {
        ob::State *s = ob::RealVectorStateSpace::allocState();
        if (int k = stateFill())
            for (unsigned i = 0; i < getDimension(); ++i)
                s->as<StateType>()->values[i] = (k == 1 ? 0.137 : 0.861) - 0.01 * i;
        return s;
    }
};
class FillSO2 : public ob::SO2StateSpace
{
public:
    ob::State *allocState() const override
    {
        ob::State *s = ob::SO2StateSpace::allocState();
        if (int k = stateFill())
            s->as<StateType>()->value = (k == 1 ? 0.5 : -2.1);
        return s;
    }
};

// projection of the compound spaces below: the positional (first) component
class FirstCompProj : public ob::ProjectionEvaluator
{
public:
    FirstCompProj(const ob::StateSpace *space, unsigned dim) : ob::ProjectionEvaluator(space), dim_(dim)
    {
    }
    unsigned int getDimension() const override
    {
        return dim_;
    }
    void defaultCellSizes() override
    {
        cellSizes_.assign(dim_, 0.1);
    }
    void project(const ob::State *state, Eigen::Ref<Eigen::VectorXd> projection) const override
    {
        const double *v = state->as<ob::CompoundState>()->components[0]->as<ob::RealVectorStateSpace::StateType>()->values;
        for (unsigned i = 0; i < dim_; ++i)
            projection[i] = v[i];
    }

private:
    unsigned dim_;
};

static std::shared_ptr<FillRV> unitRV(unsigned dim)
{
    auto space = std::make_shared<FillRV>(dim);
    ob::RealVectorBounds bounds(dim);
    bounds.setLow(0.);
    bounds.setHigh(1.);
    space->setBounds(bounds);
    return space;
}

// positional part (weight 1) next to a ZERO-weight SO(2) component and a 1e-300-weight real component
// (LTLSpaceInformation-style spaces carry such bookkeeping components)
static ob::StateSpacePtr zeroWeightCompound(unsigned dim)
{
    auto cs = std::make_shared<ob::CompoundStateSpace>();
    cs->addSubspace(unitRV(dim), 1.0);
    cs->addSubspace(std::make_shared<FillSO2>(), 0.0);
    cs->addSubspace(unitRV(1), 1e-300);
    cs->registerDefaultProjection(std::make_shared<FirstCompProj>(cs.get(), dim));
    cs->lock();
    return cs;
}

static void setCompound(ob::ScopedState<> &st, unsigned dim, double xy, double yaw, double z)
{
    for (unsigned i = 0; i < dim; ++i)
        st[i] = xy;
    st[dim] = yaw;
    st[dim + 1] = z;
}

static ob::SpaceInformationPtr rvSpace(unsigned dim, Counters *c)
{
    auto space = std::make_shared<FillRV>(dim);
    ob::RealVectorBounds bounds(dim);
    bounds.setLow(0.);
    bounds.setHigh(1.);
    space->setBounds(bounds);
    auto si = std::make_shared<ob::SpaceInformation>(space);
    si->setStateValidityChecker(std::make_shared<BoxChecker>(si, boxesFor(dim), c));
    si->setStateValidityCheckingResolution(0.02);
    return si;
}

// ---- tie-rich spaces: exact distance / cost ties are the normal case here (grid worlds, mode variables, states with few
// representable positions).  Which of several exactly equidistant neighbours a nearest-neighbour structure returns, and
// in which order, must be a function of the program alone.
class GridChecker : public ob::StateValidityChecker
{
public:
    GridChecker(const ob::SpaceInformationPtr &si, Counters *c) : ob::StateValidityChecker(si), c_(c)
    {
    }
    bool isValid(const ob::State *s) const override
    {
        const auto *cs = s->as<ob::CompoundState>();
        const int x = cs->components[0]->as<ob::DiscreteStateSpace::StateType>()->value;
        const int y = cs->components[1]->as<ob::DiscreteStateSpace::StateType>()->value;
        bool ok = si_->satisfiesBounds(s) && !(x == 20 && y <= 44) && !(x == 40 && y >= 15);
        c_->query({(double)x, (double)y}, ok ? 1 : 0, "q");
        return ok;
    }

private:
    Counters *c_;
};
class GridProj : public ob::ProjectionEvaluator
{
public:
    GridProj(const ob::StateSpace *space) : ob::ProjectionEvaluator(space)
    {
    }
    unsigned int getDimension() const override
    {
        return 2;
    }
    void defaultCellSizes() override
    {
        cellSizes_.assign(2, 4.0);
    }
    void project(const ob::State *state, Eigen::Ref<Eigen::VectorXd> projection) const override
    {
        const auto *cs = state->as<ob::CompoundState>();
        projection[0] = cs->components[0]->as<ob::DiscreteStateSpace::StateType>()->value;
        projection[1] = cs->components[1]->as<ob::DiscreteStateSpace::StateType>()->value;
    }
};
static double snap32(double v)
{
    return std::round(v * 32.0) / 32.0;
}
class SnapSampler : public ob::RealVectorStateSampler
{
public:
    using ob::RealVectorStateSampler::RealVectorStateSampler;
    void snap(ob::State *s)
    {
        double *v = s->as<ob::RealVectorStateSpace::StateType>()->values;
        for (unsigned i = 0; i < space_->getDimension(); ++i)
            v[i] = std::min(1.0, std::max(0.0, snap32(v[i])));
    }
    void sampleUniform(ob::State *s) override
    {
        ob::RealVectorStateSampler::sampleUniform(s);
        snap(s);
    }
    void sampleUniformNear(ob::State *s, const ob::State *near, double d) override
    {
        ob::RealVectorStateSampler::sampleUniformNear(s, near, d);
        snap(s);
    }
    void sampleGaussian(ob::State *s, const ob::State *mean, double sd) override
    {
        ob::RealVectorStateSampler::sampleGaussian(s, mean, sd);
        snap(s);
    }
};
// a real vector space with 33 representable positions per axis: samples and interpolated states are snapped to k/32
class LatticeRV : public FillRV
{
public:
    using FillRV::FillRV;
    ob::StateSamplerPtr allocDefaultStateSampler() const override
    {
        return std::make_shared<SnapSampler>(this);
    }
    void interpolate(const ob::State *from, const ob::State *to, double t, ob::State *state) const override
    {
        ob::RealVectorStateSpace::interpolate(from, to, t, state);
        double *v = state->as<StateType>()->values;
        for (unsigned i = 0; i < getDimension(); ++i)
            v[i] = snap32(v[i]);
    }
};

static bool buildProblem(const std::string &env, Counters *c, Problem &p)
{
    if (env == "grid")
    {
        auto cs = std::make_shared<ob::CompoundStateSpace>();
        cs->addSubspace(std::make_shared<ob::DiscreteStateSpace>(0, 59), 1.0);
        cs->addSubspace(std::make_shared<ob::DiscreteStateSpace>(0, 59), 1.0);
        cs->registerDefaultProjection(std::make_shared<GridProj>(cs.get()));
        cs->lock();
        p.si = std::make_shared<ob::SpaceInformation>(cs);
        p.si->setStateValidityChecker(std::make_shared<GridChecker>(p.si, c));
        p.si->setStateValidityCheckingResolution(0.02);
        p.sis.push_back(p.si);
        ob::ScopedState<ob::CompoundStateSpace> start(cs), goal(cs);
        start->as<ob::DiscreteStateSpace::StateType>(0)->value = 5;
        start->as<ob::DiscreteStateSpace::StateType>(1)->value = 5;
        goal->as<ob::DiscreteStateSpace::StateType>(0)->value = 54;
        goal->as<ob::DiscreteStateSpace::StateType>(1)->value = 54;
        p.pdef = std::make_shared<ob::ProblemDefinition>(p.si);
        p.pdef->setStartAndGoalStates(start, goal, 0.5);
    }
    else if (env == "box3z")
    {
        // a planar problem posed in a 3-D real vector space whose third coordinate is pinned by its bounds (zero extent);
        // the default projection of a space with more than two dimensions is a random linear one, computed from the bounds
        auto space = std::make_shared<FillRV>(3);
        ob::RealVectorBounds bounds(3);
        bounds.setLow(0.);
        bounds.setHigh(1.);
        bounds.low[2] = bounds.high[2] = 0.5;
        space->setBounds(bounds);
        p.si = std::make_shared<ob::SpaceInformation>(space);
        p.si->setStateValidityChecker(std::make_shared<BoxChecker>(p.si, boxesFor(2), c));
        p.si->setStateValidityCheckingResolution(0.02);
        p.sis.push_back(p.si);
        ob::ScopedState<> start(space), goal(space);
        start[0] = start[1] = 0.1;
        goal[0] = goal[1] = 0.9;
        start[2] = goal[2] = 0.5;
        p.pdef = std::make_shared<ob::ProblemDefinition>(p.si);
        p.pdef->setStartAndGoalStates(start, goal, 0.02);
    }
    else if (env == "lat2")
    {
        auto space = std::make_shared<LatticeRV>(2);
        ob::RealVectorBounds bounds(2);
        bounds.setLow(0.);
        bounds.setHigh(1.);
        space->setBounds(bounds);
        p.si = std::make_shared<ob::SpaceInformation>(space);
        p.si->setStateValidityChecker(std::make_shared<BoxChecker>(p.si, boxesFor(2), c));
        p.si->setStateValidityCheckingResolution(0.02);
        p.sis.push_back(p.si);
        ob::ScopedState<> start(space), goal(space);
        start[0] = start[1] = 3.0 / 32.0;
        goal[0] = goal[1] = 29.0 / 32.0;
        p.pdef = std::make_shared<ob::ProblemDefinition>(p.si);
        p.pdef->setStartAndGoalStates(start, goal, 0.02);
    }
    else if (env == "box2" || env == "box3" || env == "ml3")
    {
        unsigned dim = env == "box2" ? 2 : 3;
        if (env == "ml3")
        {
            auto s2 = rvSpace(2, c);
            s2->getStateSpace()->setup();
            p.sis.push_back(s2);
        }
        p.si = rvSpace(dim, c);
        p.sis.push_back(p.si);
        ob::ScopedState<> start(p.si->getStateSpace()), goal(p.si->getStateSpace());
        for (unsigned i = 0; i < dim; ++i)
        {
            start[i] = 0.1;
            goal[i] = 0.9;
        }
        p.pdef = std::make_shared<ob::ProblemDefinition>(p.si);
        p.pdef->setStartAndGoalStates(start, goal, 0.02);
    }
    else if (env == "se2")
    {
        auto space = std::make_shared<ob::SE2StateSpace>();
        ob::RealVectorBounds bounds(2);
        bounds.setLow(0.);
        bounds.setHigh(1.);
        space->setBounds(bounds);
        p.si = std::make_shared<ob::SpaceInformation>(space);
        p.si->setStateValidityChecker(std::make_shared<BoxChecker>(p.si, boxesFor(2), c));
        p.si->setStateValidityCheckingResolution(0.02);
        p.sis.push_back(p.si);
        ob::ScopedState<ob::SE2StateSpace> start(space), goal(space);
        start->setXY(0.1, 0.1);
        start->setYaw(0.0);
        goal->setXY(0.9, 0.9);
        goal->setYaw(1.0);
        p.pdef = std::make_shared<ob::ProblemDefinition>(p.si);
        p.pdef->setStartAndGoalStates(start, goal, 0.05);
    }
    else if (env == "cz2" || env == "cz3")
    {
        unsigned dim = env == "cz2" ? 2 : 3;
        auto space = zeroWeightCompound(dim);
        p.si = std::make_shared<ob::SpaceInformation>(space);
        p.si->setStateValidityChecker(std::make_shared<BoxChecker>(p.si, boxesFor(dim), c));
        p.si->setStateValidityCheckingResolution(0.02);
        p.sis.push_back(p.si);
        ob::ScopedState<> start(space), goal(space);
        setCompound(start, dim, 0.1, 0.3, 0.5);
        setCompound(goal, dim, 0.9, -1.0, 0.25);
        p.pdef = std::make_shared<ob::ProblemDefinition>(p.si);
        p.pdef->setStartAndGoalStates(start, goal, 0.05);
    }
    else if (env == "ctlz")
    {
        auto space = zeroWeightCompound(2);
        auto cspace = std::make_shared<oc::RealVectorControlSpace>(space, 2);
        ob::RealVectorBounds cb(2);
        cb.setLow(-1.);
        cb.setHigh(1.);
        cspace->setBounds(cb);
        p.csi = std::make_shared<oc::SpaceInformation>(space, cspace);
        p.si = p.csi;
        p.csi->setStateValidityChecker(std::make_shared<BoxChecker>(p.csi, boxesFor(2), c));
        p.csi->setStatePropagator([c](const ob::State *s, const oc::Control *u, const double dt, ob::State *out) {
            auto *cs = s->as<ob::CompoundState>();
            const double *x = cs->components[0]->as<ob::RealVectorStateSpace::StateType>()->values;
            double yaw = cs->components[1]->as<ob::SO2StateSpace::StateType>()->value;
            double z = cs->components[2]->as<ob::RealVectorStateSpace::StateType>()->values[0];
            const double *v = u->as<oc::RealVectorControlSpace::ControlType>()->values;
            double a = x[0] + v[0] * dt, b = x[1] + v[1] * dt;
            c->query({x[0], x[1], yaw, z, v[0], v[1], dt}, 2, "p");
            auto *co = out->as<ob::CompoundState>();
            co->components[0]->as<ob::RealVectorStateSpace::StateType>()->values[0] = a;
            co->components[0]->as<ob::RealVectorStateSpace::StateType>()->values[1] = b;
            double ny = yaw + 0.5 * dt * v[0];
            if (ny > 3.0)
                ny -= 6.0;
            if (ny < -3.0)
                ny += 6.0;
            co->components[1]->as<ob::SO2StateSpace::StateType>()->value = ny;
            co->components[2]->as<ob::RealVectorStateSpace::StateType>()->values[0] = z;
        });
        p.csi->setPropagationStepSize(0.02);
        p.csi->setMinMaxControlDuration(1, 10);
        p.sis.push_back(p.si);
        ob::ScopedState<> start(space), goal(space);
        setCompound(start, 2, 0.1, 0.3, 0.5);
        setCompound(goal, 2, 0.9, -1.0, 0.25);
        p.pdef = std::make_shared<ob::ProblemDefinition>(p.si);
        p.pdef->setStartAndGoalStates(start, goal, 0.05);
    }
    else if (env == "ctl2")
    {
        auto space = unitRV(2);
        auto cspace = std::make_shared<oc::RealVectorControlSpace>(space, 2);
        ob::RealVectorBounds cb(2);
        cb.setLow(-1.);
        cb.setHigh(1.);
        cspace->setBounds(cb);
        p.csi = std::make_shared<oc::SpaceInformation>(space, cspace);
        p.si = p.csi;
        p.csi->setStateValidityChecker(std::make_shared<BoxChecker>(p.csi, boxesFor(2), c));
        p.csi->setStatePropagator([c](const ob::State *s, const oc::Control *u, const double dt, ob::State *out) {
            const double *x = s->as<ob::RealVectorStateSpace::StateType>()->values;
            const double *v = u->as<oc::RealVectorControlSpace::ControlType>()->values;
            double a = x[0] + v[0] * dt, b = x[1] + v[1] * dt;
            c->query({x[0], x[1], v[0], v[1], dt}, 2, "p");
            out->as<ob::RealVectorStateSpace::StateType>()->values[0] = a;
            out->as<ob::RealVectorStateSpace::StateType>()->values[1] = b;
        });
        p.csi->setPropagationStepSize(0.02);
        p.csi->setMinMaxControlDuration(1, 10);
        p.sis.push_back(p.si);
        ob::ScopedState<> start(space), goal(space);
        start[0] = start[1] = 0.1;
        goal[0] = goal[1] = 0.9;
        p.pdef = std::make_shared<ob::ProblemDefinition>(p.si);
        p.pdef->setStartAndGoalStates(start, goal, 0.05);
    }
    else
        return false;
    p.pdef->setOptimizationObjective(std::make_shared<ob::PathLengthOptimizationObjective>(p.si));
    for (auto &s : p.sis)
        s->setup();  // computes the value locations copyToReals relies on
    return true;
}


// ---- decompositions for Syclop (control) and XXL (geometric, SE(2)) ----
#include <ompl/control/planners/syclop/SyclopRRT.h>
#include <ompl/control/planners/syclop/SyclopEST.h>
#include <ompl/control/planners/syclop/GridDecomposition.h>
#include <ompl/geometric/planners/xxl/XXL.h>
#include <ompl/geometric/planners/xxl/XXLPlanarDecomposition.h>

// 4x4 grid over the two leading real coordinates of the state (works for RealVector and for the zero-weight compound)
class LeadingXYDecomposition : public oc::GridDecomposition
{
public:
    LeadingXYDecomposition(const ob::StateSpacePtr &space, const ob::RealVectorBounds &b)
      : oc::GridDecomposition(4, 2, b), space_(space)
    {
    }
    void project(const ob::State *s, std::vector<double> &coord) const override
    {
        std::vector<double> r;
        space_->copyToReals(r, s);
        coord = {r[0], r[1]};
    }
    void sampleFullState(const ob::StateSamplerPtr &sampler, const std::vector<double> &coord, ob::State *s) const override
    {
        sampler->sampleUniform(s);
        std::vector<double> r;
        space_->copyToReals(r, s);
        r[0] = coord[0];
        r[1] = coord[1];
        space_->copyFromReals(s, r);
    }

private:
    ob::StateSpacePtr space_;
};

// point "robot" in SE(2): one layer, the state's own (x, y, yaw)
class PointSE2Decomposition : public og::XXLPlanarDecomposition
{
public:
    PointSE2Decomposition(const ob::StateSpacePtr &space, const ob::RealVectorBounds &b)
      : og::XXLPlanarDecomposition(b, {4, 4}, 2), space_(space)
    {
    }
    int numLayers() const override
    {
        return 1;
    }
    bool sampleFromRegion(int r, ob::State *s, const ob::State *seed = nullptr) const override
    {
        return sampleFromRegion(r, s, seed, 0);
    }
    bool sampleFromRegion(int r, ob::State *s, const ob::State *, int) const override
    {
        std::vector<double> coord(3);
        sampleCoordinateFromRegion(r, coord);
        auto *se2 = s->as<ob::SE2StateSpace::StateType>();
        se2->setXY(coord[0], coord[1]);
        se2->setYaw(coord[2]);
        return true;
    }
    void project(const ob::State *s, std::vector<double> &coord, int = 0) const override
    {
        auto *se2 = s->as<ob::SE2StateSpace::StateType>();
        coord = {se2->getX(), se2->getY(), se2->getYaw()};
    }
    void project(const ob::State *s, std::vector<int> &layers) const override
    {
        std::vector<double> coord;
        project(s, coord, 0);
        layers = {coordToRegion(coord)};
    }

private:
    ob::StateSpacePtr space_;
};

static ob::RealVectorBounds unitBounds2()
{
    ob::RealVectorBounds b(2);
    b.setLow(0.);
    b.setHigh(1.);
    return b;
}

using Factory = std::function<ob::PlannerPtr(Problem &)>;

template <class T>
static Factory geo()
{
    return [](Problem &p) -> ob::PlannerPtr { return p.csi ? nullptr : std::make_shared<T>(p.si); };
}
template <class T>
static Factory ctl()
{
    return [](Problem &p) -> ob::PlannerPtr { return p.csi ? std::make_shared<T>(p.csi) : nullptr; };
}
template <class T>
static Factory mlv()
{
    return [](Problem &p) -> ob::PlannerPtr { return p.csi ? nullptr : std::make_shared<T>(p.sis); };
}

static const std::map<std::string, Factory> &factories()
{
    static const std::map<std::string, Factory> f = {
        {"RRT", geo<og::RRT>()},
        {"RRTConnect", geo<og::RRTConnect>()},
        {"RRTstar", geo<og::RRTstar>()},
        {"InformedRRTstar", geo<og::InformedRRTstar>()},
        {"SORRTstar", geo<og::SORRTstar>()},
        {"RRTsharp", geo<og::RRTsharp>()},
        {"RRTXstatic", geo<og::RRTXstatic>()},
        {"LBTRRT", geo<og::LBTRRT>()},
        {"LazyLBTRRT", geo<og::LazyLBTRRT>()},
        {"LazyRRT", geo<og::LazyRRT>()},
        {"TRRT", geo<og::TRRT>()},
        {"BiTRRT", geo<og::BiTRRT>()},
        {"PRM", geo<og::PRM>()},
        {"PRMstar", geo<og::PRMstar>()},
        {"LazyPRM", geo<og::LazyPRM>()},
        {"LazyPRMstar", geo<og::LazyPRMstar>()},
        {"SPARS", geo<og::SPARS>()},
        {"SPARStwo", geo<og::SPARStwo>()},
        {"KPIECE1", geo<og::KPIECE1>()},
        {"BKPIECE1", geo<og::BKPIECE1>()},
        {"LBKPIECE1", geo<og::LBKPIECE1>()},
        {"EST", geo<og::EST>()},
        {"BiEST", geo<og::BiEST>()},
        {"ProjEST", geo<og::ProjEST>()},
        {"SBL", geo<og::SBL>()},
        {"pSBL", geo<og::pSBL>()},
        {"pRRT", geo<og::pRRT>()},
        {"STRIDE", geo<og::STRIDE>()},
        {"PDST", geo<og::PDST>()},
        {"FMT", geo<og::FMT>()},
        {"BFMT", geo<og::BFMT>()},
        {"BITstar", geo<og::BITstar>()},
        {"ABITstar", geo<og::ABITstar>()},
        {"AITstar", geo<og::AITstar>()},
        {"EITstar", geo<og::EITstar>()},
        {"EIRMstar", geo<og::EIRMstar>()},
        {"SST", geo<og::SST>()},
        {"RLRT", geo<og::RLRT>()},
        {"BiRLRT", geo<og::BiRLRT>()},
        {"CForest", geo<og::CForest>()},
        {"AnytimePathShortening", geo<og::AnytimePathShortening>()},
        {"RRT+is", [](Problem &p) -> ob::PlannerPtr {
             if (p.csi)
                 return nullptr;
             auto pl = std::make_shared<og::RRT>(p.si, true);
             return pl;
         }},
        {"RRTConnect+is", [](Problem &p) -> ob::PlannerPtr {
             if (p.csi)
                 return nullptr;
             auto pl = std::make_shared<og::RRTConnect>(p.si, true);
             return pl;
         }},
        {"control::RRT+is", [](Problem &p) -> ob::PlannerPtr {
             if (!p.csi)
                 return nullptr;
             auto pl = std::make_shared<oc::RRT>(p.csi);
             pl->setIntermediateStates(true);
             return pl;
         }},
        {"PRM:growexpand", geo<og::PRM>()},
        {"PRMstar:growexpand", geo<og::PRMstar>()},
        {"SPARS:construct", geo<og::SPARS>()},
        {"SPARStwo:construct", geo<og::SPARStwo>()},
        {"SPARSdb:addpath", geo<ompl::geometric::SPARSdb>()},
        {"control::SyclopRRT", [](Problem &p) -> ob::PlannerPtr {
             if (!p.csi)
                 return nullptr;
             auto pl = std::make_shared<oc::SyclopRRT>(
                 p.csi, std::make_shared<LeadingXYDecomposition>(p.csi->getStateSpace(), unitBounds2()));
             pl->setNumFreeVolumeSamples(300);  // the default 100000 validity checks would eat every budget
             return pl;
         }},
        {"control::SyclopEST", [](Problem &p) -> ob::PlannerPtr {
             if (!p.csi)
                 return nullptr;
             auto pl = std::make_shared<oc::SyclopEST>(
                 p.csi, std::make_shared<LeadingXYDecomposition>(p.csi->getStateSpace(), unitBounds2()));
             pl->setNumFreeVolumeSamples(300);  // the default 100000 validity checks would eat every budget
             return pl;
         }},
        {"XXL", [](Problem &p) -> ob::PlannerPtr {
             if (p.csi || !dynamic_cast<ob::SE2StateSpace *>(p.si->getStateSpace().get()))
                 return nullptr;
             return std::make_shared<og::XXL>(
                 p.si, std::make_shared<PointSE2Decomposition>(p.si->getStateSpace(), unitBounds2()));
         }},
        {"control::RRT", ctl<oc::RRT>()},
        {"control::SST", ctl<oc::SST>()},
        {"control::EST", ctl<oc::EST>()},
        {"control::KPIECE1", ctl<oc::KPIECE1>()},
        {"control::PDST", ctl<oc::PDST>()},
        {"QRRT", mlv<om::QRRT>()},
        {"QRRTStar", mlv<om::QRRTStar>()},
        {"QMP", mlv<om::QMP>()},
        {"QMPStar", mlv<om::QMPStar>()},
    };
    return f;
}

static std::string hashStates(const ob::StateSpacePtr &space, const std::vector<const ob::State *> &states, bool sorted)
{
    std::vector<std::vector<double>> rs;
    for (const ob::State *s : states)
    {
        std::vector<double> r;
        if (s)
            space->copyToReals(r, s);
        if (s && r.empty())
        {
            // spaces without real-valued components (discrete): the serialized bytes stand in for the coordinates
            std::vector<unsigned char> b(space->getSerializationLength());
            space->serialize(b.data(), s);
            r.assign(b.begin(), b.end());
        }
        rs.push_back(r);
    }
    if (sorted)
    {
        // order by bit pattern (total, NaN-safe)
        auto key = [](const std::vector<double> &v) {
            std::vector<uint64_t> k;
            for (double d : v)
            {
                uint64_t u;
                std::memcpy(&u, &d, 8);
                k.push_back(u);
            }
            return k;
        };
        std::sort(rs.begin(), rs.end(), [&](const auto &a, const auto &b) { return key(a) < key(b); });
    }
    Fnv h;
    for (auto &r : rs)
    {
        h.u64(r.size());
        for (double d : r)
            h.dbl(d);
    }
    return h.hex();
}

static std::map<std::string, std::string> kv(const std::vector<std::string> &t)
{
    std::map<std::string, std::string> m;
    for (size_t i = 1; i < t.size(); ++i)
    {
        auto p = t[i].find('=');
        if (p == std::string::npos)
        {
            m["?"] = "1";
            continue;
        }
        m[t[i].substr(0, p)] = t[i].substr(p + 1);
    }
    return m;
}

// ASLR moves the whole heap by one offset, which leaves the *relative* position of all allocations — and with it the
// collision pattern and iteration order of pointer-keyed hash containers and the outcome of pointer comparisons —
// unchanged.  C20_HEAP_NOISE=<k> makes this process allocate and partly free a k-dependent set of blocks first, so
// that the planner's later allocations land at different relative addresses (as they would in any program that does
// anything else beforehand).  Nothing else reads the variable.
static std::vector<void *> g_noise;
static void heapNoise()
{
    const char *e = getenv("C20_HEAP_NOISE");
    if (!e)
        return;
    unsigned long x = std::strtoul(e, nullptr, 10);
    if (x == 0)
        return;
    std::vector<void *> tmp;
    for (int i = 0; i < 3000; ++i)
    {
        x = x * 6364136223846793005UL + 1442695040888963407UL;
        size_t sz = 16 + ((x >> 33) % 2040);
        void *p = ::operator new(sz);
        if ((x >> 20) & 1)
            tmp.push_back(p);
        else
            g_noise.push_back(p);
    }
    for (void *p : tmp)
        ::operator delete(p);
}

static int planMode()
{
    heapNoise();
    if (!getenv("C20_LOG"))  // debugging aid: let OMPL's log through (stderr/stdout of the harness; never compared)
        ompl::msg::noOutputHandler();
    std::string line;
    while (vp::readLine(line))
    {
        auto t = vp::tokens(line);
        if (t.empty())
            continue;
        auto a = kv(t);
        if (t[0] != "run" || a.count("?") || !a.count("planner") || !a.count("env") || !a.count("seed") ||
            !a.count("budget") || !vp::parseNat(a["seed"]) || !vp::parseNat(a["budget"]) ||
            !factories().count(a["planner"]))
        {
            std::cout << "bad-op\n";
            continue;
        }
        // the global seed comes first: nothing random has been created in this process yet
        ompl::RNG::setSeed(*vp::parseNat(a["seed"]));
        Counters c;
        g_counters = &c;
        std::signal(SIGABRT, onAbort);
        c.budget = *vp::parseNat(a["budget"]);
        c.trace = a.count("trace") && a["trace"] == "1";
        Problem p;
        if (!buildProblem(a["env"], &c, p))
        {
            std::cout << "bad-op\n";
            continue;
        }
        {
            // shows that the address space moved between the two processes of a pair; never compared for equality
            int onStack = 0;
            std::unique_ptr<int> onHeap(new int(0));
            std::cout << "# heap=" << (const void *)onHeap.get() << " stack=" << (const void *)&onStack << "\n";
        }
        ob::PlannerPtr planner;
        try
        {
            planner = factories().at(a["planner"])(p);
        }
        catch (const std::exception &e)
        {
            std::cout << "unconstructible " << e.what() << "\n";
            continue;
        }
        if (!planner)
        {
            std::cout << "not-applicable\n";
            continue;
        }
        // options (all default off): ptc=iter (ompl::base::IterationTerminationCondition(budget) instead of the evaluation
        // counter), hist=ss (solve, then solve again with a fresh budget), hist=scs (solve, clear(), solve), starts=2 (two
        // start states and a two-state goal), params=alt (non-default range / goal bias / validity resolution)
        const std::string hist = a.count("hist") ? a["hist"] : "s";
        const bool iterPtc = a.count("ptc") && a["ptc"] == "iter";
        std::string err, line_out;
        auto report = [&](ob::PlannerStatus st) {
            std::string path = "none";
            if (ob::PathPtr sp = p.pdef->getSolutionPath())
            {
                std::vector<const ob::State *> states;
                Fnv extra;
                if (auto *g = dynamic_cast<og::PathGeometric *>(sp.get()))
                    for (ob::State *s : g->getStates())
                        states.push_back(s);
                else if (auto *cp = dynamic_cast<oc::PathControl *>(sp.get()))
                {
                    for (ob::State *s : cp->getStates())
                        states.push_back(s);
                    for (oc::Control *u : cp->getControls())
                    {
                        const double *v = u->as<oc::RealVectorControlSpace::ControlType>()->values;
                        extra.dbl(v[0]);
                        extra.dbl(v[1]);
                    }
                    for (double d : cp->getControlDurations())
                        extra.dbl(d);
                }
                path = std::to_string(states.size()) + ":" + hashStates(p.si->getStateSpace(), states, false) + ":" +
                       extra.hex();
            }
            std::string pdata = "none";
            try
            {
                ob::PlannerData pd(p.si);
                planner->getPlannerData(pd);
                std::vector<const ob::State *> vs;
                for (unsigned i = 0; i < pd.numVertices(); ++i)
                    vs.push_back(pd.getVertex(i).getState());
                // multilevel planners report vertices of several spaces; hash them only when they belong to p.si
                const bool sameSpace = p.sis.size() <= 1;
                pdata = std::to_string(pd.numVertices()) + ":" + std::to_string(pd.numEdges()) + ":" +
                        (sameSpace ? hashStates(p.si->getStateSpace(), vs, false) : std::string("-")) + ":" +
                        (sameSpace ? hashStates(p.si->getStateSpace(), vs, true) : std::string("-"));
            }
            catch (const std::exception &e)
            {
                pdata = "exception";
            }
            // the space's default projection (for a real vector space of more than two dimensions: a random matrix) applied
            // to the start state: the projection itself is compared, not only what planners make of it
            std::string proj = "-";
            try
            {
                if (p.si->getStateSpace()->hasDefaultProjection())
                {
                    auto pe = p.si->getStateSpace()->getDefaultProjection();
                    Eigen::VectorXd v(pe->getDimension());
                    pe->project(p.pdef->getStartState(0), v);
                    Fnv h;
                    for (int i = 0; i < v.size(); ++i)
                        h.dbl(v[i]);
                    proj = h.hex();
                }
            }
            catch (const std::exception &)
            {
                proj = "exception";
            }
            std::ostringstream os;
            os << "status=" << (int)(ob::PlannerStatus::StatusType)st << " approx=" << (p.pdef->hasApproximateSolution() ? 1 : 0)
               << " evals=" << c.evals << " polls=" << c.polls << " qhash=" << c.q.hex() << " path=" << path
               << " pdata=" << pdata << " proj=" << proj;
            return os.str();
        };
        try
        {
            if (a.count("starts") && a["starts"] == "2")
            {
                // second start and a two-state goal, derived from the first ones by moving the two leading coordinates
                auto space = p.si->getStateSpace();
                std::vector<double> r;
                ob::ScopedState<> s2(space), g1(space), g2(space);
                space->copyToReals(r, p.pdef->getStartState(0));
                r[0] = 0.2;
                r[1] = 0.15;
                space->copyFromReals(s2.get(), r);
                p.pdef->addStartState(s2);
                const ob::State *gs = p.pdef->getGoal()->as<ob::GoalState>()->getState();
                space->copyToReals(r, gs);
                space->copyFromReals(g1.get(), r);
                r[0] = 0.92;
                r[1] = 0.8;
                space->copyFromReals(g2.get(), r);
                auto goals = std::make_shared<ob::GoalStates>(p.si);
                goals->addState(g1);
                goals->addState(g2);
                goals->setThreshold(0.05);
                p.pdef->setGoal(goals);
            }
            if (a.count("params") && a["params"] == "alt")
            {
                for (auto &s : p.sis)
                    s->setStateValidityCheckingResolution(0.013);
                if (planner->params().hasParam("range"))
                    planner->params().setParam("range", "0.07");
                if (planner->params().hasParam("goal_bias"))
                    planner->params().setParam("goal_bias", "0.2");
            }
            planner->setProblemDefinition(p.pdef);
            planner->setup();
            for (size_t phase = 0; phase < hist.size(); ++phase)
            {
                if (hist[phase] == 'c')
                {
                    planner->clear();
                    p.pdef->clearSolutionPaths();
                    line_out += " || cleared";
                    continue;
                }
                const unsigned long budget = c.evals + *vp::parseNat(a["budget"]);
                const unsigned long cap = c.polls + 2UL * *vp::parseNat(a["budget"]) + 2000UL;
                c.budget = budget;
                ob::PlannerStatus st;
                if (a["planner"].find(":construct") != std::string::npos || a["planner"].find(":growexpand") != std::string::npos)
                {
                    // the roadmap planners' single-threaded entry point (solve() starts a second thread)
                    ob::PlannerTerminationCondition ptc([&c, budget, cap] {
                        ++c.polls;
                        return c.evals >= budget || c.polls >= cap;
                    });
                    if (auto *prm = dynamic_cast<og::PRM *>(planner.get()))
                    {
                        // PRM::constructRoadmap itself alternates grow/expand in WALL-CLOCK slices (0.4 s / 0.2 s): not
                        // reproducible by design.  Its two constituents are driven instead, under counting conditions:
                        // grow for the first two thirds of the budget, expand for the rest.
                        const unsigned long mid = c.evals + 2 * *vp::parseNat(a["budget"]) / 3;
                        ob::PlannerTerminationCondition ptcGrow([&c, mid, cap] {
                            ++c.polls;
                            return c.evals >= mid || c.polls >= cap;
                        });
                        prm->growRoadmap(ptcGrow);
                        prm->expandRoadmap(ptc);
                    }
                    else if (auto *sp = dynamic_cast<og::SPARS *>(planner.get()))
                        sp->constructRoadmap(ptc);
                    else if (auto *s2 = dynamic_cast<og::SPARStwo *>(planner.get()))
                        s2->constructRoadmap(ptc);
                }
                else if (a["planner"] == "SPARSdb:addpath")
                {
                    // tools/thunder/SPARSdb::addPathToRoadmap: inserts the states of a path in shuffled order
                    ob::PlannerTerminationCondition ptc([&c, budget, cap] {
                        ++c.polls;
                        return c.evals >= budget || c.polls >= cap;
                    });
                    og::PathGeometric path(p.si);
                    ob::ScopedState<> s(p.si->getStateSpace());
                    std::vector<double> r;
                    p.si->getStateSpace()->copyToReals(r, p.pdef->getStartState(0));
                    for (int i = 0; i < 40; ++i)
                    {
                        r[0] = 0.1 + 0.002 * i;
                        r[1] = 0.05 + 0.0225 * i;
                        p.si->getStateSpace()->copyFromReals(s.get(), r);
                        path.append(s.get());
                    }
                    dynamic_cast<ompl::geometric::SPARSdb &>(*planner).addPathToRoadmap(ptc, path);
                }
                else if (iterPtc)
                {
                    ob::IterationTerminationCondition itc(*vp::parseNat(a["budget"]));
                    st = planner->solve(itc);
                }
                else
                {
                    ob::PlannerTerminationCondition ptc([&c, budget, cap] {
                        ++c.polls;
                        return c.evals >= budget || c.polls >= cap;
                    });
                    st = planner->solve(ptc);
                }
                line_out += (phase ? " || " : "") + report(st);
            }
        }
        catch (const std::exception &e)
        {
            err = e.what();
        }
        if (!err.empty())
        {
            for (char &ch : err)
                if (ch == ' ' || ch == '\n')
                    ch = '_';
            std::cout << "exception " << err << (line_out.empty() ? "" : " after " + line_out) << "\n";
            continue;
        }
        std::cout << line_out << "\n";
    }
    return 0;
}


// ------------------------------------------------------------------------------------------------ sampler mode
// "samp": output of a sampler call must be a function of the draws and the inputs only — never of what the output
// state held before the call.  Lines:
//     seed <s>                                              RNG::setSeed (once, first)
//     samp space=<spec> kind=<kind> fill=<0..255> n=<n>
// builds the space, allocates its sampler (its RNG takes the next seed of the global sequence), and calls it n times;
// before every call the output state is overwritten, through deserialize(), with a byte pattern derived from `fill`.
// Prints the serialized bytes of every output.  The check runs the same script in two processes that differ only in
// `fill` and compares (for SubspaceStateSampler: inside the subspace's byte range equal, outside untouched).
#include <ompl/base/spaces/SO3StateSpace.h>
#include <ompl/base/spaces/SE3StateSpace.h>
#include <ompl/base/spaces/DiscreteStateSpace.h>
#include <ompl/base/spaces/TimeStateSpace.h>
#include <ompl/base/spaces/DubinsStateSpace.h>
#include <ompl/base/spaces/ReedsSheppStateSpace.h>
#include <ompl/base/spaces/WrapperStateSpace.h>
#include <ompl/base/samplers/UniformValidStateSampler.h>
#include <ompl/base/samplers/GaussianValidStateSampler.h>
#include <ompl/base/samplers/ObstacleBasedValidStateSampler.h>
#include <ompl/base/samplers/BridgeTestValidStateSampler.h>
#include <ompl/base/samplers/MaximizeClearanceValidStateSampler.h>
#include <ompl/base/samplers/MinimumClearanceValidStateSampler.h>

static ob::StateSpacePtr sampSpace(const std::string &spec)
{
    auto rv = [](unsigned d) {
        auto sp = std::make_shared<ob::RealVectorStateSpace>(d);
        ob::RealVectorBounds b(d);
        b.setLow(-1.);
        b.setHigh(2.);
        sp->setBounds(b);
        return sp;
    };
    ob::RealVectorBounds b2(2), b3(3);
    b2.setLow(-1.);
    b2.setHigh(2.);
    b3.setLow(-1.);
    b3.setHigh(2.);
    if (spec == "rv1")
        return rv(1);
    if (spec == "rv3")
        return rv(3);
    if (spec == "so2")
        return std::make_shared<ob::SO2StateSpace>();
    if (spec == "so3")
        return std::make_shared<ob::SO3StateSpace>();
    if (spec == "se2" || spec == "wrap-se2")
    {
        auto sp = std::make_shared<ob::SE2StateSpace>();
        sp->setBounds(b2);
        if (spec == "se2")
            return sp;
        return std::make_shared<ob::WrapperStateSpace>(sp);
    }
    if (spec == "se3")
    {
        auto sp = std::make_shared<ob::SE3StateSpace>();
        sp->setBounds(b3);
        return sp;
    }
    if (spec == "discrete")
        return std::make_shared<ob::DiscreteStateSpace>(0, 7);
    if (spec == "time")
        return std::make_shared<ob::TimeStateSpace>();
    if (spec == "timeb")
    {
        auto sp = std::make_shared<ob::TimeStateSpace>();
        sp->setBounds(0., 5.);
        return sp;
    }
    if (spec == "dubins")
    {
        auto sp = std::make_shared<ob::DubinsStateSpace>(0.5);
        sp->setBounds(b2);
        return sp;
    }
    if (spec == "reedsshepp")
    {
        auto sp = std::make_shared<ob::ReedsSheppStateSpace>(0.5);
        sp->setBounds(b2);
        return sp;
    }
    if (spec == "cz" || spec == "wrap-cz")
    {
        auto cs = std::make_shared<ob::CompoundStateSpace>();
        cs->addSubspace(rv(2), 1.0);
        cs->addSubspace(std::make_shared<ob::SO2StateSpace>(), 0.0);
        cs->addSubspace(rv(1), 1e-300);
        cs->addSubspace(std::make_shared<ob::DiscreteStateSpace>(0, 3), 0.0);
        cs->lock();
        if (spec == "cz")
            return cs;
        return std::make_shared<ob::WrapperStateSpace>(cs);
    }
    if (spec == "cnest")
    {
        auto inner = std::make_shared<ob::CompoundStateSpace>();
        inner->addSubspace(rv(1), 0.0);
        inner->addSubspace(std::make_shared<ob::SO3StateSpace>(), 1.0);
        auto se2 = std::make_shared<ob::SE2StateSpace>();
        se2->setBounds(b2);
        auto cs = std::make_shared<ob::CompoundStateSpace>();
        cs->addSubspace(se2, 1.0);
        cs->addSubspace(inner, 0.5);
        cs->addSubspace(std::make_shared<ob::TimeStateSpace>(), 0.0);
        cs->lock();
        return cs;
    }
    return nullptr;
}

class BandChecker : public ob::StateValidityChecker
{
public:
    using ob::StateValidityChecker::StateValidityChecker;
    bool isValid(const ob::State *s) const override
    {
        std::vector<double> r;
        si_->getStateSpace()->copyToReals(r, s);
        if (r.empty())
            return true;
        double f = std::fabs(r[0] * 3.0);
        return f - std::floor(f) >= 0.3;
    }
};

static std::string hexOf(const std::vector<unsigned char> &b)
{
    static const char *d = "0123456789abcdef";
    std::string s;
    for (unsigned char c : b)
    {
        s += d[c >> 4];
        s += d[c & 15];
    }
    return s;
}

static int sampMode()
{
    ompl::msg::noOutputHandler();
    std::string line;
    while (vp::readLine(line))
    {
        auto t = vp::tokens(line);
        if (t.empty())
            continue;
        if (t[0] == "seed" && t.size() == 2 && vp::parseNat(t[1]))
        {
            ompl::RNG::setSeed(*vp::parseNat(t[1]));
            std::cout << "ok\n";
            continue;
        }
        auto a = kv(t);
        if (t[0] != "samp" || a.count("?") || !a.count("space") || !a.count("kind") || !a.count("fill") || !a.count("n") ||
            !vp::parseNat(a["fill"]) || !vp::parseNat(a["n"]))
        {
            std::cout << "bad-op\n";
            continue;
        }
        ob::StateSpacePtr space = sampSpace(a["space"]);
        if (!space)
        {
            std::cout << "bad-op\n";
            continue;
        }
        auto si = std::make_shared<ob::SpaceInformation>(space);
        si->setStateValidityChecker(std::make_shared<BandChecker>(si));
        si->setup();
        const unsigned L = space->getSerializationLength();
        const unsigned fill = *vp::parseNat(a["fill"]) & 0xff, n = *vp::parseNat(a["n"]);
        std::string kind = a["kind"];
        unsigned lo = 0, hi = L;
        ob::StateSamplerPtr ss;
        ob::ValidStateSamplerPtr vs;
        std::string call;  // uniform | near | gauss
        if (kind.rfind("sub", 0) == 0 && kind.size() > 5 && kind[4] == '-')
        {
            auto *cs = dynamic_cast<ob::CompoundStateSpace *>(space.get());
            unsigned j = kind[3] - '0';
            if (!cs || j >= cs->getSubspaceCount())
            {
                std::cout << "not-applicable\n";
                continue;
            }
            lo = 0;
            for (unsigned i = 0; i < j; ++i)
                lo += cs->getSubspace(i)->getSerializationLength();
            hi = lo + cs->getSubspace(j)->getSerializationLength();
            ss = std::make_shared<ob::SubspaceStateSampler>(space.get(), cs->getSubspace(j).get(), 1.0);
            call = kind.substr(5);
        }
        else if (kind.rfind("valid-", 0) == 0)
        {
            std::string k = kind.substr(6);
            auto dash = k.find('-');
            call = dash == std::string::npos ? "uniform" : k.substr(dash + 1);
            k = k.substr(0, dash);
            if (k == "uniform")
                vs = std::make_shared<ob::UniformValidStateSampler>(si.get());
            else if (k == "gauss")
                vs = std::make_shared<ob::GaussianValidStateSampler>(si.get());
            else if (k == "obstacle")
                vs = std::make_shared<ob::ObstacleBasedValidStateSampler>(si.get());
            else if (k == "bridge")
                vs = std::make_shared<ob::BridgeTestValidStateSampler>(si.get());
            else if (k == "maxclear")
                vs = std::make_shared<ob::MaximizeClearanceValidStateSampler>(si.get());
            else if (k == "minclear")
                vs = std::make_shared<ob::MinimumClearanceValidStateSampler>(si.get());
        }
        else
        {
            ss = space->allocStateSampler();
            call = kind;
        }
        if ((!ss && !vs) || (call != "uniform" && call != "near" && call != "gauss") || (vs && call == "gauss"))
        {
            std::cout << "bad-op\n";
            continue;
        }
        ob::State *out = space->allocState(), *near = space->allocState();
        space->allocStateSampler()->sampleUniform(near);  // a deterministic reference state (own RNG, next global seed)
        std::vector<unsigned char> buf(L), ser(L);
        std::string outs, rets;
        for (unsigned it = 0; it < n; ++it)
        {
            for (unsigned i = 0; i < L; ++i)
                buf[i] = (unsigned char)(fill + 7 * i + 13 * it);
            space->deserialize(out, buf.data());
            bool ret = true;
            if (ss)
            {
                if (call == "uniform")
                    ss->sampleUniform(out);
                else if (call == "near")
                    ss->sampleUniformNear(out, near, 0.2);
                else
                    ss->sampleGaussian(out, near, 0.1);
            }
            else
                ret = call == "uniform" ? vs->sample(out) : vs->sampleNear(out, near, 0.3);
            rets += ret ? '1' : '0';
            space->serialize(ser.data(), out);
            outs += (it ? "," : "") + hexOf(ser);
        }
        space->freeState(out);
        space->freeState(near);
        std::cout << "len=" << L << " mask=" << lo << ":" << hi << " r=" << rets << " out=" << outs << "\n";
    }
    return 0;
}

// ------------------------------------------------------------------------------------------------ gnat mode
// "gnat": NearestNeighborsGNAT on an integer lattice (every distance is shared by several elements: exact ties).
//     gnat seed=<s> side=<n> k=<k> [nts=1]
// adds the side*side lattice points in row order, then asks nearestK / nearestR around a few lattice points and
// prints the ids of the answers IN ORDER.  The exhaustive answer (sorted by (distance, id)) is printed as well, so the
// check can tell "same set, different order among ties" from a wrong answer.  Run in two processes whose heaps are laid
// out differently (C20_HEAP_NOISE): with elements ordered by ADDRESS on ties the printed orders differ.
#include <ompl/datastructures/NearestNeighborsGNAT.h>
#include <ompl/datastructures/NearestNeighborsGNATNoThreadSafety.h>

static int gnatMode()
{
    ompl::msg::noOutputHandler();
    heapNoise();
    std::string line;
    while (vp::readLine(line))
    {
        auto t = vp::tokens(line);
        if (t.empty())
            continue;
        auto a = kv(t);
        if (t[0] != "gnat" || a.count("?") || !a.count("seed") || !a.count("side") || !a.count("k") ||
            !vp::parseNat(a["seed"]) || !vp::parseNat(a["side"]) || !vp::parseNat(a["k"]) || *vp::parseNat(a["side"]) > 200)
        {
            std::cout << "bad-op\n";
            continue;
        }
        ompl::RNG::setSeed(*vp::parseNat(a["seed"]));
        const unsigned long side = *vp::parseNat(a["side"]), k = *vp::parseNat(a["k"]);
        using P = unsigned long;  // id = y*side + x
        auto dist = [side](const P &p, const P &q) {
            double dx = (double)(p % side) - (double)(q % side), dy = (double)(p / side) - (double)(q / side);
            return std::sqrt(dx * dx + dy * dy);
        };
        std::shared_ptr<ompl::NearestNeighbors<P>> nn;
        if (a.count("nts") && a["nts"] == "1")
            nn = std::make_shared<ompl::NearestNeighborsGNATNoThreadSafety<P>>();
        else
            nn = std::make_shared<ompl::NearestNeighborsGNAT<P>>();
        nn->setDistanceFunction(dist);
        for (P i = 0; i < side * side; ++i)
            nn->add(i);
        std::string out, ex;
        Fnv order;
        for (P q : {side * (side / 2) + side / 2, side * (side / 3) + side / 4, (P)0, side * side - 1})
        {
            std::vector<P> nbh;
            nn->nearestK(q, k, nbh);
            out += " K" + std::to_string(q) + ":";
            for (P v : nbh)
            {
                out += std::to_string(v) + ",";
                order.u64(v);
            }
            nbh.clear();
            nn->nearestR(q, 2.0, nbh);
            out += " R" + std::to_string(q) + ":";
            for (P v : nbh)
            {
                out += std::to_string(v) + ",";
                order.u64(v);
            }
            // exhaustive nearestK, ties by id
            std::vector<std::pair<double, P>> all;
            for (P i = 0; i < side * side; ++i)
                all.emplace_back(dist(q, i), i);
            std::sort(all.begin(), all.end());
            ex += " K" + std::to_string(q) + ":";
            for (size_t i = 0; i < k && i < all.size(); ++i)
                ex += vp::bits(all[i].first) + ",";
        }
        std::cout << "order=" << order.hex() << " answers" << out << " | exhaustive-distances" << ex << "\n";
    }
    return 0;
}

int main()
{
    alarm(300);  // watchdog only: kills the process, never influences an answer
    std::string line;
    if (!vp::readLine(line))
        return 2;
    auto hdr = vp::tokens(line);
    if (hdr.size() >= 2 && hdr.size() <= 4 && hdr[0] == "rng" && hdr[1].rfind("clock=", 0) == 0)
        return rngMode();
    if (hdr.size() == 1 && hdr[0] == "plan")
        return planMode();
    if (hdr.size() == 1 && hdr[0] == "samp")
        return sampMode();
    if (hdr.size() == 1 && hdr[0] == "gnat")
        return gnatMode();
    std::cout << "bad-header\n";
    return 2;
}
