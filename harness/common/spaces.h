// Protocol encoding of spaces and states on the C++ side (twin of lean/OmplModel/Driver/SpaceIO.lean).
//
//   space ::= rv <n> <lo>*n <hi>*n | so2 | so3 | time u | time b <lo> <hi> | disc <lo:int> <hi:int>
//           | cmp <k> (<w> space)*k | se2 <lo>*2 <hi>*2 | se3 <lo>*3 <hi>*3
//           | torus <R> <r> | mobius <imax> <rad> | klein | sphere <r> | wrap space
//   state ::= leaf values in component order (rv: n doubles; so2: 1; so3: x y z w; time: 1; disc: int)
// doubles are decimal u64 bit patterns.
#pragma once
#include "proto.h"
#include <ompl/base/StateSpace.h>
#include <ompl/base/spaces/RealVectorStateSpace.h>
#include <ompl/base/spaces/SO2StateSpace.h>
#include <ompl/base/spaces/SO3StateSpace.h>
#include <ompl/base/spaces/SE2StateSpace.h>
#include <ompl/base/spaces/SE3StateSpace.h>
#include <ompl/base/spaces/TimeStateSpace.h>
#include <ompl/base/spaces/DiscreteStateSpace.h>
#include <ompl/base/spaces/WrapperStateSpace.h>
#include <ompl/base/spaces/special/TorusStateSpace.h>
#include <ompl/base/spaces/special/MobiusStateSpace.h>
#include <ompl/base/spaces/special/KleinBottleStateSpace.h>
#include <ompl/base/spaces/special/SphereStateSpace.h>
#include <stdexcept>

namespace vp
{
    namespace ob = ompl::base;

    struct ParseError : std::runtime_error
    {
        using std::runtime_error::runtime_error;
    };

    inline double needF(const std::vector<std::string> &t, size_t &i)
    {
        if (i >= t.size())
            throw ParseError("eol");
        auto v = parseBits(t[i++]);
        if (!v)
            throw ParseError("float");
        return *v;
    }
    inline long long needI(const std::vector<std::string> &t, size_t &i)
    {
        if (i >= t.size())
            throw ParseError("eol");
        auto v = parseInt(t[i++]);
        if (!v)
            throw ParseError("int");
        return *v;
    }
    inline unsigned long long needN(const std::vector<std::string> &t, size_t &i)
    {
        if (i >= t.size())
            throw ParseError("eol");
        auto v = parseNat(t[i++]);
        if (!v)
            throw ParseError("nat");
        return *v;
    }

    inline ob::StateSpacePtr parseSpace(const std::vector<std::string> &t, size_t &i)
    {
        if (i >= t.size())
            throw ParseError("eol");
        const std::string k = t[i++];
        if (k == "rv")
        {
            unsigned n = needN(t, i);
            auto s = std::make_shared<ob::RealVectorStateSpace>(n);
            ob::RealVectorBounds b(n);
            for (unsigned j = 0; j < n; ++j)
                b.low[j] = needF(t, i);
            for (unsigned j = 0; j < n; ++j)
                b.high[j] = needF(t, i);
            // setBounds() calls RealVectorBounds::check() which throws for low >= high; degenerate
            // bounds are written directly (as a user could through getBounds()).
            bool ok = true;
            for (unsigned j = 0; j < n; ++j)
                if (!(b.low[j] < b.high[j]))
                    ok = false;
            if (ok)
                s->setBounds(b);
            else
                const_cast<ob::RealVectorBounds &>(s->getBounds()) = b;
            return s;
        }
        if (k == "so2")
            return std::make_shared<ob::SO2StateSpace>();
        if (k == "so3")
            return std::make_shared<ob::SO3StateSpace>();
        if (k == "time")
        {
            if (i >= t.size())
                throw ParseError("eol");
            auto s = std::make_shared<ob::TimeStateSpace>();
            std::string m = t[i++];
            if (m == "b")
            {
                double lo = needF(t, i), hi = needF(t, i);
                s->setBounds(lo, hi);
            }
            else if (m != "u")
                throw ParseError("time");
            return s;
        }
        if (k == "disc")
        {
            long long lo = needI(t, i), hi = needI(t, i);
            return std::make_shared<ob::DiscreteStateSpace>((int)lo, (int)hi);
        }
        if (k == "cmp")
        {
            unsigned n = needN(t, i);
            auto s = std::make_shared<ob::CompoundStateSpace>();
            for (unsigned j = 0; j < n; ++j)
            {
                double w = needF(t, i);
                auto sub = parseSpace(t, i);
                sub->setName(sub->getName() + "_c" + std::to_string(j));
                s->addSubspace(sub, w);
            }
            s->lock();
            return s;
        }
        if (k == "se2" || k == "se3")
        {
            unsigned n = k == "se2" ? 2 : 3;
            ob::RealVectorBounds b(n);
            for (unsigned j = 0; j < n; ++j)
                b.low[j] = needF(t, i);
            for (unsigned j = 0; j < n; ++j)
                b.high[j] = needF(t, i);
            if (n == 2)
            {
                auto s = std::make_shared<ob::SE2StateSpace>();
                s->setBounds(b);
                return s;
            }
            auto s = std::make_shared<ob::SE3StateSpace>();
            s->setBounds(b);
            return s;
        }
        if (k == "torus")
        {
            double R = needF(t, i), r = needF(t, i);
            return std::make_shared<ob::TorusStateSpace>(R, r);
        }
        if (k == "mobius")
        {
            double a = needF(t, i), b = needF(t, i);
            return std::make_shared<ob::MobiusStateSpace>(a, b);
        }
        if (k == "klein")
            return std::make_shared<ob::KleinBottleStateSpace>();
        if (k == "sphere")
        {
            double r = needF(t, i);
            return std::make_shared<ob::SphereStateSpace>(r);
        }
        if (k == "wrap")
        {
            auto inner = parseSpace(t, i);
            return std::make_shared<ob::WrapperStateSpace>(inner);
        }
        throw ParseError("space kind " + k);
    }

    // read leaf values into an allocated state of `sp`
    inline void parseStateInto(const ob::StateSpace *sp, ob::State *st, const std::vector<std::string> &t, size_t &i)
    {
        if (auto w = dynamic_cast<const ob::WrapperStateSpace *>(sp))
        {
            parseStateInto(w->getSpace().get(), st->as<ob::WrapperStateSpace::StateType>()->getState(), t, i);
            return;
        }
        if (auto c = dynamic_cast<const ob::CompoundStateSpace *>(sp))
        {
            auto *cs = st->as<ob::CompoundState>();
            for (unsigned j = 0; j < c->getSubspaceCount(); ++j)
                parseStateInto(c->getSubspace(j).get(), cs->components[j], t, i);
            return;
        }
        if (auto r = dynamic_cast<const ob::RealVectorStateSpace *>(sp))
        {
            for (unsigned j = 0; j < r->getDimension(); ++j)
                st->as<ob::RealVectorStateSpace::StateType>()->values[j] = needF(t, i);
            return;
        }
        if (dynamic_cast<const ob::SO2StateSpace *>(sp))
        {
            st->as<ob::SO2StateSpace::StateType>()->value = needF(t, i);
            return;
        }
        if (dynamic_cast<const ob::SO3StateSpace *>(sp))
        {
            auto *q = st->as<ob::SO3StateSpace::StateType>();
            q->x = needF(t, i);
            q->y = needF(t, i);
            q->z = needF(t, i);
            q->w = needF(t, i);
            return;
        }
        if (dynamic_cast<const ob::TimeStateSpace *>(sp))
        {
            st->as<ob::TimeStateSpace::StateType>()->position = needF(t, i);
            return;
        }
        if (dynamic_cast<const ob::DiscreteStateSpace *>(sp))
        {
            st->as<ob::DiscreteStateSpace::StateType>()->value = (int)needI(t, i);
            return;
        }
        throw ParseError("unsupported leaf space " + sp->getName());
    }

    inline void showStateInto(const ob::StateSpace *sp, const ob::State *st, std::string &out)
    {
        auto add = [&](const std::string &s) {
            if (!out.empty())
                out += " ";
            out += s;
        };
        if (auto w = dynamic_cast<const ob::WrapperStateSpace *>(sp))
        {
            showStateInto(w->getSpace().get(), st->as<ob::WrapperStateSpace::StateType>()->getState(), out);
            return;
        }
        if (auto c = dynamic_cast<const ob::CompoundStateSpace *>(sp))
        {
            auto *cs = st->as<ob::CompoundState>();
            for (unsigned j = 0; j < c->getSubspaceCount(); ++j)
                showStateInto(c->getSubspace(j).get(), cs->components[j], out);
            return;
        }
        if (auto r = dynamic_cast<const ob::RealVectorStateSpace *>(sp))
        {
            for (unsigned j = 0; j < r->getDimension(); ++j)
                add(bits(st->as<ob::RealVectorStateSpace::StateType>()->values[j]));
            return;
        }
        if (dynamic_cast<const ob::SO2StateSpace *>(sp))
        {
            add(bits(st->as<ob::SO2StateSpace::StateType>()->value));
            return;
        }
        if (dynamic_cast<const ob::SO3StateSpace *>(sp))
        {
            auto *q = st->as<ob::SO3StateSpace::StateType>();
            add(bits(q->x));
            add(bits(q->y));
            add(bits(q->z));
            add(bits(q->w));
            return;
        }
        if (dynamic_cast<const ob::TimeStateSpace *>(sp))
        {
            add(bits(st->as<ob::TimeStateSpace::StateType>()->position));
            return;
        }
        if (dynamic_cast<const ob::DiscreteStateSpace *>(sp))
        {
            add(std::to_string(st->as<ob::DiscreteStateSpace::StateType>()->value));
            return;
        }
        throw ParseError("unsupported leaf space " + sp->getName());
    }

    inline std::string showState(const ob::StateSpacePtr &sp, const ob::State *st)
    {
        std::string out;
        showStateInto(sp.get(), st, out);
        return out;
    }
}  // namespace vp
