// Shared line-protocol helpers for the C++ harnesses.
// One operation per input line, one result line per operation; doubles cross as decimal u64 bit
// patterns; an unknown or ill-formed line prints "bad-op" (never defaulted).
#pragma once
#include <cstdint>
#include <cstring>
#include <iostream>
#include <sstream>
#include <string>
#include <vector>
#include <optional>

namespace vp
{
    inline std::vector<std::string> tokens(const std::string &line)
    {
        std::vector<std::string> out;
        std::istringstream is(line);
        std::string t;
        while (is >> t)
            out.push_back(t);
        return out;
    }

    inline std::optional<long long> parseInt(const std::string &s)
    {
        if (s.empty())
            return std::nullopt;
        size_t i = 0;
        if (s[0] == '-' || s[0] == '+')
            i = 1;
        if (i >= s.size())
            return std::nullopt;
        for (size_t j = i; j < s.size(); ++j)
            if (s[j] < '0' || s[j] > '9')
                return std::nullopt;
        try
        {
            return std::stoll(s);
        }
        catch (...)
        {
            return std::nullopt;
        }
    }

    inline std::optional<unsigned long long> parseNat(const std::string &s)
    {
        if (s.empty())
            return std::nullopt;
        for (char c : s)
            if (c < '0' || c > '9')
                return std::nullopt;
        try
        {
            return std::stoull(s);
        }
        catch (...)
        {
            return std::nullopt;
        }
    }

    inline std::optional<double> parseBits(const std::string &s)
    {
        auto n = parseNat(s);
        if (!n)
            return std::nullopt;
        uint64_t u = *n;
        double d;
        std::memcpy(&d, &u, 8);
        return d;
    }

    inline std::string bits(double d)
    {
        uint64_t u;
        std::memcpy(&u, &d, 8);
        return std::to_string(u);
    }

    // "k x1 .. xk" starting at index i of toks; advances i. Returns nullopt if malformed.
    inline std::optional<std::vector<std::string>> takeCounted(const std::vector<std::string> &t, size_t &i)
    {
        if (i >= t.size())
            return std::nullopt;
        auto k = parseNat(t[i]);
        if (!k || i + 1 + *k > t.size())
            return std::nullopt;
        std::vector<std::string> out(t.begin() + i + 1, t.begin() + i + 1 + *k);
        i += 1 + *k;
        return out;
    }

    inline bool readLine(std::string &line)
    {
        return static_cast<bool>(std::getline(std::cin, line));
    }
}  // namespace vp
