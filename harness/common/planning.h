// Shared planning fixtures for the planner-level harnesses (C01, C02, C03, C04, C17, C19, C20).
//
//  * Env: a state space (spaces.h grammar, plus `dubins <rho> <sym> <lo>*2 <hi>*2` and `rs <rho> <lo>*2 <hi>*2`)
//    and axis-aligned box obstacles over the first `pdim` values of copyToReals() (the position).
//  * RecordingValidityChecker: validity = in bounds and outside every (closed) box; records every query
//    (reals + answer) under a mutex; also provides clearance (distance to the nearest box surface).
//  * Counting<Space>: allocState/freeState counter for leak / double-free observation.
//  * EvalCountPtc: a termination condition that turns true at evaluation k (and stays true); no wall clock.
//  * makeGeometricPlanner(name, si): every shipped geometric planner constructible without extra inputs.
//  * helpers to print a path / status canonically (doubles as u64 bits).
#pragma once
#include "spaces.h"
#include <ompl/base/SpaceInformation.h>
#include <ompl/base/ProblemDefinition.h>
#include <ompl/base/Planner.h>
#include <ompl/base/PlannerTerminationCondition.h>
#include <ompl/base/StateValidityChecker.h>
#include <ompl/base/goals/GoalState.h>
#include <ompl/base/goals/GoalStates.h>
#include <ompl/base/spaces/DubinsStateSpace.h>
#include <ompl/base/spaces/ReedsSheppStateSpace.h>
#include <ompl/base/objectives/PathLengthOptimizationObjective.h>
#include <ompl/geometric/PathGeometric.h>
#include <ompl/geometric/planners/rrt/RRT.h>
#include <ompl/geometric/planners/rrt/RRTConnect.h>
#include <ompl/geometric/planners/rrt/RRTstar.h>
#include <ompl/geometric/planners/rrt/InformedRRTstar.h>
#include <ompl/geometric/planners/rrt/SORRTstar.h>
#include <ompl/geometric/planners/rrt/RRTsharp.h>
#include <ompl/geometric/planners/rrt/RRTXstatic.h>
#include <ompl/geometric/planners/rrt/LazyRRT.h>
#include <ompl/geometric/planners/rrt/TRRT.h>
#include <ompl/geometric/planners/rrt/BiTRRT.h>
#include <ompl/geometric/planners/rrt/LBTRRT.h>
#include <ompl/geometric/planners/rrt/LazyLBTRRT.h>
#include <ompl/geometric/planners/rrt/pRRT.h>
#include <ompl/geometric/planners/rlrt/RLRT.h>
#include <ompl/geometric/planners/rlrt/BiRLRT.h>
#include <ompl/geometric/planners/est/EST.h>
#include <ompl/geometric/planners/est/BiEST.h>
#include <ompl/geometric/planners/est/ProjEST.h>
#include <ompl/geometric/planners/kpiece/KPIECE1.h>
#include <ompl/geometric/planners/kpiece/BKPIECE1.h>
#include <ompl/geometric/planners/kpiece/LBKPIECE1.h>
#include <ompl/geometric/planners/pdst/PDST.h>
#include <ompl/geometric/planners/sbl/SBL.h>
#include <ompl/geometric/planners/sbl/pSBL.h>
#include <ompl/geometric/planners/stride/STRIDE.h>
#include <ompl/geometric/planners/prm/PRM.h>
#include <ompl/geometric/planners/prm/PRMstar.h>
#include <ompl/geometric/planners/prm/LazyPRM.h>
#include <ompl/geometric/planners/prm/LazyPRMstar.h>
#include <ompl/geometric/planners/prm/SPARS.h>
#include <ompl/geometric/planners/prm/SPARStwo.h>
#include <ompl/geometric/planners/fmt/FMT.h>
#include <ompl/geometric/planners/fmt/BFMT.h>
#include <ompl/geometric/planners/informedtrees/BITstar.h>
#include <ompl/geometric/planners/informedtrees/ABITstar.h>
#include <ompl/geometric/planners/informedtrees/AITstar.h>
#include <ompl/geometric/planners/informedtrees/EITstar.h>
#include <ompl/geometric/planners/informedtrees/EIRMstar.h>
#include <ompl/geometric/planners/sst/SST.h>
#include <ompl/geometric/planners/cforest/CForest.h>
#include <ompl/geometric/planners/AnytimePathShortening.h>
#include <ompl/util/Console.h>
#include <atomic>
#include <cmath>
#include <memory>
#include <mutex>

namespace vp
{
    namespace og = ompl::geometric;

    // ------------------------------------------------------------------ spaces incl. Dubins / Reeds-Shepp
    inline ob::StateSpacePtr parseSpaceX(const std::vector<std::string> &t, size_t &i)
    {
        if (i < t.size() && (t[i] == "dubins" || t[i] == "rs"))
        {
            bool dub = t[i] == "dubins";
            ++i;
            double rho = needF(t, i);
            bool sym = false;
            if (dub)
                sym = needN(t, i) != 0;
            ob::RealVectorBounds b(2);
            for (unsigned j = 0; j < 2; ++j)
                b.low[j] = needF(t, i);
            for (unsigned j = 0; j < 2; ++j)
                b.high[j] = needF(t, i);
            if (dub)
            {
                auto s = std::make_shared<ob::DubinsStateSpace>(rho, sym);
                s->setBounds(b);
                return s;
            }
            auto s = std::make_shared<ob::ReedsSheppStateSpace>(rho);
            s->setBounds(b);
            return s;
        }
        return parseSpace(t, i);
    }

    // ------------------------------------------------------------------ environment
    struct Box
    {
        std::vector<double> lo, hi;
    };

    struct Env
    {
        unsigned pdim = 0;  // number of leading reals that are the position
        std::vector<Box> boxes;

        // `boxes <pdim> <k> (<lo>*pdim <hi>*pdim)*k`
        void parse(const std::vector<std::string> &t, size_t &i)
        {
            if (i >= t.size() || t[i] != "boxes")
                throw ParseError("boxes");
            ++i;
            pdim = needN(t, i);
            unsigned k = needN(t, i);
            boxes.clear();
            for (unsigned j = 0; j < k; ++j)
            {
                Box b;
                for (unsigned d = 0; d < pdim; ++d)
                    b.lo.push_back(needF(t, i));
                for (unsigned d = 0; d < pdim; ++d)
                    b.hi.push_back(needF(t, i));
                boxes.push_back(b);
            }
        }

        bool collides(const std::vector<double> &reals) const
        {
            for (const auto &b : boxes)
            {
                bool in = true;
                for (unsigned d = 0; d < pdim && in; ++d)
                    if (reals[d] < b.lo[d] || reals[d] > b.hi[d])
                        in = false;
                if (in)
                    return true;
            }
            return false;
        }

        // distance from a free point to the nearest box (0 inside a box); +inf without boxes
        double clearance(const std::vector<double> &reals) const
        {
            double best = std::numeric_limits<double>::infinity();
            for (const auto &b : boxes)
            {
                double s = 0;
                for (unsigned d = 0; d < pdim; ++d)
                {
                    double e = std::max(std::max(b.lo[d] - reals[d], 0.0), reals[d] - b.hi[d]);
                    s += e * e;
                }
                best = std::min(best, std::sqrt(s));
            }
            return best;
        }
    };

    // ------------------------------------------------------------------ recording validity checker
    struct Query
    {
        std::vector<double> reals;
        bool valid;
    };

    class RecordingValidityChecker : public ob::StateValidityChecker
    {
    public:
        RecordingValidityChecker(const ob::SpaceInformationPtr &si, Env env, bool record = true)
          : ob::StateValidityChecker(si), env_(std::move(env)), record_(record)
        {
            specs_.clearanceComputationType = ob::StateValidityCheckerSpecs::EXACT;
            specs_.hasValidDirectionComputation = false;
        }

        bool isValid(const ob::State *state) const override
        {
            std::vector<double> r;
            si_->getStateSpace()->copyToReals(r, state);
            bool v = si_->satisfiesBounds(state) && !env_.collides(r);
            ++calls_;
            if (record_)
            {
                std::lock_guard<std::mutex> g(m_);
                log_.push_back({r, v});
            }
            return v;
        }

        double clearance(const ob::State *state) const override
        {
            std::vector<double> r;
            si_->getStateSpace()->copyToReals(r, state);
            return env_.clearance(r);
        }

        std::vector<Query> takeLog()
        {
            std::lock_guard<std::mutex> g(m_);
            std::vector<Query> out;
            out.swap(log_);
            return out;
        }
        unsigned long calls() const
        {
            return calls_;
        }
        void setRecord(bool r)
        {
            record_ = r;
        }
        const Env &env() const
        {
            return env_;
        }
        void setEnv(const Env &e)
        {
            env_ = e;
        }

    private:
        Env env_;
        bool record_;
        mutable std::atomic<unsigned long> calls_{0};
        mutable std::mutex m_;
        mutable std::vector<Query> log_;
    };

    // ------------------------------------------------------------------ allocation counting
    struct AllocCounter
    {
        std::atomic<long> live{0};
        std::atomic<long> allocs{0};
        std::atomic<long> frees{0};
    };

    template <class Space>
    class Counting : public Space
    {
    public:
        template <class... A>
        Counting(std::shared_ptr<AllocCounter> c, A &&...a) : Space(std::forward<A>(a)...), c_(std::move(c))
        {
        }
        ob::State *allocState() const override
        {
            ++c_->live;
            ++c_->allocs;
            return Space::allocState();
        }
        void freeState(ob::State *s) const override
        {
            --c_->live;
            ++c_->frees;
            Space::freeState(s);
        }

    private:
        std::shared_ptr<AllocCounter> c_;
    };

    // ------------------------------------------------------------------ evaluation-counting termination
    struct EvalCounter
    {
        std::atomic<unsigned long> evals{0};
        unsigned long fireAt = 0;  // condition is true from evaluation number fireAt+1 on (0: true at once)
    };

    inline ob::PlannerTerminationCondition evalCountPtc(const std::shared_ptr<EvalCounter> &c)
    {
        return ob::PlannerTerminationCondition([c]() { return ++c->evals > c->fireAt; });
    }

    // ------------------------------------------------------------------ planners
    inline const std::vector<std::string> &geometricPlannerNames()
    {
        static const std::vector<std::string> names = {
            "RRT", "RRTConnect", "RRTstar", "InformedRRTstar", "SORRTstar", "RRTsharp", "RRTXstatic", "LazyRRT", "TRRT",
            "BiTRRT", "LBTRRT", "LazyLBTRRT", "RLRT", "BiRLRT", "EST", "BiEST", "ProjEST", "KPIECE1", "BKPIECE1",
            "LBKPIECE1", "PDST", "SBL", "STRIDE", "PRM", "PRMstar", "LazyPRM", "LazyPRMstar", "SPARS", "SPARStwo", "FMT",
            "BFMT", "BITstar", "ABITstar", "AITstar", "EITstar", "EIRMstar", "SST", "AnytimePathShortening",
            // multi-threaded:
            "pRRT", "pSBL", "CForest"};
        return names;
    }

    inline bool isMultiThreaded(const std::string &n)
    {
        return n == "pRRT" || n == "pSBL" || n == "CForest" || n == "AnytimePathShortening";
    }

    inline ob::PlannerPtr makeGeometricPlanner(const std::string &n, const ob::SpaceInformationPtr &si)
    {
#define VP_P(NAME, TYPE) \
    if (n == NAME)       \
        return std::make_shared<TYPE>(si);
        VP_P("RRT", og::RRT)
        VP_P("RRTConnect", og::RRTConnect)
        VP_P("RRTstar", og::RRTstar)
        VP_P("InformedRRTstar", og::InformedRRTstar)
        VP_P("SORRTstar", og::SORRTstar)
        VP_P("RRTsharp", og::RRTsharp)
        VP_P("RRTXstatic", og::RRTXstatic)
        VP_P("LazyRRT", og::LazyRRT)
        VP_P("TRRT", og::TRRT)
        VP_P("BiTRRT", og::BiTRRT)
        VP_P("LBTRRT", og::LBTRRT)
        VP_P("LazyLBTRRT", og::LazyLBTRRT)
        VP_P("RLRT", og::RLRT)
        VP_P("BiRLRT", og::BiRLRT)
        VP_P("EST", og::EST)
        VP_P("BiEST", og::BiEST)
        VP_P("ProjEST", og::ProjEST)
        VP_P("KPIECE1", og::KPIECE1)
        VP_P("BKPIECE1", og::BKPIECE1)
        VP_P("LBKPIECE1", og::LBKPIECE1)
        VP_P("PDST", og::PDST)
        VP_P("SBL", og::SBL)
        VP_P("STRIDE", og::STRIDE)
        VP_P("PRM", og::PRM)
        VP_P("PRMstar", og::PRMstar)
        VP_P("LazyPRM", og::LazyPRM)
        VP_P("LazyPRMstar", og::LazyPRMstar)
        VP_P("SPARS", og::SPARS)
        VP_P("SPARStwo", og::SPARStwo)
        VP_P("FMT", og::FMT)
        VP_P("BFMT", og::BFMT)
        VP_P("BITstar", og::BITstar)
        VP_P("ABITstar", og::ABITstar)
        VP_P("AITstar", og::AITstar)
        VP_P("EITstar", og::EITstar)
        VP_P("EIRMstar", og::EIRMstar)
        VP_P("SST", og::SST)
        VP_P("AnytimePathShortening", og::AnytimePathShortening)
        VP_P("pRRT", og::pRRT)
        VP_P("pSBL", og::pSBL)
        VP_P("CForest", og::CForest)
#undef VP_P
        throw ParseError("planner " + n);
    }

    // ------------------------------------------------------------------ printing
    inline std::string showReals(const std::vector<double> &r)
    {
        std::string s;
        for (size_t i = 0; i < r.size(); ++i)
            s += (i ? " " : "") + bits(r[i]);
        return s;
    }

    inline std::vector<double> realsOf(const ob::StateSpacePtr &sp, const ob::State *st)
    {
        std::vector<double> r;
        sp->copyToReals(r, st);
        return r;
    }

    inline const char *statusName(const ob::PlannerStatus &st)
    {
        switch (static_cast<ob::PlannerStatus::StatusType>(st))
        {
            case ob::PlannerStatus::UNKNOWN: return "UNKNOWN";
            case ob::PlannerStatus::INVALID_START: return "INVALID_START";
            case ob::PlannerStatus::INVALID_GOAL: return "INVALID_GOAL";
            case ob::PlannerStatus::UNRECOGNIZED_GOAL_TYPE: return "UNRECOGNIZED_GOAL_TYPE";
            case ob::PlannerStatus::TIMEOUT: return "TIMEOUT";
            case ob::PlannerStatus::APPROXIMATE_SOLUTION: return "APPROXIMATE_SOLUTION";
            case ob::PlannerStatus::EXACT_SOLUTION: return "EXACT_SOLUTION";
            case ob::PlannerStatus::CRASH: return "CRASH";
            case ob::PlannerStatus::ABORT: return "ABORT";
            default: return "OTHER";
        }
    }

    inline void quietLogs()
    {
        ompl::msg::setLogLevel(ompl::msg::LOG_NONE);
    }
}  // namespace vp
