// part of the C14 per-formula harness: DubinsStateSpace.cpp is included here so that the functions of its
// anonymous namespace are reachable (harness side; no hook in /repo).  No NDEBUG: its asserts are active.
#include "ompl/base/spaces/src/DubinsStateSpace.cpp"
// shared declarations (kept textually identical in dubins_int.cpp, dubins_int_d.cpp, dubins_int_r.cpp)
namespace dint
{
    struct DPath { int word; double t, p, q, len; };
    struct RPath { int type[5]; double l[5]; double len; };
    DPath dword(int w, double d, double a, double b);
    DPath dexh(double d, double a, double b);
    DPath dcls(double d, double a, double b);
    bool dclsSafe(double a, double b);
    int dquad(double a);
    bool dlong(double d, double a, double b);
    void dsw(double d, double a, double b, double *o);
    double dm2p(double x);
    bool rsbase(int name, double x, double y, double phi, double &t, double &u, double &v);
    RPath rsfam(int fam, double x, double y, double phi);
    void tauomega(double u, double v, double xi, double eta, double phi, double &tau, double &omega);
    double rsm2p(double x);
}

namespace dint
{
    static DPath wrap(const ompl::base::DubinsStateSpace::DubinsPath &p)
    {
        DPath r;
        r.word = -1;
        for (int i = 0; i < 6; ++i)
            if (p.type_ == &DubinsStateSpace::dubinsPathType()[i])
                r.word = i;
        r.t = p.length_[0];
        r.p = p.length_[1];
        r.q = p.length_[2];
        r.len = p.length();
        return r;
    }
    DPath dword(int w, double d, double a, double b)
    {
        DubinsStateSpace::DubinsPath p;
        switch (w)
        {
            case 0: p = dubinsLSL(d, a, b); break;
            case 1: p = dubinsRSR(d, a, b); break;
            case 2: p = dubinsRSL(d, a, b); break;
            case 3: p = dubinsLSR(d, a, b); break;
            case 4: p = dubinsRLR(d, a, b); break;
            default: p = dubinsLRL(d, a, b); break;
        }
        return wrap(p);
    }
    DPath dexh(double d, double a, double b) { return wrap(dubinsExhaustive(d, a, b)); }
    int dquad(double a)
    {
        // row of getDubinsClass through the function itself on (a, 0): class = 4 * (row - 1); outside [0, 2pi] the
        // function would assert, reported as 0
        if (!(0 <= a && a <= twopi))
            return 0;
        return static_cast<int>(getDubinsClass(a, 0.)) / 4 + 1;
    }
    bool dclsSafe(double a, double b) { return 0 <= a && a <= twopi && 0 <= b && b <= twopi; }
    DPath dcls(double d, double a, double b) { return wrap(dubinsClassification(d, a, b)); }
    bool dlong(double d, double a, double b) { return isLongPath(d, a, b); }
    void dsw(double d, double a, double b, double *o)
    {
        o[0] = s_12(d, a, b); o[1] = s_13(d, a, b); o[2] = s_14_1(d, a, b); o[3] = s_21(d, a, b); o[4] = s_22_1(d, a, b);
        o[5] = s_22_2(d, a, b); o[6] = s_24(d, a, b); o[7] = s_31(d, a, b); o[8] = s_33_1(d, a, b); o[9] = s_33_2(d, a, b);
        o[10] = s_34(d, a, b); o[11] = s_41_1(d, a, b); o[12] = s_41_2(d, a, b); o[13] = s_42(d, a, b); o[14] = s_43(d, a, b);
    }
    double dm2p(double x) { return mod2pi(x); }
}
