// minimal reproduction: PathLengthDirectInfSampler on a CompoundStateSpace with ONE RealVector subspace
#include <ompl/base/spaces/RealVectorStateSpace.h>
#include <ompl/base/StateSpace.h>
#include <ompl/base/SpaceInformation.h>
#include <ompl/base/ProblemDefinition.h>
#include <ompl/base/goals/GoalStates.h>
#include <ompl/base/objectives/PathLengthOptimizationObjective.h>
#include <ompl/base/samplers/informed/PathLengthDirectInfSampler.h>
#include <ompl/util/Console.h>
#include <cstdio>
namespace ob = ompl::base;
int main()
{
    ompl::msg::setLogLevel(ompl::msg::LOG_NONE);
    auto rv = std::make_shared<ob::RealVectorStateSpace>(2);
    rv->setBounds(-10, 10);
    auto cs = std::make_shared<ob::CompoundStateSpace>();
    cs->addSubspace(rv, 1.0);
    cs->lock();
    auto si = std::make_shared<ob::SpaceInformation>(cs);
    si->setStateValidityChecker([](const ob::State *) { return true; });
    si->setup();
    auto pdef = std::make_shared<ob::ProblemDefinition>(si);
    ob::State *s = cs->allocState();
    auto setxy = [&](double x, double y) {
        auto *r = s->as<ob::CompoundState>()->as<ob::RealVectorStateSpace::StateType>(0);
        r->values[0] = x; r->values[1] = y; };
    setxy(-1, 0); pdef->addStartState(s);
    auto gs = std::make_shared<ob::GoalStates>(si);
    setxy(1, 0); gs->addState(s);
    pdef->setGoal(gs);
    pdef->setOptimizationObjective(std::make_shared<ob::PathLengthOptimizationObjective>(si));
    ob::PathLengthDirectInfSampler smp(pdef, 100);
    double c = 2.5; int bad = 0, ok = 0;
    for (int k = 0; k < 2000; ++k)
    {
        if (!smp.sampleUniform(s, ob::Cost(c))) continue;
        ++ok;
        double h = smp.heuristicSolnCost(s).value();
        if (!(h < c)) { if (bad < 3) { auto *r = s->as<ob::CompoundState>()->as<ob::RealVectorStateSpace::StateType>(0);
            printf("success with x=(%g,%g) heuristic %g >= maxCost %g\n", r->values[0], r->values[1], h, c);} ++bad; }
    }
    printf("successes %d, of which cost >= bound: %d; informed measure %g (analytic PHS area %g, space %g)\n", ok, bad,
           smp.getInformedMeasure(ob::Cost(c)), 3.14159265358979*1.25*0.75, cs->getMeasure());
    cs->freeState(s);
    return bad ? 1 : 0;
}
