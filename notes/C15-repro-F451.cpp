// PathLengthDirectInfSampler on an SE(2)-TYPED compound space whose two subspaces are both SO(2): accepted by the constructor
#include <ompl/base/spaces/SO2StateSpace.h>
#include <ompl/base/StateSpace.h>
#include <ompl/base/SpaceInformation.h>
#include <ompl/base/ProblemDefinition.h>
#include <ompl/base/goals/GoalStates.h>
#include <ompl/base/objectives/PathLengthOptimizationObjective.h>
#include <ompl/base/samplers/informed/PathLengthDirectInfSampler.h>
#include <ompl/base/samplers/informed/RejectionInfSampler.h>
#include <ompl/util/Console.h>
#include <cstdio>
namespace ob = ompl::base;
struct Typed : ob::CompoundStateSpace { Typed(int t) { type_ = t; } };
int main()
{
    ompl::msg::setLogLevel(ompl::msg::LOG_NONE);
    auto cs = std::make_shared<Typed>(ob::STATE_SPACE_SE2);
    cs->addSubspace(std::make_shared<ob::SO2StateSpace>(), 1.0);
    cs->addSubspace(std::make_shared<ob::SO2StateSpace>(), 1.0);
    cs->lock();
    auto si = std::make_shared<ob::SpaceInformation>(cs);
    si->setStateValidityChecker([](const ob::State *) { return true; });
    si->setup();
    auto pdef = std::make_shared<ob::ProblemDefinition>(si);
    ob::State *s = cs->allocState();
    auto set = [&](double a, double b) {
        s->as<ob::CompoundState>()->as<ob::SO2StateSpace::StateType>(0)->value = a;
        s->as<ob::CompoundState>()->as<ob::SO2StateSpace::StateType>(1)->value = b; };
    set(3.0, 0.0); pdef->addStartState(s);
    auto gs = std::make_shared<ob::GoalStates>(si);
    set(-3.0, 0.0); gs->addState(s);
    pdef->setGoal(gs);
    auto opt = std::make_shared<ob::PathLengthOptimizationObjective>(si);
    pdef->setOptimizationObjective(opt);
    try {
        ob::PathLengthDirectInfSampler smp(pdef, 100);
        ob::RejectionInfSampler rej(pdef, 100);
        // true start-goal distance through the wrap: 2*pi - 6 = 0.283; a solution of cost 1.0 can be improved
        set(3.1, 0.0);
        printf("state (3.1, 0): space heuristic (rejection sampler) %g, direct sampler heuristic %g\n",
               rej.heuristicSolnCost(s).value(), smp.heuristicSolnCost(s).value());
        int okd = 0, okr = 0;
        for (int k = 0; k < 1000; ++k) { okd += smp.sampleUniform(s, ob::Cost(1.0)); okr += rej.sampleUniform(s, ob::Cost(1.0)); }
        printf("maxCost 1.0: direct sampler successes %d / 1000, rejection sampler successes %d / 1000; direct informed measure %g\n", okd, okr,
               smp.getInformedMeasure(ob::Cost(1.0)));
    } catch (std::exception &e) { printf("exception: %s\n", e.what()); }
    cs->freeState(s);
}
