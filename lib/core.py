"""Shared machinery of the /verif checks: PRNG, Lean build + audit, harness builds, paired runs of
harness and model driver, diffing, shrinking, known findings, replays, evidence.

A check module (checks/cXX.py) gets a `Check` object `ck` and calls, in order:
    ck.lean_build([...lake targets...])           # proof obligations (kernel-checked)
    ck.audit()                                    # no sorry/axioms; #print axioms on Props/CXX
    h = ck.build_harness("heap", ["heap.cpp"])    # real code from /repo's current tree
    impl, model = ck.run_pair(h, "drv_heap", script_lines)
    ck.compare(...); ck.oracle failures -> ck.violation(...)
    return ck.finish()
"""
import collections
import fcntl
import hashlib
import json
import os
import re
import subprocess
import sys
import time

from . import ompl_build

VERIF = os.path.dirname(os.path.dirname(os.path.abspath(__file__)))
REPO = ompl_build.REPO
LEAN = os.path.join(VERIF, "lean")
CACHE = ompl_build.CACHE
BIN = os.path.join(CACHE, "bin")
HARNESS = os.path.join(VERIF, "harness")
# evidence/ and replays/ belong to runs against /repo itself; a run redirected to another tree (VERIF_REPO, used to
# try seeded changes) writes them under that tree's cache directory so the committed evidence is never overwritten
OUT_ROOT = VERIF if REPO == "/repo" else CACHE

ALLOWED_AXIOMS = {"propext", "Classical.choice", "Quot.sound"}
FORBIDDEN = re.compile(r"\bsorry\b|\badmit\b|^\s*axiom\s|native_decide|bv_decide|implemented_by|\bunsafe\s|maxHeartbeats\s+0\b",
                       re.M)
TRUSTED_BASE_COMMON = [
    "Lean 4.33 kernel (thorough tier: re-checked by leanchecker)",
    "axioms: propext, Classical.choice, Quot.sound only (audited by #print axioms on every run)",
    "hand-written model tied to the code by the correspondence run of this check (differential testing)",
    "Lean compiler/runtime for the driver executable; g++ 12 / glibc; ASan+UBSan as memory observers",
]


class SplitMix64:
    """every random choice of a check derives from one of these, seeded by VERIF_SEED."""

    def __init__(self, seed):
        self.s = seed & 0xFFFFFFFFFFFFFFFF

    def next(self):
        self.s = (self.s + 0x9E3779B97F4A7C15) & 0xFFFFFFFFFFFFFFFF
        z = self.s
        z = ((z ^ (z >> 30)) * 0xBF58476D1CE4E5B9) & 0xFFFFFFFFFFFFFFFF
        z = ((z ^ (z >> 27)) * 0x94D049BB133111EB) & 0xFFFFFFFFFFFFFFFF
        return z ^ (z >> 31)

    def below(self, n):
        return self.next() % n if n > 0 else 0

    def range(self, lo, hi):
        """inclusive"""
        return lo + self.below(hi - lo + 1)

    def chance(self, num, den):
        return self.below(den) < num

    def choice(self, xs):
        return xs[self.below(len(xs))]

    def unit(self):
        return (self.next() >> 11) / float(1 << 53)

    def uniform(self, a, b):
        return a + (b - a) * self.unit()

    def shuffle(self, xs):
        for i in range(len(xs) - 1, 0, -1):
            j = self.below(i + 1)
            xs[i], xs[j] = xs[j], xs[i]

    def fork(self, tag):
        h = hashlib.sha1(("%d:%s" % (self.s, tag)).encode()).digest()
        return SplitMix64(int.from_bytes(h[:8], "little"))


def f2bits(x):
    import struct
    return str(struct.unpack("<Q", struct.pack("<d", float(x)))[0])


def bits2f(s):
    import struct
    return struct.unpack("<d", struct.pack("<Q", int(s)))[0]


def _run(cmd, inp=None, cwd=None, timeout=None, env=None):
    return subprocess.run(cmd, input=inp, cwd=cwd, stdout=subprocess.PIPE, stderr=subprocess.PIPE, text=True,
                          timeout=timeout, env=env)


def strip_lean_comments(src):
    # block comments (possibly nested) and line comments
    out = []
    i, depth, n = 0, 0, len(src)
    while i < n:
        if src.startswith("/-", i):
            depth += 1
            i += 2
        elif depth and src.startswith("-/", i):
            depth -= 1
            i += 2
        elif depth:
            i += 1
        elif src.startswith("--", i):
            while i < n and src[i] != "\n":
                i += 1
        else:
            out.append(src[i])
            i += 1
    return "".join(out)


def ddmin(items, fails, max_tests=400):
    """delta debugging: smallest sublist (order kept) on which fails(sublist) is still True."""
    tests = 0
    n = 2
    items = list(items)
    while len(items) >= 2 and tests < max_tests:
        chunk = max(1, len(items) // n)
        reduced = False
        for i in range(0, len(items), chunk):
            cand = items[:i] + items[i + chunk:]
            tests += 1
            if cand and fails(cand):
                items = cand
                n = max(n - 1, 2)
                reduced = True
                break
            if tests >= max_tests:
                break
        if not reduced:
            if chunk == 1:
                break
            n = min(len(items), n * 2)
    return items


class Check:
    def __init__(self, prop, tier="quick", seed=0, level="proof"):
        self.prop = prop
        self.tier = tier
        self.seed = seed
        self.level = level
        self.t0 = time.time()
        self.rng = SplitMix64(seed * 0x1000193 + int(prop[1:]))
        self.obligations = []          # names of property theorems
        self.failed_obligations = []   # (name, why)
        self.axioms_seen = set()
        self.lean_ok = None
        self.audit_ok = None
        self.evaluations = 0
        self.nontrivial = set()
        self.samples = []
        self.dist = collections.Counter()
        self.traces_validated = 0
        self.disagreements = 0
        self.drift_events = 0
        self.violations = []           # (replay_path, found_input)
        self.known_printed = []
        self.notes = []
        self.trusted = list(TRUSTED_BASE_COMMON)
        self.assumptions = []
        self.rule = ""
        self.checker_cmd = ""
        self.extra_cov = {}
        self._known = self._load_known()
        self._replay_n = 0
        os.makedirs(BIN, exist_ok=True)

    # ------------------------------------------------------------------ logging
    def log(self, msg):
        print("[%s %6.1fs] %s" % (self.prop, time.time() - self.t0, msg), file=sys.stderr, flush=True)

    # ------------------------------------------------------------------ Lean side
    def props_file(self):
        return os.path.join(LEAN, "OmplModel", "Props", self.prop + ".lean")

    def theorem_names(self, path=None):
        src = strip_lean_comments(open(path or self.props_file()).read())
        ns = []
        names = []
        for line in src.splitlines():
            m = re.match(r"\s*namespace\s+(\S+)", line)
            if m:
                ns.append(m.group(1))
                continue
            m = re.match(r"\s*end\s+(\S+)", line)
            if m and ns and ns[-1] == m.group(1):
                ns.pop()
                continue
            m = re.match(r"\s*(?:@\[[^\]]*\]\s*)?(?:private\s+|protected\s+)?theorem\s+([^\s:({\[]+)", line)
            if m:
                names.append(".".join(ns + [m.group(1)]))
        return names

    def lean_build(self, targets, extra_props=()):
        """lake build of the given targets; the property theorems of Props/<prop>.lean are the
        proof obligations.  Returns True iff the build succeeded."""
        self.obligations = self.theorem_names()
        for p in extra_props:
            self.obligations += self.theorem_names(p)
        cmd = ["lake", "build"] + list(targets)
        self.checker_cmd = "cd lean && " + " ".join(cmd) + " && lake env lean Audit/%s.lean  # #print axioms" % self.prop
        with open(os.path.join(CACHE, "lake.lock"), "w") as lk:
            fcntl.flock(lk, fcntl.LOCK_EX)
            t = time.time()
            r = _run(cmd, cwd=LEAN)
            fcntl.flock(lk, fcntl.LOCK_UN)
        self.lean_ok = r.returncode == 0
        self.log("lake build %s: %s (%.1fs)" % (" ".join(targets), "ok" if self.lean_ok else "FAILED", time.time() - t))
        if not self.lean_ok:
            out = r.stdout + r.stderr
            errs = [l for l in out.splitlines() if "error" in l.lower()][:20]
            self.build_log_tail = out[-6000:]
            # attribute errors to theorems by line number where possible
            for e in errs:
                self.failed_obligations.append(("lake-build", e.strip()))
        return self.lean_ok

    def audit(self, extra_names=(), roots=None):
        """no sorry/admit/axiom/native_decide/... anywhere in the Lean tree (comments stripped), and
        `#print axioms` of every property theorem shows only the three standard axioms."""
        ok = True
        for p in self.import_closure(roots):
            src = strip_lean_comments(open(p).read())
            # string literals may legitimately contain the words (e.g. in messages): drop them
            src = re.sub(r'"(?:[^"\\]|\\.)*"', '""', src)
            m = FORBIDDEN.search(src)
            if m:
                ok = False
                self.failed_obligations.append(("audit-grep", "%s: forbidden token %r" % (os.path.relpath(p, LEAN), m.group(0).strip())))
        names = list(self.obligations) + list(extra_names)
        if self.lean_ok and names:
            os.makedirs(os.path.join(LEAN, "Audit"), exist_ok=True)
            ap = os.path.join(LEAN, "Audit", self.prop + ".lean")
            with open(ap, "w") as f:
                f.write("import OmplModel.Props.%s\n" % self.prop)
                for n in names:
                    f.write("#print axioms %s\n" % n)
            r = _run(["lake", "env", "lean", ap], cwd=LEAN)
            out = r.stdout + r.stderr
            if r.returncode != 0:
                ok = False
                self.failed_obligations.append(("audit-axioms", out[-800:]))
            seen = {}
            for m in re.finditer(r"'([^']+)' depends on axioms: \[([^\]]*)\]", out.replace("\n", " ")):
                axs = [a.strip() for a in m.group(2).split(",") if a.strip()]
                seen[m.group(1)] = axs
            for m in re.finditer(r"'([^']+)' does not depend on any axioms", out):
                seen[m.group(1)] = []
            for n in names:
                if n not in seen:
                    ok = False
                    self.failed_obligations.append((n, "no #print axioms output"))
                    continue
                self.axioms_seen.update(seen[n])
                bad = [a for a in seen[n] if a not in ALLOWED_AXIOMS]
                if bad:
                    ok = False
                    self.failed_obligations.append((n, "depends on axioms %s" % bad))
        self.audit_ok = ok and bool(self.lean_ok)
        self.log("audit: %s (%d theorems, axioms %s)" % ("ok" if self.audit_ok else "FAILED", len(names), sorted(self.axioms_seen)))
        return self.audit_ok

    def import_closure(self, roots=None):
        """files of this project (OmplModel.*, Drv.*) transitively imported by Props/<prop>.lean (+roots)."""
        todo = [self.props_file()] + [os.path.join(LEAN, *r.split(".")) + ".lean" for r in (roots or [])]
        seen = []
        while todo:
            p = todo.pop()
            if p in seen or not os.path.isfile(p):
                continue
            seen.append(p)
            for m in re.finditer(r"^\s*(?:public\s+)?import\s+((?:OmplModel|Drv)\.[\w.]+)", open(p).read(), re.M):
                todo.append(os.path.join(LEAN, *m.group(1).split(".")) + ".lean")
        return seen

    def leanchecker(self, modules):
        """independent re-check of compiled .olean files (thorough tier)."""
        allok = True
        for m in modules:
            r = _run(["lake", "env", "leanchecker", m], cwd=LEAN)
            ok = r.returncode == 0
            self.log("leanchecker %s: %s" % (m, "ok" if ok else "FAILED"))
            if not ok:
                allok = False
                self.failed_obligations.append(("leanchecker:" + m, (r.stdout + r.stderr)[-500:]))
        self.extra_cov["leanchecker_modules"] = list(modules)
        return allok

    def driver(self, name):
        p = os.path.join(LEAN, ".lake", "build", "bin", name)
        if not os.path.isfile(p):
            raise RuntimeError("driver %s not built" % name)
        return p

    # ------------------------------------------------------------------ C++ side
    def ompl(self):
        info = ompl_build.ensure_built(self.log)
        self.log("libompl from /repo working tree ready (%.1fs, rebuilt=%s)" % (info["seconds"], info["rebuilt"]))
        return info

    def build_harness(self, name, sources, link_ompl=False, sanitize="address,undefined", opt="-O1", extra=()):
        """compile harness/<sources> against /repo's current tree.  Cached on the hash of the harness
        sources, the flags and the digest of everything under /repo/src."""
        digest = ompl_build.src_tree_digest()
        h = hashlib.sha1()
        h.update(digest.encode())
        srcs = [os.path.join(HARNESS, s) for s in sources]
        for d, _, files in os.walk(os.path.join(HARNESS, "common")):
            for f in sorted(files):
                srcs_dep = os.path.join(d, f)
                h.update(open(srcs_dep, "rb").read())
        for s in srcs:
            h.update(open(s, "rb").read())
        flags = ["-std=c++17", opt, "-g", "-I" + HARNESS, "-I" + os.path.join(REPO, "src"), "-D" + ompl_build.GUARD]
        if sanitize:
            flags += ["-fsanitize=" + sanitize, "-fno-sanitize-recover=all", "-fno-omit-frame-pointer"]
        flags += list(extra)
        libs = []
        if link_ompl:
            info = self.ompl()
            flags += ["-I" + i for i in info["includes"]] + ["-DNDEBUG"]  # as libompl itself is built
            libs = ["-L" + info["libdir"], "-lompl", "-Wl,-rpath," + info["libdir"], "-lboost_serialization",
                    "-lboost_filesystem", "-lboost_system", "-lpthread"]
            h.update(str(os.path.getmtime(info["lib"])).encode())
        h.update(" ".join(flags).encode())
        out = os.path.join(BIN, "%s-%s" % (name, h.hexdigest()[:16]))
        if not os.path.isfile(out):
            for old in os.listdir(BIN):
                if old.startswith(name + "-"):
                    os.remove(os.path.join(BIN, old))
            t = time.time()
            r = _run(["g++"] + flags + srcs + ["-o", out + ".tmp"] + libs)
            if r.returncode != 0:
                raise RuntimeError("harness %s does not compile against the current tree:\n%s" % (name, r.stderr[-4000:]))
            os.replace(out + ".tmp", out)
            self.log("harness %s compiled (%.1fs)" % (name, time.time() - t))
        return out

    def run_bin(self, binary, script_lines, timeout=600, env=None):
        e = dict(os.environ)
        e["ASAN_OPTIONS"] = "detect_leaks=1:abort_on_error=0:exitcode=99"
        e["UBSAN_OPTIONS"] = "print_stacktrace=1:halt_on_error=1:exitcode=98"
        if env:
            e.update(env)
        # A harness links the shared libompl of the build cache. If /repo changes while a check is running, another
        # check's ensure_built() re-links that library in place and for some seconds the dynamic loader refuses it
        # ("file too short", "cannot open shared object"): that is the infrastructure, not the code under test, so
        # wait and run the same input again (a reproducible failure still comes back).
        for attempt in range(6):
            try:
                r = _run([binary], inp="\n".join(script_lines) + "\n", timeout=timeout, env=e)
            except subprocess.TimeoutExpired:
                return None, "timeout", ""
            if r.returncode == 127 and "error while loading shared libraries" in (r.stderr or ""):
                time.sleep(20 * (attempt + 1))
                continue
            break
        return r.stdout.splitlines(), r.returncode, r.stderr

    def run_pair(self, harness_bin, driver_name, script_lines, timeout=600):
        impl, rc, err = self.run_bin(harness_bin, script_lines, timeout)
        model, rc2, err2 = self.run_bin(self.driver(driver_name), script_lines, timeout)
        if rc2 != 0:
            raise RuntimeError("model driver %s failed (rc=%s): %s" % (driver_name, rc2, err2[-2000:]))
        return impl, rc, err, model

    @staticmethod
    def first_diff(a, b):
        for i in range(max(len(a), len(b))):
            x = a[i] if i < len(a) else "<missing>"
            y = b[i] if i < len(b) else "<missing>"
            if x != y:
                return i
        return None

    # ------------------------------------------------------------------ accounting
    def count(self, key, n=1):
        self.dist[key] += n

    def case(self, canonical, nontrivial):
        """one explored case; canonical = any hashable description (used for distinctness)."""
        self.evaluations += 1
        if nontrivial:
            self.nontrivial.add(hashlib.sha1(repr(canonical).encode()).hexdigest())

    def sample(self, obj, limit=6):
        if len(self.samples) < limit:
            self.samples.append(obj)

    # ------------------------------------------------------------------ findings / violations
    def _load_known(self):
        p = os.path.join(VERIF, "KNOWN_FINDINGS.jsonl")
        out = []
        if os.path.isfile(p):
            for line in open(p):
                line = line.strip()
                if not line or line.startswith("#"):
                    continue
                try:
                    out.append(json.loads(line))
                except Exception:
                    pass
        return out

    def known_finding(self, record):
        """returns the KNOWN_FINDINGS entry (status=finding) whose `match` holds for this violation
        record: every key of match must be present in the record and equal (or, for strings starting
        with 're:', match as regex)."""
        for k in self._known:
            if k.get("status") != "finding" or k.get("property") != self.prop:
                continue
            ok = True
            for key, want in (k.get("match") or {}).items():
                have = record.get(key)
                if isinstance(want, str) and want.startswith("re:"):
                    if have is None or not re.search(want[3:], str(have)):
                        ok = False
                elif have != want:
                    ok = False
            if ok:
                return k
        return None

    def report(self, record, script=None, expected=None, observed=None, found_input=True, obligation=None, engine=None):
        """A property failure (found_input=True: concrete failing input in `script`) or a broken
        obligation/correspondence (found_input=False).  Known findings print KNOWN-FINDING once per
        finding id and are not violations."""
        k = self.known_finding(record) if found_input else None
        if k is not None:
            if k["id"] not in [x["id"] for x in self.known_printed]:
                self.known_printed.append(k)
            self.count("known_finding:" + k["id"])
            return False
        self._replay_n += 1
        d = os.path.join(OUT_ROOT, "replays", self.prop)
        os.makedirs(d, exist_ok=True)
        path = os.path.join(d, "%d-%d.json" % (self.seed, self._replay_n))
        rel = os.path.relpath(path, VERIF)
        json.dump({
            "property": self.prop, "engine": engine, "kind": "counterexample" if found_input else "broken-obligation",
            "seed": self.seed, "tier": self.tier, "record": record, "script": script, "expected": expected,
            "observed": observed, "obligation": obligation,
            "how": "python3 run.py replay %s" % rel,
        }, open(path, "w"), indent=1)
        self.violations.append((rel, found_input))
        return True

    # ------------------------------------------------------------------ end of run
    def finish(self):
        wall = time.time() - self.t0
        # a failed build/audit with no concrete failing input is a broken obligation
        if (self.lean_ok is False or self.audit_ok is False) and not any(fi for _, fi in self.violations):
            if not any(not fi for _, fi in self.violations):
                self.report({"kind": "obligation"}, found_input=False,
                            obligation="; ".join("%s: %s" % fo for fo in self.failed_obligations[:6]),
                            observed=getattr(self, "build_log_tail", None))
        n_obl = len(self.obligations)
        failed_names = set(n for n, _ in self.failed_obligations)
        discharged = n_obl if (self.lean_ok and self.audit_ok) else (0 if not self.lean_ok else n_obl - len(failed_names & set(self.obligations)))
        cov = {
            "obligations": n_obl,
            "discharged": discharged,
            "checker_cmd": self.checker_cmd,
            "trusted_base": self.trusted,
            "axioms_seen": sorted(self.axioms_seen),
            "theorems": self.obligations,
            "failed_obligations": ["%s: %s" % fo for fo in self.failed_obligations][:20],
            "traces_validated_against_impl": self.traces_validated,
            "evaluations": self.evaluations,
            "distinct_nontrivial": len(self.nontrivial),
            "rule": self.rule,
            "samples": self.samples,
            "input_distribution": dict(sorted(self.dist.items())),
            "correspondence_disagreements": self.disagreements,
            "numeric_drift_events": self.drift_events,
            "known_findings_printed": [k["id"] for k in self.known_printed],
            "notes": self.notes,
        }
        cov.update(self.extra_cov)
        ev = {
            "property_id": self.prop, "tier": self.tier, "seed": self.seed, "level": self.level,
            "coverage": cov, "assumptions": self.assumptions, "wall_s": round(wall, 2),
            "violations": len(self.violations),
        }
        os.makedirs(os.path.join(OUT_ROOT, "evidence"), exist_ok=True)
        json.dump(ev, open(os.path.join(OUT_ROOT, "evidence", self.prop + ".json"), "w"), indent=1)
        for k in self.known_printed:
            print("KNOWN-FINDING: property=%s %s [%s]" % (self.prop, k.get("what", ""), k["id"]))
        for path, found in self.violations:
            print("VIOLATION property=%s replay=%s%s" % (self.prop, path, "" if found else " no-failing-input-found"))
        sys.stdout.flush()
        self.log("done: %d evaluations, %d distinct non-trivial, %d obligations (%d discharged), %d violation(s), %.1fs"
                 % (self.evaluations, len(self.nontrivial), n_obl, discharged, len(self.violations), wall))
        return 1 if self.violations else 0
