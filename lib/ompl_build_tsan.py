"""Second out-of-tree build cache of /repo's libompl, instrumented with ThreadSanitizer (used by C19 only).

Same scheme as lib/ompl_build.py (content hashes of the build inputs, objects depending on changed files
deleted via `ninja -t deps`, flock), but in its own directory `<cache>/ompl-build-tsan` with
`-fsanitize=thread`.  lib/ompl_build.py itself is not modified; its helpers (`tree_hashes`, `REPO`, `CACHE`,
`GUARD`) are reused, so VERIF_REPO=<scratch worktree> redirects this cache as well.
"""
import fcntl
import json
import os
import subprocess
import sys
import time

from . import ompl_build as ob

BUILD = os.path.join(ob.CACHE, "ompl-build-tsan")
MANIFEST = os.path.join(ob.CACHE, "ompl-build-tsan.manifest.json")
RELFLAGS = "-O1 -g1 -DNDEBUG -fsanitize=thread -fno-omit-frame-pointer"


def _run(cmd, **kw):
    return subprocess.run(cmd, stdout=subprocess.PIPE, stderr=subprocess.STDOUT, text=True, **kw)


def _configure():
    os.makedirs(BUILD, exist_ok=True)
    cmd = [
        "cmake", "-G", "Ninja", "-S", ob.REPO, "-B", BUILD,
        "-DCMAKE_BUILD_TYPE=RelWithDebInfo",
        "-DCMAKE_CXX_COMPILER=g++",
        "-DCMAKE_CXX_FLAGS=-D%s -Wno-error" % ob.GUARD,
        "-DCMAKE_CXX_FLAGS_RELWITHDEBINFO=" + RELFLAGS,
        "-DCMAKE_SHARED_LINKER_FLAGS=-fsanitize=thread",
        "-DOMPL_BUILD_TESTS=OFF", "-DOMPL_BUILD_DEMOS=OFF", "-DOMPL_BUILD_PYBINDINGS=OFF",
        "-DOMPL_BUILD_PYTESTS=OFF", "-DOMPL_REGISTRATION=OFF",
    ]
    extra, env = ob.ccache_args_env()
    r = _run(cmd + extra, env=env)
    if r.returncode != 0:
        raise RuntimeError("cmake configure (tsan) failed:\n" + r.stdout[-4000:])


def _objects_depending_on(changed_abs):
    r = _run(["ninja", "-C", BUILD, "-t", "deps"])
    if r.returncode != 0:
        return None
    objs = set()
    cur = None
    changed = set(os.path.realpath(p) for p in changed_abs)
    for line in r.stdout.splitlines():
        if not line.strip():
            cur = None
            continue
        if not line.startswith(" "):
            cur = line.split(":")[0].strip()
        else:
            dep = line.strip()
            if not os.path.isabs(dep):
                dep = os.path.join(BUILD, dep)
            if os.path.realpath(dep) in changed and cur:
                objs.add(cur)
    return objs


def ensure_built(log=lambda s: None):
    """Build (or incrementally rebuild) the TSan-instrumented libompl from the *current* working tree."""
    os.makedirs(ob.CACHE, exist_ok=True)
    t0 = time.time()
    with open(os.path.join(ob.CACHE, "ompl-build-tsan.lock"), "w") as lk:
        fcntl.flock(lk, fcntl.LOCK_EX)
        cur = ob.tree_hashes()
        cur["__flags__"] = RELFLAGS + " " + ob.GUARD
        old = {}
        if os.path.isfile(MANIFEST) and os.path.isfile(os.path.join(BUILD, "build.ninja")):
            try:
                old = json.load(open(MANIFEST))
            except Exception:
                old = {}
        lib = os.path.join(BUILD, "src", "ompl", "libompl.so")
        rebuilt = 0
        if not old or old.get("__flags__") != cur["__flags__"]:
            log("ompl tsan cache: configuring from scratch")
            _configure()
            rebuilt = -1
        else:
            changed = [k for k in set(cur) | set(old) if cur.get(k) != old.get(k)]
            if changed:
                log("ompl tsan cache: %d changed input(s): %s" % (len(changed), ", ".join(sorted(changed)[:5])))
                cmake_changed = [c for c in changed if not c.startswith("src/ompl/") or c.endswith("CMakeLists.txt")
                                 or c.endswith(".in")]
                added_or_removed = [c for c in changed if (c in cur) != (c in old)]
                if cmake_changed or added_or_removed:
                    _configure()
                objs = _objects_depending_on([os.path.join(ob.REPO, c) for c in changed]) or set()
                for o in objs:
                    p = os.path.join(BUILD, o)
                    if os.path.isfile(p):
                        os.remove(p)
                        rebuilt += 1
        if rebuilt != 0 or not os.path.isfile(lib):
            if os.path.isfile(MANIFEST):
                os.remove(MANIFEST)
            r = _run(["cmake", "--build", BUILD, "--target", "ompl", "-j", str(os.cpu_count() or 8)], env=ob.ccache_args_env()[1])
            if r.returncode != 0:
                raise RuntimeError("libompl (tsan) build failed:\n" + r.stdout[-6000:])
        json.dump(cur, open(MANIFEST, "w"))
        fcntl.flock(lk, fcntl.LOCK_UN)
    return {
        "lib": lib,
        "libdir": os.path.dirname(lib),
        "includes": [os.path.join(ob.REPO, "src"), os.path.join(BUILD, "src"), "/usr/include/eigen3"],
        "seconds": time.time() - t0,
        "rebuilt": rebuilt,
    }


if __name__ == "__main__":
    info = ensure_built(log=lambda s: print(s, file=sys.stderr))
    print(json.dumps(info, indent=1))
