"""Out-of-tree build cache of /repo's libompl with -DOMPL_VERIF.

One CMake/Ninja build lives in /verif/.cache/ompl-build.  Because file mtimes cannot be trusted
after a restore (and a `git checkout` can move content backwards), every run hashes the files
under /repo/src (+ the CMake inputs), compares with the manifest of the last successful build and
deletes the objects that depend on changed files (via `ninja -t deps`) before running
`cmake --build`.  Concurrent checks serialise on a flock.
"""
import fcntl
import hashlib
import json
import os
import subprocess
import sys
import time

REPO = os.environ.get("VERIF_REPO", "/repo")
VERIF = os.path.dirname(os.path.dirname(os.path.abspath(__file__)))
# VERIF_REPO=<scratch worktree> redirects a check to another copy of the repository (used to try
# seeded changes without touching /repo); it then gets its own cache so builds never mix.
CACHE = os.path.join(VERIF, ".cache") if REPO == "/repo" else (os.environ.get("VERIF_ALT_CACHE") or os.path.join(
    VERIF, ".cache", "alt-" + hashlib.sha1(REPO.encode()).hexdigest()[:10]))
# Scratch-tree runs only (never the registered checks, which run against /repo): when the scratch worktree and its
# cache share a parent directory (tools/try_seeded.py lays them out as <root>/wt and <root>/cache) and ccache is
# installed, compile through ccache with that parent as base directory, so the relative paths - and hence the cache
# keys - are the same for every scratch tree and only the files a seeded change touches are really compiled.
import shutil as _sh
CCACHE_ROOT = None
if REPO != "/repo" and _sh.which("ccache") and os.path.dirname(REPO.rstrip("/")) == os.path.dirname(CACHE.rstrip("/")):
    CCACHE_ROOT = os.path.dirname(REPO.rstrip("/"))


def ccache_args_env():
    """(extra cmake args, env) for scratch-tree builds through ccache; ([], None) otherwise."""
    if not CCACHE_ROOT:
        return [], None
    env = dict(os.environ, CCACHE_BASEDIR=CCACHE_ROOT, CCACHE_NOHASHDIR="1", CCACHE_MAXSIZE="20G",
               CCACHE_SLOPPINESS="time_macros,include_file_mtime,include_file_ctime")
    return ["-DCMAKE_CXX_COMPILER_LAUNCHER=ccache"], env
BUILD = os.path.join(CACHE, "ompl-build")
MANIFEST = os.path.join(CACHE, "ompl-build.manifest.json")
GUARD = "OMPL_VERIF"
# same configuration as the pinned test suite (RelWithDebInfo, assertions off), lighter debug info
RELFLAGS = "-O2 -g1 -DNDEBUG"


def _hash_file(p):
    h = hashlib.sha1()
    with open(p, "rb") as f:
        while True:
            b = f.read(1 << 20)
            if not b:
                break
            h.update(b)
    return h.hexdigest()


def tree_hashes(roots=None):
    """content hash of every build input under /repo (src/, CMake files)."""
    out = {}
    roots = roots or [os.path.join(REPO, "src")]
    for root in roots:
        for d, dirs, files in os.walk(root):
            dirs.sort()
            for f in sorted(files):
                p = os.path.join(d, f)
                if os.path.islink(p) or not os.path.isfile(p):
                    continue
                out[os.path.relpath(p, REPO)] = _hash_file(p)
    for extra in ["CMakeLists.txt", "omplConfig.cmake.in"]:
        p = os.path.join(REPO, extra)
        if os.path.isfile(p):
            out[extra] = _hash_file(p)
    cm = os.path.join(REPO, "CMakeModules")
    for d, dirs, files in os.walk(cm):
        for f in sorted(files):
            p = os.path.join(d, f)
            out[os.path.relpath(p, REPO)] = _hash_file(p)
    return out


def src_tree_digest():
    """one digest for everything under /repo/src (used as a cache key by harness builds)."""
    h = hashlib.sha1()
    for k, v in sorted(tree_hashes().items()):
        h.update(k.encode())
        h.update(v.encode())
    return h.hexdigest()


def _run(cmd, **kw):
    return subprocess.run(cmd, stdout=subprocess.PIPE, stderr=subprocess.STDOUT, text=True, **kw)


def _configure():
    os.makedirs(BUILD, exist_ok=True)
    cmd = [
        "cmake", "-G", "Ninja", "-S", REPO, "-B", BUILD,
        "-DCMAKE_BUILD_TYPE=RelWithDebInfo",
        "-DCMAKE_CXX_FLAGS=-D%s -Wno-error" % GUARD,
        "-DCMAKE_CXX_FLAGS_RELWITHDEBINFO=" + RELFLAGS,
        "-DOMPL_BUILD_TESTS=OFF", "-DOMPL_BUILD_DEMOS=OFF", "-DOMPL_BUILD_PYBINDINGS=OFF",
        "-DOMPL_BUILD_PYTESTS=OFF", "-DOMPL_REGISTRATION=OFF",
    ]
    extra, env = ccache_args_env()
    r = _run(cmd + extra, env=env)
    if r.returncode != 0:
        raise RuntimeError("cmake configure failed:\n" + r.stdout[-4000:])


def _objects_depending_on(changed_abs):
    """map changed source/header paths -> object files listed by `ninja -t deps`."""
    r = _run(["ninja", "-C", BUILD, "-t", "deps"])
    objs = set()
    if r.returncode != 0:
        return None
    cur = None
    changed = set(os.path.realpath(p) for p in changed_abs)
    for line in r.stdout.splitlines():
        if not line.strip():
            cur = None
            continue
        if not line.startswith(" "):
            cur = line.split(":")[0].strip()
        else:
            dep = line.strip()
            if not os.path.isabs(dep):
                dep = os.path.join(BUILD, dep)
            if os.path.realpath(dep) in changed and cur:
                objs.add(cur)
    return objs


def ensure_built(log=lambda s: None):
    """Build (or incrementally rebuild) libompl from /repo's *current* working tree.
    Returns dict(lib=<path to libompl.so>, includes=[...], seconds=..., rebuilt=<n objects>)."""
    os.makedirs(CACHE, exist_ok=True)
    t0 = time.time()
    with open(os.path.join(CACHE, "ompl-build.lock"), "w") as lk:
        fcntl.flock(lk, fcntl.LOCK_EX)
        cur = tree_hashes()
        cur["__flags__"] = RELFLAGS + " " + GUARD
        old = {}
        if os.path.isfile(MANIFEST) and os.path.isfile(os.path.join(BUILD, "build.ninja")):
            try:
                old = json.load(open(MANIFEST))
            except Exception:
                old = {}
        lib = os.path.join(BUILD, "src", "ompl", "libompl.so")
        rebuilt = 0
        if not old or not os.path.isfile(os.path.join(BUILD, "build.ninja")) or old.get("__flags__") != cur["__flags__"]:
            log("ompl cache: configuring from scratch")
            _configure()
            rebuilt = -1
        else:
            changed = [k for k in set(cur) | set(old) if cur.get(k) != old.get(k)]
            if changed:
                log("ompl cache: %d changed input(s): %s" % (len(changed), ", ".join(sorted(changed)[:5])))
                cmake_changed = [c for c in changed if not c.startswith("src/ompl/") or c.endswith("CMakeLists.txt")
                                 or c.endswith(".in")]
                added_or_removed = [c for c in changed if (c in cur) != (c in old)]
                if cmake_changed or added_or_removed:
                    _configure()
                objs = _objects_depending_on([os.path.join(REPO, c) for c in changed])
                if objs is None:
                    objs = set()
                for o in objs:
                    p = os.path.join(BUILD, o)
                    if os.path.isfile(p):
                        os.remove(p)
                        rebuilt += 1
                if os.path.isfile(lib) and objs:
                    pass  # relinked by ninja because objects are newer
        if rebuilt != 0 or not os.path.isfile(lib):
            if os.path.isfile(MANIFEST):
                os.remove(MANIFEST)
            r = _run(["cmake", "--build", BUILD, "--target", "ompl", "-j", str(os.cpu_count() or 8)], env=ccache_args_env()[1])
            if r.returncode != 0:
                raise RuntimeError("libompl build failed:\n" + r.stdout[-6000:])
        json.dump(cur, open(MANIFEST, "w"))
        fcntl.flock(lk, fcntl.LOCK_UN)
    return {
        "lib": lib,
        "libdir": os.path.dirname(lib),
        "includes": [os.path.join(REPO, "src"), os.path.join(BUILD, "src"), "/usr/include/eigen3"],
        "seconds": time.time() - t0,
        "rebuilt": rebuilt,
    }


if __name__ == "__main__":
    info = ensure_built(log=lambda s: print(s, file=sys.stderr))
    print(json.dumps(info, indent=1))
