"""Regenerates MANIFEST.json from checks/*.py (each claims itself through a MANIFEST dict)."""
import importlib
import json
import os
import sys

VERIF = os.path.dirname(os.path.dirname(os.path.abspath(__file__)))
sys.path.insert(0, VERIF)

NOT_BUILT = "machinery for this property is not built yet in this tree (see DESIGN.md section 2); not claimed until its check exists and is green on the unchanged tree"


def main():
    # only checks vetted by the coordinator on the unchanged tree are claimed (claimed.txt, one id per line)
    claimed = set(l.strip() for l in open(os.path.join(VERIF, "claimed.txt")) if l.strip() and not l.startswith("#"))
    props = [json.loads(l) for l in open(os.path.join(VERIF, "properties.jsonl"))]
    checks = []
    na = []
    engines = []
    for p in props:
        pid = p["id"]
        f = os.path.join(VERIF, "checks", pid.lower() + ".py")
        m = None
        if os.path.isfile(f):
            mod = importlib.import_module("checks." + pid.lower())
            m = getattr(mod, "MANIFEST", None)
        if not m or pid not in claimed:
            na.append({"property_id": pid, "reason": NOT_BUILT})
            continue
        if m.get("not_applicable"):
            na.append({"property_id": pid, "reason": m["not_applicable"]})
            continue
        checks.append({
            "property_id": pid,
            "quick_cmd": "python3 run.py check %s --tier quick" % pid,
            "thorough_cmd": "python3 run.py check %s --tier thorough" % pid,
            "evidence_file": "evidence/%s.json" % pid,
            "replay_cmd_template": "python3 run.py replay {path}",
            "engine": m.get("engine", pid.lower()),
            "level_claimed": {"category": m.get("category", "proof"), "text": m["text"], "design_ref": m.get("design_ref", "")},
            "level_note": m["note"],
            "technique": m.get("technique", "Lean 4 proof over an executable model + differential correspondence with the C++ code"),
        })
        engines.append({"name": m.get("engine", pid.lower()), "path": "checks/%s.py" % pid.lower(), "serves_properties": [pid],
                        "kind_free_text": m.get("engine_kind", "Lean model + theorems, C++ harness, line-protocol correspondence")})
    man = {
        "version": 1,
        "setup_cmd": "python3 run.py setup",
        "hooks": {
            "guard": "OMPL_VERIF",
            "enable": "checks build /repo out of tree in /verif/.cache/ompl-build with -DOMPL_VERIF (lib/ompl_build.py) and compile harnesses with -DOMPL_VERIF; no source hooks are currently needed",
            "baseline_off_cmd": "cmake --build /repo/_build -j16 && ctest --test-dir /repo/_build -j8 --timeout 900",
            "source_commits": [],
            "add_only": True,
        },
        "engines": engines,
        "checks": checks,
        "not_applicable": na,
        "notes": "Every check: lake build of the property theorems (kernel-checked) + axiom audit + correspondence of the Lean model with the real code built from /repo's working tree. See DESIGN.md.",
    }
    json.dump(man, open(os.path.join(VERIF, "MANIFEST.json"), "w"), indent=1)
    print("MANIFEST.json: %d checks, %d not claimed" % (len(checks), len(na)))


if __name__ == "__main__":
    main()
