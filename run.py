#!/usr/bin/env python3
"""Entry point of the /verif checks.

  python3 run.py check C11 [--tier quick|thorough]     (honours VERIF_SEED, VERIF_TIER)
  python3 run.py replay replays/C11/<file>.json
  python3 run.py setup                                  (offline: lake build, libompl cache, harnesses)
"""
import argparse
import importlib
import json
import os
import subprocess
import sys
import traceback

VERIF = os.path.dirname(os.path.abspath(__file__))
sys.path.insert(0, VERIF)
os.chdir(VERIF)

from lib import core, ompl_build  # noqa: E402


def load(prop):
    return importlib.import_module("checks." + prop.lower())


def cmd_check(args):
    tier = args.tier or os.environ.get("VERIF_TIER") or "quick"
    seed = int(os.environ.get("VERIF_SEED", "0") or 0)
    mod = load(args.prop)
    ck = core.Check(args.prop, tier, seed, level=getattr(mod, "LEVEL", "proof"))
    try:
        mod.run(ck)
    except Exception as e:  # infrastructure failure: never claim the property held
        traceback.print_exc()
        ck.notes.append("check aborted: %r" % (e,))
        ck.report({"kind": "infrastructure", "error": repr(e)[:500]}, found_input=False,
                  obligation="check machinery could not run against the current tree: %s" % (repr(e)[:300],))
    return ck.finish()


def cmd_replay(args):
    data = json.load(open(args.path))
    mod = load(data["property"])
    ck = core.Check(data["property"], data.get("tier", "quick"), data.get("seed", 0), level=getattr(mod, "LEVEL", "proof"))
    return mod.replay(ck, data)


def cmd_setup(args):
    """offline build of everything the registered checks need: per check, its lake targets (kernel-checks the
    theorems once, so later runs are incremental), the libompl cache, its harness binaries."""
    os.makedirs(core.CACHE, exist_ok=True)
    rc = 0
    try:
        ompl_build.ensure_built(lambda s: print(s, file=sys.stderr))
    except Exception:
        traceback.print_exc()
        rc = 1
    for f in sorted(os.listdir(os.path.join(VERIF, "checks"))):
        if not (f.startswith("c") and f.endswith(".py")):
            continue
        try:
            mod = importlib.import_module("checks." + f[:-3])
        except Exception:
            traceback.print_exc()
            continue
        if not getattr(mod, "MANIFEST", None):
            continue
        ck = core.Check(f[:-3].upper(), "quick", 0)
        targets = getattr(mod, "LEAN_TARGETS", None)
        if not targets:  # fall back: the property module plus every driver exe the check source mentions
            import re
            src = open(os.path.join(VERIF, "checks", f)).read()
            targets = ["OmplModel.Props." + f[:-3].upper()] + sorted(set(re.findall(r"\bdrv_[a-z0-9_]+", src)))
        if targets:
            r = subprocess.run(["lake", "build"] + list(targets), cwd=core.LEAN)
            if r.returncode != 0:
                print("setup: lake build failed for %s" % f, file=sys.stderr)
        if hasattr(mod, "setup"):
            try:
                mod.setup(ck)
            except Exception:
                traceback.print_exc()
    return rc


def main():
    ap = argparse.ArgumentParser()
    sub = ap.add_subparsers(dest="cmd", required=True)
    c = sub.add_parser("check")
    c.add_argument("prop")
    c.add_argument("--tier", choices=["quick", "thorough"])
    r = sub.add_parser("replay")
    r.add_argument("path")
    sub.add_parser("setup")
    args = ap.parse_args()
    sys.exit({"check": cmd_check, "replay": cmd_replay, "setup": cmd_setup}[args.cmd](args))


if __name__ == "__main__":
    main()
